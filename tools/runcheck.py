#!/usr/bin/env python3
"""Orchestrator: ./check <Cxx> --tier quick|thorough [--replay file]

Builds the drivers a property needs from /repo's current tree (tools/vbuild.py),
runs each stage as N shard processes, merges their RESULT/SET/SAMPLE/VIOL records,
filters violations through known_findings.txt, writes evidence/<id>.json and replay
files, and exits 0 (held) / 1 (VIOLATION printed) / 2 (harness error).
"""
import json, os, re, subprocess, sys, tempfile, time, shutil

VERIF = os.path.dirname(os.path.dirname(os.path.abspath(__file__)))
sys.path.insert(0, os.path.join(VERIF, "tools"))
import vbuild  # noqa: E402
import props   # noqa: E402

NCPU = int(os.environ.get("VERIF_JOBS", "16"))

SAN_ENV = {
    "ASAN_OPTIONS": "detect_leaks=0:allocator_may_return_null=1:abort_on_error=0:exitcode=97:detect_stack_use_after_return=0:max_allocation_size_mb=4096:allocator_release_to_os_interval_ms=-1:quarantine_size_mb=64",
    "UBSAN_OPTIONS": "print_stacktrace=1:exitcode=98",
    "TSAN_OPTIONS": "halt_on_error=1:exitcode=96:report_signal_unsafe=0:history_size=4:second_deadlock_stack=0",
}


def load_known():
    out = []
    p = os.path.join(VERIF, "known_findings.txt")
    if not os.path.exists(p):
        return out
    for line in open(p):
        line = line.strip()
        m = re.match(r"finding:\s+property=(\S+)\s+sig=(\S+)\s*(.*)", line)
        if m:
            out.append(dict(prop=m.group(1), sig=m.group(2), what=m.group(3)))
    return out


def run_stage(prop, stage, tier, deadline_s, scratch):
    flavour = os.environ.get("VERIF_FLAVOUR") or stage.get("flavour", "asan")
    exe = vbuild.build_driver(stage["driver"], flavour)
    args = list(stage.get("args", [])) + list(stage.get(tier, []))
    nshards = stage.get("shards_" + tier, stage.get("shards", NCPU))
    procs = []
    env = dict(os.environ)
    env.update(SAN_ENV)
    for i in range(nshards):
        cf = os.path.join(scratch, "case_%s_%d" % (stage["driver"], i))
        out = open(os.path.join(scratch, "out_%s_%d" % (stage["name"], i)), "w+")
        err = open(os.path.join(scratch, "err_%s_%d" % (stage["name"], i)), "w+")
        e = dict(env)
        e["VH_CASE_FILE"] = cf
        cmd = [exe, "--tier", tier, "--shard", "%d/%d" % (i, nshards)] + args
        if deadline_s:
            cmd += ["--deadline", "%.0f" % deadline_s]
        cmd += ["--seed", os.environ.get("VERIF_SEED", "0")]
        procs.append((subprocess.Popen(cmd, stdout=out, stderr=err, env=e, cwd=scratch), out, err, cf, cmd))
    merged = dict(numeric={}, sets={}, samples=[], notes=[], viols=[], exhaustive=True, caps=[], strings={})
    harness_err = None
    hard = (deadline_s or 3600 * 6) * 1.5 + 120
    t0 = time.time()
    for p, out, err, cf, cmd in procs:
        try:
            rc = p.wait(timeout=max(1, hard - (time.time() - t0)))
        except subprocess.TimeoutExpired:
            p.kill()
            p.wait()
            rc = -9
            harness_err = "stage %s shard timed out (hard limit) cmd=%s" % (stage["name"], " ".join(cmd))
        out.seek(0)
        err.seek(0)
        otxt = out.read()
        etxt = err.read()
        got_result = False
        for line in otxt.splitlines():
            if line.startswith("RESULT "):
                got_result = True
                r = json.loads(line[7:])
                for k, v in r.items():
                    if k == "exhaustive":
                        merged["exhaustive"] = merged["exhaustive"] and bool(v)
                    elif k == "caps":
                        merged["caps"] += v
                    elif isinstance(v, bool):
                        merged["strings"][k] = v
                    elif isinstance(v, (int, float)):
                        if k.startswith("max_"):
                            merged["numeric"][k] = max(merged["numeric"].get(k, 0), v)
                        else:
                            merged["numeric"][k] = merged["numeric"].get(k, 0) + v
                    else:
                        merged["strings"][k] = v
            elif line.startswith("SET "):
                _, name, h = line.split()
                merged["sets"].setdefault(name, set()).add(h)
            elif line.startswith("SAMPLE "):
                if len(merged["samples"]) < 8:
                    try:
                        merged["samples"].append(json.loads(line[7:]))
                    except Exception:
                        merged["samples"].append(line[7:])
            elif line.startswith("NOTE "):
                if len(merged["notes"]) < 40 and line[5:] not in merged["notes"]:
                    merged["notes"].append(line[5:])
            elif line.startswith("VIOL "):
                v = json.loads(line[5:])
                v["stage"] = stage["name"]
                merged["viols"].append(v)
        nub = etxt.count("runtime error:")
        if nub:
            merged["numeric"]["ubsan_recoverable_notes"] = merged["numeric"].get("ubsan_recoverable_notes", 0) + nub
        if rc == 2 or (rc == 0 and not got_result):
            harness_err = "stage %s: harness error rc=%d: %s" % (stage["name"], rc, etxt[-2000:])
        elif rc != 0 and rc != -9:
            # sanitizer report / crash: attribute to the announced case
            case = ""
            try:
                case = open(cf, "rb").read().split(b"\0")[0].decode("utf8", "replace")
            except Exception:
                pass
            m = re.search(r"SUMMARY: (\w+Sanitizer: [^\n]*)", etxt)
            kind = m.group(1) if m else ("exit code %d" % rc)
            kind_sig = re.sub(r"0x[0-9a-f]+|\(pid=\d+\)|/[^ ]*/", "", kind)
            m2 = re.search(r"runtime error: [^\n]*", etxt)
            if not m and m2:
                kind = m2.group(0)
                kind_sig = re.sub(r"0x[0-9a-f]+", "", kind)[:120]
            try:
                rp = json.loads(case) if case.startswith("{") else case
            except Exception:
                rp = case
            merged["viols"].append(dict(sig="crash:" + kind_sig.replace(" ", "_")[:160], detail=kind + "\n" + etxt[-3000:],
                                        replay=rp, stage=stage["name"]))
            merged["exhaustive"] = False
        out.close()
        err.close()
    return merged, harness_err


def main():
    if len(sys.argv) < 2:
        print("usage: check <Cxx> [--tier quick|thorough] [--replay file]")
        return 2
    prop = sys.argv[1]
    tier = os.environ.get("VERIF_TIER", "quick")
    replay = None
    a = sys.argv[2:]
    while a:
        if a[0] == "--tier":
            tier = a[1]; a = a[2:]
        elif a[0] == "--replay":
            replay = a[1]; a = a[2:]
        else:
            a = a[1:]
    spec = props.PROPS.get(prop)
    if not spec:
        print("unknown property", prop)
        return 2
    t0 = time.time()
    scratch = tempfile.mkdtemp(prefix="vh_%s_" % prop, dir="/dev/shm")
    try:
        if replay:
            return do_replay(prop, spec, replay, scratch)
        deadline = float(os.environ.get("VERIF_DEADLINE_S", spec.get("deadline_" + tier, 900 if tier == "thorough" else 300)))
        stages = [s for s in spec["stages"] if tier in s.get("tiers", ["quick", "thorough"])]
        results = {}
        herr = None
        # cheap stages (small weight) first: what they leave unused is inherited by the later, larger ones;
        # every stage gets the time left in proportion to its weight among the stages still to run
        for i, st in enumerate(stages):
            left = deadline - (time.time() - t0)
            wsum = sum(s.get("weight", 1.0) for s in stages[i:])
            share = max(20.0, left * st.get("weight", 1.0) / wsum)
            m, e = run_stage(prop, st, tier, share, scratch)
            results[st["name"]] = m
            herr = herr or e
        # second pass: stages that were cut by their share are run again with the time the others left unused
        # (the exploration is deterministic, so the second run covers a superset of the first)
        cut = [st for st in stages if not results[st["name"]]["exhaustive"] and not results[st["name"]]["viols"]]
        for i, st in enumerate(cut):
            left = deadline - (time.time() - t0)
            if herr or left < 60:
                break
            wsum = sum(s.get("weight", 1.0) for s in cut[i:])
            m, e = run_stage(prop, st, tier, left * st.get("weight", 1.0) / wsum, scratch)
            herr = herr or e
            if m["exhaustive"] or m["viols"] or m["numeric"].get("evaluations", 0) >= results[st["name"]]["numeric"].get("evaluations", 0):
                results[st["name"]] = m
        return finish(prop, spec, tier, results, herr, time.time() - t0)
    finally:
        shutil.rmtree(scratch, ignore_errors=True)


def do_replay(prop, spec, path, scratch):
    rec = json.load(open(path))
    st = [s for s in spec["stages"] if s["name"] == rec.get("stage")]
    st = st[0] if st else spec["stages"][0]
    exe = vbuild.build_driver(st["driver"], st.get("flavour", "asan"))
    env = dict(os.environ)
    env.update(SAN_ENV)
    rp = rec["replay"]
    cmd = [exe, "--tier", rec.get("tier", "quick")] + list(st.get("args", [])) + ["--replay", rp if isinstance(rp, str) else json.dumps(rp, separators=(",", ":"))]
    r = subprocess.run(cmd, env=env, cwd=scratch, stdout=subprocess.PIPE, stderr=subprocess.PIPE, text=True)
    sys.stdout.write(r.stdout)
    sys.stderr.write(r.stderr[-4000:])
    bad = ("VIOL " in r.stdout) or r.returncode not in (0,)
    if bad:
        print("VIOLATION property=%s replay=%s" % (prop, path))
        return 1
    print("replay: property held on this case")
    return 0


def finish(prop, spec, tier, results, herr, wall):
    known = [k for k in load_known() if k["prop"] == prop]
    # VERIF_OUT: scratch output root for trial runs against seeded changes (never used by registered commands)
    OUT = os.environ.get("VERIF_OUT", VERIF)
    os.makedirs(os.path.join(OUT, "evidence"), exist_ok=True)
    os.makedirs(os.path.join(OUT, "replays"), exist_ok=True)
    numeric, sets, samples, notes, caps = {}, {}, [], [], []
    exhaustive = True
    viols = []
    per_stage = {}
    for name, m in results.items():
        for k, v in m["numeric"].items():
            if k.startswith("max_"):
                numeric[k] = max(numeric.get(k, 0), v)
            else:
                numeric[k] = numeric.get(k, 0) + v
        for k, v in m["sets"].items():
            sets.setdefault(k, set()).update(v)
        samples += m["samples"][:4]
        notes += m["notes"]
        caps += m["caps"]
        exhaustive = exhaustive and m["exhaustive"]
        viols += m["viols"]
        ps = dict(m["numeric"])
        ps.update({"distinct_" + k: len(v) for k, v in m["sets"].items()})
        ps["exhaustive"] = m["exhaustive"]
        ps.update(m["strings"])
        per_stage[name] = ps
    # known-findings filter
    new_v, known_hits = [], {}
    for v in viols:
        hit = None
        for k in known:
            if re.fullmatch(k["sig"], v["sig"]):
                hit = k
                break
        if hit:
            known_hits.setdefault(hit["sig"], [hit, 0])[1] += 1
        else:
            new_v.append(v)
    for sig, (k, n) in known_hits.items():
        print("KNOWN-FINDING: property=%s sig=%s %s (%d occurrences this run)" % (prop, sig, k["what"], n))
    seen_sig = {}
    replay_paths = []
    for v in new_v:
        if v["sig"] in seen_sig:
            continue
        idx = len(seen_sig)
        seen_sig[v["sig"]] = 1
        if idx >= 10:
            continue
        path = os.path.join(OUT, "replays", "%s-%d.json" % (prop, idx))
        json.dump(dict(property=prop, tier=tier, stage=v.get("stage"), sig=v["sig"], detail=v.get("detail", ""),
                       replay=v.get("replay")), open(path, "w"), indent=1)
        replay_paths.append(path)
        print("VIOLATION property=%s replay=%s" % (prop, path))
        print("  sig=%s\n  %s" % (v["sig"], v.get("detail", "")[:1500].replace("\n", "\n  ")))
    level = spec["level"]
    distinct = {k: len(v) for k, v in sets.items()}
    dn_key = spec.get("distinct_key")
    dn = distinct.get(dn_key, 0) if dn_key else (max(distinct.values()) if distinct else 0)
    if not dn_key:
        dn = max(dn, int(numeric.get(spec.get("distinct_numeric", "states"), 0)))
    cov = dict(numeric)
    cov.update({"distinct_" + k: v for k, v in distinct.items()})
    cov["evaluations"] = int(numeric.get("evaluations", 0))
    cov["distinct_nontrivial"] = int(dn)
    cov["rule"] = spec["rule"]
    cov["samples"] = samples[:8] if samples else []
    cov["exhaustive"] = bool(exhaustive and not caps)
    cov["caps_hit"] = caps
    cov["per_stage"] = per_stage
    cov["notes"] = notes[:40]
    cov["known_findings_matched"] = {k: v[1] for k, v in known_hits.items()}
    if level == "model_checking":
        cov["states"] = int(numeric.get("states", distinct.get("states", 0)) or 0)
        cov["transitions"] = int(numeric.get("transitions", 0))
        cov["traces_validated_against_impl"] = int(numeric.get("traces_validated_against_impl", numeric.get("evaluations", 0)))
    ev = dict(property_id=prop, tier=tier, seed=int(os.environ.get("VERIF_SEED", "0")), level=level, coverage=cov,
              assumptions=spec.get("assumptions", []), wall_s=round(wall, 2), violations=len(seen_sig),
              technique=spec.get("technique", ""))
    json.dump(ev, open(os.path.join(OUT, "evidence", prop + ".json"), "w"), indent=1, sort_keys=True)
    if herr:
        print("HARNESS-ERROR:", herr)
        return 2
    print("%s %s: evaluations=%s distinct=%s exhaustive=%s violations=%d known=%d wall=%.1fs" % (
        prop, tier, cov["evaluations"], cov["distinct_nontrivial"], cov["exhaustive"], len(seen_sig), len(known_hits), wall))
    return 1 if seen_sig else 0


if __name__ == "__main__":
    sys.exit(main())
