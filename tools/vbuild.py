#!/usr/bin/env python3
"""Build lcdb (from the CURRENT working tree of $LCDB_SRC, default /repo) and the
harness drivers, per sanitizer flavour, with a content-addressed cache.

lcdb TUs: pinned defines (-DLDB_PTHREAD -D_GNU_SOURCE -DNDEBUG -std=c90) plus
-DLCDB_VERIF (hooks H1-H3) plus the 12 pthread renames (thread seam).
"""
import hashlib, os, shutil, subprocess, sys, time
from concurrent.futures import ThreadPoolExecutor

VERIF = os.path.dirname(os.path.dirname(os.path.abspath(__file__)))
BUILD = os.path.join(VERIF, "build")

LCDB_SOURCES = """
src/util/arena.c src/util/array.c src/util/atomic.c src/util/bloom.c src/util/buffer.c
src/util/cache.c src/util/comparator.c src/util/crc32c.c src/util/env.c src/util/hash.c
src/util/internal.c src/util/logger.c src/util/options.c src/util/port.c src/util/random.c
src/util/rbt.c src/util/slice.c src/util/snappy.c src/util/status.c src/util/strutil.c
src/util/thread_pool.c src/util/vector.c
src/table/block.c src/table/block_builder.c src/table/filter_block.c src/table/format.c
src/table/iterator.c src/table/merger.c src/table/table.c src/table/table_builder.c
src/table/two_level_iterator.c
src/builder.c src/c.c src/db_impl.c src/db_iter.c src/dbformat.c src/dumpfile.c src/filename.c
src/log_reader.c src/log_writer.c src/memtable.c src/repair.c src/skiplist.c src/table_cache.c
src/version_edit.c src/version_set.c src/write_batch.c
""".split()

PTHREAD_RENAMES = {
    "pthread_mutex_init": "vf_mutex_init", "pthread_mutex_destroy": "vf_mutex_destroy",
    "pthread_mutex_lock": "vf_mutex_lock", "pthread_mutex_unlock": "vf_mutex_unlock",
    "pthread_cond_init": "vf_cond_init", "pthread_cond_destroy": "vf_cond_destroy",
    "pthread_cond_signal": "vf_cond_signal", "pthread_cond_broadcast": "vf_cond_broadcast",
    "pthread_cond_wait": "vf_cond_wait", "pthread_create": "vf_create",
    "pthread_detach": "vf_detach", "pthread_join": "vf_join",
}

PINNED = ["-DLDB_PTHREAD", "-D_GNU_SOURCE", "-DNDEBUG", "-std=c90", "-DLCDB_VERIF"]

UB_FATAL = "signed-integer-overflow,shift-exponent,integer-divide-by-zero,bounds,pointer-overflow"

FLAVOURS = {
    # sanitizer reports: ASan errors are fatal; the UBSan kinds of UB_FATAL are fatal,
    # the remaining UBSan kinds only print (notes, never a verdict)
    "asan": dict(cc="gcc", san=["-fsanitize=address,undefined", "-fno-sanitize-recover=" + UB_FATAL,
                                "-fno-omit-frame-pointer"], opt=["-O1", "-g"]),
    "tsan": dict(cc="gcc", san=["-fsanitize=thread", "-fno-omit-frame-pointer"], opt=["-O1", "-g"]),
    "plain": dict(cc="gcc", san=[], opt=["-O2", "-g"]),
}

if os.environ.get("VERIF_COV"):
    # coverage measurement of the checks themselves (tools/coverage.sh); never used by a registered command
    FLAVOURS["cov"] = dict(cc="gcc", san=["--coverage"], opt=["-O0", "-g"])

# harness TUs that must NOT be tsan-instrumented (scheduler/VFS bookkeeping is shared by design)
TSAN_UNINSTRUMENTED = {"sched.c", "vfs.c", "util.c", "drv.c"}


def src_root():
    return os.environ.get("LCDB_SRC", "/repo")


def _hash_tree(h, root, subdirs):
    for sd in subdirs:
        base = os.path.join(root, sd)
        for dp, dn, fn in sorted(os.walk(base)):
            dn.sort()
            for f in sorted(fn):
                if f.endswith((".c", ".h")):
                    p = os.path.join(dp, f)
                    h.update(os.path.relpath(p, root).encode())
                    with open(p, "rb") as fh:
                        h.update(fh.read())


def tree_hash():
    h = hashlib.sha256()
    _hash_tree(h, src_root(), ["src", "include"])
    h.update(repr(sorted(FLAVOURS.items())).encode())
    h.update(repr(PINNED).encode())
    return h.hexdigest()[:20]


def _hfile_hash(path):
    """hash of one harness source + every harness header (objects are named by it)"""
    h = hashlib.sha256()
    hdir = os.path.join(VERIF, "harness")
    for dp, dn, fn in sorted(os.walk(hdir)):
        dn.sort()
        for f in sorted(fn):
            if f.endswith(".h"):
                with open(os.path.join(dp, f), "rb") as fh:
                    h.update(fh.read())
    with open(path, "rb") as fh:
        h.update(fh.read())
    return h.hexdigest()[:12]


def _run(cmd):
    r = subprocess.run(cmd, stdout=subprocess.PIPE, stderr=subprocess.STDOUT, text=True)
    if r.returncode != 0:
        sys.stderr.write("BUILD FAILED: %s\n%s\n" % (" ".join(cmd), r.stdout))
        raise SystemExit(3)
    return r.stdout


def _prune(keep):
    if not os.path.isdir(BUILD):
        return
    ents = []
    for d in os.listdir(BUILD):
        p = os.path.join(BUILD, d)
        if os.path.isdir(p) and d != keep and not d.startswith("."):
            ents.append((os.path.getmtime(p), p))
    ents.sort(reverse=True)
    for _, p in ents[1:]:
        shutil.rmtree(p, ignore_errors=True)


def build_dir():
    d = os.path.join(BUILD, tree_hash())
    os.makedirs(d, exist_ok=True)
    return d


def _compile_many(jobs):
    # jobs: list of (cmd, outfile)
    todo = [j for j in jobs if not os.path.exists(j[1])]
    if not todo:
        return
    def one(j):
        cmd, out = j
        if "--coverage" in cmd:
            _run(cmd + ["-o", out])   # .gcno/.gcda names derive from the output name
            return
        tmp = out + ".tmp%d" % os.getpid()
        _run(cmd + ["-o", tmp])
        os.replace(tmp, out)
    with ThreadPoolExecutor(max_workers=16) as ex:
        list(ex.map(one, todo))


CORE = ["sched.c", "vfs.c", "util.c", "drv.c"]


def _link_list(driver_src):
    """harness TUs a driver links: all of harness/*.c, or (if the driver source has a
    'VH_LINK: a b c' comment) the core plus the listed ones"""
    hdir = os.path.join(VERIF, "harness")
    allc = sorted(f for f in os.listdir(hdir) if f.endswith(".c"))
    if driver_src:
        import re
        m = re.search(r"VH_LINK:([^\n*]*)", open(driver_src).read())
        if m:
            return CORE + [x + ".c" for x in m.group(1).split() if x + ".c" not in CORE]
    return allc


def build_lib(flavour, only=None):
    """compile lcdb + harness common objects for a flavour; returns (dir, [objects])"""
    fl = FLAVOURS[flavour]
    d = os.path.join(build_dir(), flavour)
    os.makedirs(d, exist_ok=True)
    root = src_root()
    ren = ["-D%s=%s" % kv for kv in sorted(PTHREAD_RENAMES.items())]
    inc = ["-I" + os.path.join(root, "include"), "-I" + os.path.join(root, "src")]
    jobs, objs = [], []
    for s in LCDB_SOURCES:
        o = os.path.join(d, "l_" + s.replace("/", "_")[:-2] + ".o")
        objs.append(o)
        jobs.append(([fl["cc"], "-c", os.path.join(root, s)] + PINNED + ren + fl["opt"] + fl["san"] + inc + ["-w"], o))
    hdir = os.path.join(VERIF, "harness")
    for s in (only if only is not None else _link_list(None)):
        o = os.path.join(d, "h_" + s[:-2] + "_" + _hfile_hash(os.path.join(hdir, s)) + ".o")
        objs.append(o)
        san = fl["san"]
        extra = []
        if flavour == "tsan":
            extra = ["-DVH_TSAN"]
            if s in TSAN_UNINSTRUMENTED:
                san = ["-fno-omit-frame-pointer", "-fno-builtin", "-fno-tree-loop-distribute-patterns"]
        jobs.append(([fl["cc"], "-c", os.path.join(hdir, s), "-std=gnu11", "-D_GNU_SOURCE", "-Wall", "-Wno-unused-function"]
                     + fl["opt"] + san + extra + inc + ["-I" + hdir], o))
    _compile_many(jobs)
    return d, objs


def build_driver(name, flavour):
    """returns path of the executable for harness/drivers/<name>.c"""
    fl = FLAVOURS[flavour]
    root = src_root()
    hdir = os.path.join(VERIF, "harness")
    src = os.path.join(hdir, "drivers", name + ".c")
    d, objs = build_lib(flavour, _link_list(src))
    hh = hashlib.sha256((_hfile_hash(src) + " ".join(sorted(objs))).encode()).hexdigest()[:12]
    exe = os.path.join(d, "drv_" + name + "_" + hh)
    if os.path.exists(exe):
        return exe
    inc = ["-I" + os.path.join(root, "include"), "-I" + os.path.join(root, "src"), "-I" + hdir]
    extra = ["-DVH_TSAN"] if flavour == "tsan" else []
    o = os.path.join(d, "d_" + name + "_" + hh + ".o")
    _compile_many([([fl["cc"], "-c", src, "-std=gnu11", "-D_GNU_SOURCE", "-Wall", "-Wno-unused-function"]
                    + fl["opt"] + fl["san"] + extra + inc, o)])
    tmp = exe + ".tmp%d" % os.getpid()
    _run([fl["cc"], "-o", tmp, o] + objs + fl["san"] + ["-lm", "-lpthread"])
    os.replace(tmp, exe)
    _prune(os.path.basename(build_dir()))
    return exe


if __name__ == "__main__":
    t0 = time.time()
    if len(sys.argv) == 3 and sys.argv[1] not in FLAVOURS:
        print(build_driver(sys.argv[1], sys.argv[2]))
    else:
        for f in (sys.argv[1:] or ["asan"]):
            print(build_lib(f)[0])
    sys.stderr.write("build %.1fs\n" % (time.time() - t0))
