#!/bin/sh
# tools/run_all.sh <tier> [ids...] : run the checks one after the other, one summary line each
tier="${1:-quick}"; shift
ids="${*:-C01 C02 C03 C04 C05 C06 C07 C08 C09 C10 C11 C12 C13 C14 C15 C16 C17 C18 C19 C20}"
cd "$(dirname "$0")/.."
for p in $ids; do
  t0=$(date +%s)
  ./check $p --tier $tier > /tmp/run_all_$p.out 2>&1; rc=$?
  echo "$p rc=$rc $(( $(date +%s) - t0 ))s $(grep -E "^C[0-9]+ $tier" /tmp/run_all_$p.out | tail -1) $(grep -c '^VIOLATION' /tmp/run_all_$p.out) viol $(grep -c HARNESS /tmp/run_all_$p.out) herr"
done
