#!/usr/bin/env python3
"""Regenerate /verif/MANIFEST.json from tools/props.py (claimed checks) and the
NOT_APPLICABLE table below (properties without a registered check yet)."""
import json, os, sys
VERIF = os.path.dirname(os.path.dirname(os.path.abspath(__file__)))
sys.path.insert(0, os.path.join(VERIF, "tools"))
import props

ALL = ["C%02d" % i for i in range(1, 21)]
LEVEL_TEXT = getattr(props, "LEVEL_TEXT", {})

def main():
    checks = []
    for pid in ALL:
        sp = props.PROPS.get(pid)
        if not sp:
            continue
        checks.append(dict(
            property_id=pid,
            quick_cmd="./check %s --tier quick" % pid,
            thorough_cmd="./check %s --tier thorough" % pid,
            evidence_file="/verif/evidence/%s.json" % pid,
            replay_cmd_template="./check %s --replay {path}" % pid,
            engine=",".join(sorted(set(s["driver"] for s in sp["stages"]))),
            level_claimed=dict(category=sp["level"], text=sp.get("level_text", sp["rule"]), design_ref=sp.get("design_ref", "DESIGN.md section 4 (%s)" % pid)),
            level_note="; ".join(sp.get("assumptions", []))[:1800],
            technique=sp["technique"],
        ))
    na = [dict(property_id=p, reason=props.NOT_APPLICABLE.get(p, "no check registered yet (work in progress)"))
          for p in ALL if p not in props.PROPS]
    m = dict(
        version=1,
        setup_cmd="python3 tools/setup.py",
        hooks=dict(guard="LCDB_VERIF", enable="tools/vbuild.py compiles /repo/src/*.c with -DLCDB_VERIF plus the 12 -Dpthread_*=vf_* renames (no cmake)",
                   baseline_off_cmd="cmake -G Ninja -B /repo/_build -S /repo && cmake --build /repo/_build && ctest --test-dir /repo/_build -j8 --timeout 900",
                   source_commits=props.HOOK_COMMITS, add_only=True),
        engines=[dict(name=n, path="harness/drivers/%s.c" % n, serves_properties=sorted(p for p, sp in props.PROPS.items() if any(s["driver"] == n for s in sp["stages"])),
                      kind_free_text=props.ENGINES.get(n, "")) for n in sorted(set(s["driver"] for sp in props.PROPS.values() for s in sp["stages"]))],
        checks=checks,
        notes="All checks run the real lcdb code (built from /repo's working tree by tools/vbuild.py) behind two seams: a fiber scheduler replacing pthreads and an in-memory VFS replacing libc I/O. See DESIGN.md.",
        not_applicable=na,
    )
    json.dump(m, open(os.path.join(VERIF, "MANIFEST.json"), "w"), indent=1)
    print("MANIFEST.json: %d checks, %d not_applicable" % (len(checks), len(na)))

if __name__ == "__main__":
    main()
