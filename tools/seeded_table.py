#!/usr/bin/env python3
"""Regenerate the seeded-change table of DESIGN.md (between the SEEDED-TABLE markers) from seeded/*/meta.json."""
import json, glob, os, re
rows = []
for m in sorted(glob.glob("/verif/seeded/*/meta.json")):
    d = json.load(open(m))
    caught = d["caught_by"]
    first = "caught as written" if "caught as written" in caught else ("**missed at first**" if "MISSED" in caught else "caught")
    rows.append("| %s | %s | %s | %s |" % (d["id"], d["needs_to_manifest"].replace("|", "/"), caught.replace("|", "/"), first))
table = "| seeded change (seeded/<id>/) | needs to manifest | caught by | first attempt |\n|---|---|---|---|\n" + "\n".join(rows) + "\n"
p = "/verif/DESIGN.md"
s = open(p).read()
a = s.index("<!-- SEEDED-TABLE-BEGIN -->") + len("<!-- SEEDED-TABLE-BEGIN -->\n")
b = s.index("<!-- SEEDED-TABLE-END -->")
open(p, "w").write(s[:a] + table + s[b:])
print("%d seeded changes" % len(rows))
