"""Per-property check specifications (stages = driver runs whose records are merged).

A stage: name, driver (harness/drivers/<driver>.c), flavour (asan|tsan|plain), args (always),
quick / thorough (extra args per tier), tiers (default both), weight (share of the deadline).
"""

# prepared non-initial layouts (B1 sizes): files in level 2, 1, 0, 0 / tombstone above a deeper value /
# one user key with several versions pinned by a snapshot and pushed through a compaction
L_DEEP = "P0.1 F P0.1 F P1.1 F P0.1 F"
L_TOMB = "P1.1 F D1 F P2.2"
L_SNAP = "P1.2 S P1.2 P1.2 F P1.2 F"
L_BIG = "P0.2 P1.2 P2.2 P0.2 P1.2 P2.2 F P0.2 P1.2 P2.2 F"
# two overlapping level-0 tables sharing a key (recovery writes its table to level 0), nothing below
L_OVL = "P0.1 P1.1 O P1.1 P3.1 O"
L_OVL2 = "P1.1 P2.1 O P0.1 P1.1 O"
# three level-0 tables forming an overlap chain A-C-F (A and F do not overlap directly), both age orders
L_OVL3 = "P0.1 P1.1 O P1.1 P2.1 O P2.1 P3.1 O"
L_OVL3b = "P2.1 P3.1 O P1.1 P2.1 O P0.1 P1.1 O"
# a table pushed down to the bottom level (6) by manual compactions level by level, newer data above it
L_BOTTOM = "P0.1 P1.1 F R0:-:- R1:-:- R2:-:- R3:-:- R4:-:- R5:-:- P1.1 F"
# two held iterators pinning two different old versions that share a table
L_TWOIT = "P0.1 F I P1.1 F I"
# two staggered overlapping level-0 tables above a level-1 table that lies only under the tail of the second one
L_STAG = "P2.1 O R0:-:- P0.1 P1.1 O P1.1 P3.1 O"
L_STAGb = "P0.1 O R0:-:- P1.1 P3.1 O P0.1 P1.1 O"
# tables renamed to the legacy LevelDB name NNNNNN.sst while the database is closed (op X)
L_SST = "P0.1 F P1.1 F X"
# one table on each of levels 2, 1, 0 around key #1 ("a" lives in level 2 only; the level-1 and level-0 tables span it without
# holding it): a lookup of key #1 probes three tables, and 100 of them exhaust the seek allowance of the level-0 table
L_3LVL = "P1.1 F P0.1 P2.1 F P0.1 P3.1 F"
# seek-triggered compactions (alphabet "seek": one hundred lookups of EACH key as an operation) on layered layouts
SEEK_Q = ["B1~seek@0/2^" + L_3LVL, "B1~seek@0/1^" + L_DEEP, "B1~seek@0/1^" + L_BOTTOM]
SEEK_T = ["B1~seek@0/3^" + L_3LVL, "B1~seek@0/2^" + L_DEEP, "B1~seek@0/2^" + L_BOTTOM, "B1~seek@0/2^" + L_BIG, "B1,cmp=1~seek@0/2^" + L_3LVL, "B1~seek@3/2"]
OVL_Q = ["B1~rwr@0/2^" + L_OVL, "B1~rwr@0/2^" + L_OVL2, "B1~rwr@0/1^" + L_OVL3, "B1~rwr@0/1^" + L_OVL3b, "B1~rwr@0/1^" + L_STAG, "B1~rwr@0/1^" + L_STAGb]
OVL_T = ["B1~rwr@0/3^" + L_OVL, "B1~rwr@0/3^" + L_OVL2, "B1~rwr@0/2^" + L_OVL3, "B1~rwr@0/2^" + L_OVL3b, "B1~rwr@0/2^" + L_STAG, "B1~rwr@0/2^" + L_STAGb]
# 6 keys; files g=[b..e] in level 2, x1=[a..k] in level 1, F=[c..k] in level 0, a snapshot pins the older version of k;
# with 2200-byte tables a level-0 compaction cuts its outputs as [a..c] [d..k@new] [k@old]: one user key split over two files
L_SPLIT = "P1.1 P4.1 F P0.2 P5.2 F S P2.2 P3.2 P5.2 F"
SPLIT_CFG = "B1,maxfile=2200,uni=3~rwr"
# a MANIFEST that grows past one 32 KiB log block (300-byte keys, ~100 edits), with and without reuse after a reopen
L_LONGMAN = "P1.1 F O 50*(P1.1 F) O"
LONGMAN_ITEMS = ["B1,reuse=1,uni=2@1^" + L_LONGMAN, "B1,uni=2@1^" + L_LONGMAN]

# case-insensitive custom comparator over a universe with spellings it identifies ("a"/"A", "B"/"b")
NOCASE = "B1,cmp=2,uni=5"
# value under one spelling, tombstone / overwrite under another spelling, in different tables
NOCASE_ITEMS = [NOCASE + "@0/2", NOCASE + "@2^P0.1 F D1 F", NOCASE + "@2^P3.1 F P4.2 F D3"]

TOGGLES = ["snappy=1", "bloom=1", "mmap=0", "reuse=1", "cache=1", "cache=2", "cmp=1", "paranoid=1"]


def plan(items):
    return ";".join(items)


def c01_plan(tier):
    if tier == "quick":
        it = ["B1@0/4"] + ["B1,%s@0/2" % t for t in TOGGLES] + ["B2@0/2"]
        it += ["B1@2^" + L_DEEP, "B1,bloom=1,cache=1,mmap=0,snappy=1@2^" + L_DEEP, "B1@2^" + L_TOMB]
        it += OVL_Q + ["B1~rwr@0/1^" + L_DEEP, "B1,mof=11@0/2^" + L_DEEP, "B2,reuse=1@2^P1.5 O", "B1@0/2^" + L_BOTTOM, "B1@0/2^" + L_SST] + NOCASE_ITEMS + LONGMAN_ITEMS + [SPLIT_CFG + "@0/2^" + L_SPLIT] + SEEK_Q
    else:
        it = ["B1@0/5"] + ["B1,%s@4/3" % t for t in TOGGLES] + ["B2@3/3", "B2,snappy=1,bloom=1@3/2"]
        # full cross product of the boolean toggles at depth 2 (no dedup)
        for m in range(1, 64):
            t = []
            for b, nm in enumerate(["snappy=1", "bloom=1", "mmap=0", "reuse=1", "cache=1", "paranoid=1"]):
                if m & (1 << b):
                    t.append(nm)
            if len(t) >= 2:
                it.append("B1,%s@0/2" % ",".join(t))
        it += [NOCASE + "@4/3", NOCASE + "@2^P0.1 F P1.1 F P3.1 F P4.1 F", NOCASE + "@3^P0.1 F D1 F", NOCASE + "@3^P3.1 F P4.2 F D3"] + LONGMAN_ITEMS + ["B1,reuse=1,uni=2@2^" + L_LONGMAN]
        it += [SPLIT_CFG + "@0/3^" + L_SPLIT, SPLIT_CFG + "@0/2^" + L_SPLIT + " R0:5:5"]
        it += OVL_T + SEEK_T + ["B1@3^" + L_BOTTOM, "B1~rwr@0/2^" + L_BOTTOM, "B2,reuse=1@3^P1.5 O", "B2,reuse=1@2^P0.5 O", "B2,reuse=1@2^P2.5 O", "B2,reuse=1@2^P1.5 O P0.1 O", "B1,mof=11@3^" + L_DEEP, "B1,mof=11,mmap=0@3^" + L_BIG, "B1~rwr@0/2^" + L_DEEP, "B1,cmp=1~rwr@0/2^" + L_OVL, "B1~rwr@3/2"]
        for L in (L_DEEP, L_TOMB, L_SNAP, L_BIG):
            it += ["B1@3^" + L, "B1,bloom=1,cache=1,mmap=0,snappy=1@3^" + L, "B1,cmp=1@2^" + L]
    return plan(it)


def c06_plan(tier):
    if tier == "quick":
        return plan(["B1@4/3", "B1,snappy=1,bloom=1@0/2", "B1@2^" + L_SNAP, "B1@2^S " + L_DEEP, NOCASE + "@0/2",
                     "B1@2^S P0.1 F S P0.1 F", "B1@2^S P0.1 P1.1 S D0 P1.2 F", "B1@2^" + L_BOTTOM + " S"])
    return plan(["B1@3^" + L_BOTTOM + " S", "B1@5/4", "B1,snappy=1,bloom=1@4/3", "B1,cmp=1@3/3", "B2@3/2", NOCASE + "@3/3", "B1@3^" + L_SNAP, "B1@3^S " + L_DEEP,
                 "B1@3^P0.1 S D0 S P0.2 F", "B1,cache=1,mmap=0@3^" + L_SNAP,
                 "B1@3^S P0.1 F S P0.1 F", "B1@3^S P0.1 P1.1 S D0 P1.2 F"])


def c07_plan(tier):
    if tier == "quick":
        return plan(["B1@3/2", "B2@0/2", "B1,cmp=1@0/2", NOCASE + "@0/2", "B1@2^" + L_DEEP, "B1@2^" + L_TOMB, "B1,mof=11@1^" + L_DEEP, "B1@1^" + L_BOTTOM, "B1@1^" + L_SST])
    return plan(["B1@4/3", "B1,cmp=1@3/3", NOCASE + "@3/3", NOCASE + "@2^P0.1 F P1.1 F P3.1 P4.1", "B1,snappy=1,bloom=1,mmap=0@3/2", "B2@2/2", "B1@3^" + L_DEEP, "B1@3^" + L_TOMB,
                 "B1@3^I " + L_DEEP, "B1,cmp=1@2^" + L_DEEP, "B1@2^" + L_SNAP, "B1,mof=11@2^I " + L_DEEP, "B1@2^" + L_BOTTOM, "B1,cmp=1@2^" + L_BOTTOM])


def c13_plan(tier):
    if tier == "quick":
        return plan(["B1@4/3", "B1,reuse=1@0/2", "B1@2^I " + L_DEEP, "B1@2^" + L_BIG, "B1,mof=11@1^I " + L_DEEP, "B1@1^I " + L_BOTTOM, "B1@2^" + L_TWOIT, "B1,mof=11@1^" + L_TWOIT, "B1@2^" + L_SST])
    return plan(["B1@3^" + L_TWOIT, "B1@2^P0.1 F P0.1 F I P1.1 F I", "B1,mof=11@2^" + L_TWOIT, "B1@5/4", "B1,reuse=1@4/3", "B1,snappy=1,mmap=0@3/3", "B2@3/2", "B1@3^I " + L_DEEP, "B1@3^" + L_BIG,
                 "B1@3^I " + L_SNAP, "B1,reuse=1@3^" + L_DEEP])


E2_ASSUME = [
    "single process, lcdb threads run as fibers under a deterministic scheduler (background work drained after every operation unless an operation says otherwise); libc I/O served by the in-memory VFS of harness/vfs.c",
    "key universe of 3-4 colliding keys ('', 'a', 'ab', 'b' plus two never-written probes); values identify the write that produced them; sizes empty/10 B/1.1 KiB (B1) and 70 KiB/1.2 MiB (B2)",
    "B1 = stress sizes below the option clips (write_buffer 4200, max_file 2500, block 256, level-1 budget 6000 via hooks H1/H2); B2 = in-range sizes",
    "state count sums per-shard distinct states (cross-shard duplicates possible); exhaustive refers to all operation sequences up to max_depth_nodedup per plan item and to the dedup BFS up to max_depth_dedup",
]

PROPS = {
    "C01": dict(
        level="model_checking",
        technique="explicit-state BFS over operation histories on the real code (replayed on a fresh in-memory FS), reference-model oracle after every operation",
        rule="every operation sequence over the alphabet up to the no-dedup depth, plus BFS with state dedup to a larger depth, per configuration/prefix plan item; a case is one history; distinct = distinct durable-state keys (hash of all DB files + model)",
        distinct_key=None,
        assumptions=E2_ASSUME,
        stages=[dict(name="hist", driver="hist", flavour="asan", args=["--alphabet", "rw", "--oracle", "get"],
                     quick=["--plan", c01_plan("quick")], thorough=["--plan", c01_plan("thorough")]),
                # fd limiter squeezed to one descriptor (RLIMIT_NOFILE answer 5, no mmap): tables beyond the first are
                # opened and closed per read; the limiter is set once per process, hence a stage of its own
                dict(name="hist-fdlimit", driver="hist", flavour="asan", args=["--alphabet", "rw", "--oracle", "get,iter", "--rlimit", "5"], weight=0.3,
                     quick=["--plan", plan(["B1,mmap=0@0/2^" + L_DEEP, "B1,mmap=0,cache=1@0/2^" + L_BIG, "B1,mmap=0@3/2"])],
                     thorough=["--plan", plan(["B1,mmap=0@3^" + L_DEEP, "B1,mmap=0,cache=1@3^" + L_BIG, "B1,mmap=0@4/3", "B1,mmap=0,snappy=1,bloom=1@3/2"])])],
    ),
    "C06": dict(
        level="model_checking",
        technique="explicit-state BFS over histories with up to 3 live snapshots; every live snapshot re-read (gets + both scans) against its frozen model copy after every operation",
        rule="as C01 with snapshot/release operations added; oracle: gets and forward/backward scans through every live snapshot equal the model copy frozen when it was taken",
        assumptions=E2_ASSUME,
        stages=[dict(name="hist", driver="hist", flavour="asan", args=["--alphabet", "snap", "--oracle", "get,snap"],
                     quick=["--plan", c06_plan("quick")], thorough=["--plan", c06_plan("thorough")])],
    ),
    "C07": dict(
        level="model_checking", deadline_thorough=1200,
        technique="explicit-state BFS over histories x exhaustive enumeration of cursor call sequences compared with a sorted-map reference cursor",
        rule="for every reached state: forward+backward scans, held iterators re-walked, all single cursor calls; for every new layout signature all call sequences up to cursor-len (3; thorough stage hist-len4: 4 on four prepared multi-level layouts) over {first,last,seek,seek_ge,seek_gt,seek_le,seek_lt x 9 targets,next,prev}",
        assumptions=E2_ASSUME + ["full-length cursor walks run on the first cursor-cap distinct layout signatures per plan item, single calls everywhere"],
        stages=[dict(name="hist", driver="hist", flavour="asan", args=["--alphabet", "iter", "--oracle", "iter,cursor"],
                     quick=["--plan", c07_plan("quick"), "--cursor-len", "3", "--cursor-cap", "6"],
                     thorough=["--plan", c07_plan("thorough"), "--cursor-len", "3", "--cursor-cap", "8"]),
                dict(name="hist-len4", driver="hist", flavour="asan", args=["--alphabet", "iter", "--oracle", "iter,cursor"], tiers=["thorough"],
                     thorough=["--plan", plan(["B1@1^" + L_DEEP, "B1@1^" + L_TOMB + " F", NOCASE + "@1^P0.1 F P1.1 F P3.1 P4.1", "B1,cmp=1@1^" + L_DEEP]),
                               "--cursor-len", "4", "--cursor-cap", "1"])],
    ),
    "C13": dict(
        level="model_checking",
        technique="explicit-state BFS over histories with long-lived iterators/snapshots; directory contents and pinned files checked against the live set after every operation",
        rule="as C01 with iterator/snapshot operations; oracle: every table of the current version and of every held iterator's version exists; after flush/compact/reopen with no iterator held the directory holds exactly CURRENT, LOCK, the live MANIFEST, one log and the live tables; no file name is created twice",
        assumptions=E2_ASSUME,
        stages=[dict(name="hist", driver="hist", flavour="asan", args=["--alphabet", "files", "--oracle", "files"],
                     quick=["--plan", c13_plan("quick")], thorough=["--plan", c13_plan("thorough")])],
    ),
}

HOOK_COMMITS = ["ddbbc06", "b854525", "bc60683", "3ff15b6"]

ENGINES = {
    "hist": "E2: explicit-state BFS over operation histories on the real code, reference-model oracles",
}

NOT_APPLICABLE = {}

E3_ASSUME = [
    "crash model of C02 taken literally: every file keeps a prefix of its written bytes at least as long as at its last fsync; directory operations persist in issue order at least up to the last fsync of any file or directory; O_TRUNC of an existing name is ordered with the directory operations; no reordering inside a file, no garbage blocks",
    "histories are sequential (one foreground writer); background flush/compaction run on lcdb's own thread as a fiber, drained after every operation (starve variants: explicit drain operations)",
    "every write batch additionally puts a unique marker key, so the surviving batch set U is read off the recovered database; contents must equal the fold of exactly U in issue order",
    "3 user keys, values 10 B / 1.1 KiB, stress sizes B1 (write buffer 4200 B, file size 2500 B) so that log rotation, flushes and compactions happen within short histories",
]


def e3_stage(prop, quick_len, thorough_len, cfgs_q, cfgs_t, nested_q=1, nested_t=1, classes=0x7f):
    return dict(name="crash", driver="crash", flavour="asan", args=["--prop", prop, "--classes", str(classes)],
                quick=["--cfgs", cfgs_q, "--len", str(quick_len), "--nested", str(nested_q), "--scripted", "1"],
                thorough=["--cfgs", cfgs_t, "--len", str(thorough_len), "--nested", str(nested_t), "--scripted", "2"])


CFG_Q = "B1;B1,reuse=1"
CFG_T = "B1;B1,reuse=1"

E3_RULE = ("every history up to the given length over {put-sync, put, put-1KiB, batch-sync(3 updates), del-sync, flush, reopen} plus scripted longer histories "
           "(log rotation, flush, compaction, reopen chains; thorough: a 700-update batch spanning 4 log blocks) x EVERY journal index (system-call boundary) as crash point x image classes "
           "{min, max, dir-ahead, data-ahead, every intermediate directory prefix x {synced,written}, every cut inside the last write (all cuts if <=256 B)} (per check: the classes its property quantifies over); "
           "real ldb_open on each distinct image with paranoid_checks 0 and 1, second open, follow-up write + third open, and crash points inside the recovery itself; "
           "distinct = distinct (recovered contents, surviving set, open status) outcomes")

for _p, _tech, _ql, _tl, _cls, _cq in [
    ("C02", "crash-point x crash-image enumeration of recorded I/O journals of the real write path; recovery by the real ldb_open; oracle: sync-acknowledged and log-deleted batches survive", 2, 3, 0x7f, CFG_Q),
    ("C03", "kill-point enumeration (image = everything written) over recorded journals incl. nested kill points inside recovery; oracle: every acknowledged batch present, at most the in-flight one extra, order preserved", 3, 4, 0x02, CFG_Q + ";B1,snappy=1"),
    ("C05", "crash-point x crash-image enumeration; oracle: open succeeds, contents = fold of a per-log-segment prefix set, second open identical, follow-up write wins and persists, nested crash loses nothing", 2, 3, 0x7f, CFG_Q),
]:
    PROPS[_p] = dict(level="fault_enumeration", technique=_tech, rule=E3_RULE, distinct_key="outcomes", assumptions=E3_ASSUME,
                     stages=[e3_stage(_p, _ql, _tl, _cq, CFG_T, classes=_cls)])

ENGINES["crash"] = "E3: crash-point x crash-image enumerator over the journal of the in-memory VFS; recovery by the real ldb_open"

E5_ASSUME = [
    "single-threaded calls into lcdb's real encoder/decoder entry points (no scheduler); files, where needed, on the in-memory VFS",
    "reference codecs (harness/ref_codecs.c, harness/rm_manifest.c) were written from the public LevelDB format descriptions and include no lcdb header",
    "asan flavour: AddressSanitizer errors and the UBSan kinds signed-integer-overflow, shift-exponent, integer-divide-by-zero, bounds, pointer-overflow are fatal and attributed to the announced case",
]

PROPS["C15"] = dict(
    level="exploration",
    technique="exhaustive enumeration of declared record-length/offset boxes, every truncation offset and every byte x alteration, real log writer/reader vs an independent LevelDB log codec and a bitwise CRC-32C",
    rule="nested loops over: CRC lengths 0..4096 x alignments 0..15 x 3 fills (before and after crc32c_init); single records of every length 0..98320 at 33 start offsets; every start offset 0..32767 for 6 lengths; all sequences of <=4 records over 20 boundary lengths; every cut offset of 12 files; every byte offset x 6 alterations (quick: boundary subsets, listed in the run's NOTE); distinct = distinct (records returned, drops reported) read outcomes",
    distinct_key="read_outcomes", assumptions=E5_ASSUME,
    stages=[dict(name="log", driver="c15_log", flavour="asan")],
)
PROPS["C16"] = dict(
    level="exploration",
    technique="exhaustive enumeration of entry sets x option grid through the real table builder/reader, compared with an independent SSTable reader; separator/successor contract and Snappy round trips over complete short-string universes",
    rule="all 1023 non-empty sorted subsets of a 10-internal-key universe x 2 value patterns x 576 configurations (block size, restart interval, compression, filter bits, comparator, mmap, cache) (quick: a boundary subset); per table iteration both ways, 42 seek/lookup targets, filter probes, reference decode of the bytes; all ordered pairs of strings <=3 over {00,01,61,FE,FF} for the separator contract; Snappy strings <=20 over {a,b}, <=12 over {a,b,c}, periodic patterns up to 70000 bytes; distinct = distinct table layouts (blocks, filter, compression)",
    distinct_key="table_layouts", assumptions=E5_ASSUME,
    stages=[dict(name="table", driver="c16_table", flavour="asan")],
)
PROPS["C17"] = dict(
    level="exploration", deadline_quick=600, deadline_thorough=1500,
    technique="exhaustive enumeration of a version-edit field grid and of all 2^32 varint32 values through the real encoder/decoder vs an independent MANIFEST codec; plus crash-point x crash-image enumeration of MANIFEST/CURRENT switches recovered by the real ldb_open",
    rule="edit grid: 32 scalar-field masks x 25 boundary values x comparator shapes; 7 levels x 8 key shapes x file counts {0,1,3,2000} x compact pointers; level >= 7 rejection; every proper prefix of encoded edits; all byte strings <=2 (quick) / <=3 (thorough) differentially; varint32: all values < 2^21 plus windows around 2^7k (quick), all 2^32 (thorough); crash stage: every journal index of histories with reopen (new MANIFEST + CURRENT switch, reuse_logs appends) x image classes; replay stage: histories incl. a MANIFEST grown past one 32 KiB block (about 100 edits with 300-byte keys) with and without reuse across reopens: the reported layout equals the fold of the MANIFEST decoded independently, reopen reproduces it, reads stay right; distinct = distinct encoded-edit length classes",
    distinct_key="edit_len_class", assumptions=E5_ASSUME + E3_ASSUME,
    stages=[e3_stage("C17", 2, 3, "B1;B1,reuse=1", CFG_T, classes=0x7f),
            dict(name="replay", driver="hist", flavour="asan", args=["--alphabet", "rw", "--oracle", "get,layout"],
                 quick=["--plan", plan(LONGMAN_ITEMS + ["B1,reuse=1@2^P0.1 F O P1.1 F O", "B1,reuse=1@3/2"])],
                 thorough=["--plan", plan(LONGMAN_ITEMS + ["B1,reuse=1,uni=2@2^" + L_LONGMAN, "B1,reuse=1@3^P0.1 F O P1.1 F O", "B1,reuse=1@4/3", "B1,reuse=1,snappy=1,bloom=1@3/2"])]),
            dict(name="edit", driver="c17_edit", flavour="asan")],
)
PROPS["C18"] = dict(
    level="exploration",
    technique="exhaustive enumeration of all short byte strings and of single/double boundary-value substitutions, truncations and splices of valid seeds through 15 real decoder entry points under ASan+UBSan with step caps",
    rule="per entry point (block iterator x2, footer x2, handle, filter, snappy, edit, batch x2, log reader x3, parsed key, file name): all byte strings of length <=2 (quick) / <=3 (thorough), all strings <=6 over {00,01,07,7F,80,FF}, 65 valid seeds x every offset x 10 boundary values, every truncation, double substitutions, splices (thorough); oracle: returns, no sanitizer report, step cap not exceeded; distinct = distinct decoder outcomes per entry point",
    assumptions=E5_ASSUME + ["whole-database operations on mutated directories are covered by C11's stage, not here"],
    stages=[dict(name="decoders", driver="c18_decoders", flavour="asan")],
)
ENGINES.update({
    "c15_log": "E5: exhaustive log-format input enumeration vs independent codec",
    "c16_table": "E5: exhaustive table/snappy/separator input enumeration vs independent reader",
    "c17_edit": "E5: exhaustive version-edit/varint enumeration vs independent MANIFEST codec",
    "c18_decoders": "E5: exhaustive short-input and seed-mutation enumeration of decoder entry points under sanitizers",
    "mc": "E1: stateless schedule exploration with deviation bounding on the fiber scheduler; linearizability / deadlock / race oracles",
})

E1_ASSUME = [
    "lcdb's threads (foreground bodies and its own background thread) run as fibers; a switch happens only at a scheduling point: before every mutex acquisition, at every blocking wait/exit/join, after thread creation, at the hooked unlocked flag loads of the compaction loop (H3), before every lock-free publication of a memtable entry (H4: release store of a skip-list link), at sleeps, and (io=1) before every journalled system call",
    "executions are sequentially consistent; condition variables wake only on signal/broadcast (the adversary that exposes a lost wake-up); with spurious=1 a single spurious wake-up is an additional deviation",
    "coverage statement: ALL schedules that differ from either of two deterministic base schedulers (lowest-id-first, background-thread-first) by at most `bound` deviations (preemptions or non-default hand-overs), for each listed closed scenario of 2-4 foreground threads with 1-4 operations each on 2 colliding keys",
    "states = executions (each a distinct complete schedule of the implementation), transitions = scheduling points executed",
]

MC_ALL = "D1,D1f,D2,D2b,D3,D4,D4b,D5,D6,D7,D8,D9,D10,D11,D14,D15,D16,D17"

PROPS["C08"] = dict(
    level="model_checking",
    technique="stateless schedule exploration of the real code under a controlled fiber scheduler with iterative deviation (preemption) bounding; brute-force linearizability check of every execution against a sorted-map model",
    rule="for each scenario every schedule within the deviation bound is executed on a fresh copy of the scenario's initial image; oracle: a total order of the <=12 recorded operations exists that respects real time and explains every get, snapshot read, iterator scan and the final state; distinct = distinct result vectors",
    distinct_key="outcomes", assumptions=E1_ASSUME,
    stages=[dict(name="mc", driver="mc", flavour="asan", args=["--prop", "C08"],
                 quick=["--scenarios", "D1,D1f,D2,D2b,D2c,D3,D4,D4b,D16,D17,D18,D19,D5,D6,D10,D11", "--bound", "2"],
                 thorough=["--scenarios", "D1,D1f,D2,D2b,D2c,D4,D4b,D4c,D16,D17,D18,D19,D5,D6,D10,D11,D3", "--bound", "3"]),
            dict(name="mc-io", driver="mc", flavour="asan", args=["--prop", "C08", "--io", "1"], tiers=["thorough"],
                 thorough=["--scenarios", "D1,D1f,D2,D4,D11", "--bound", "2"])],
)
PROPS["C09"] = dict(
    level="model_checking",
    technique="stateless schedule exploration with deviation bounding; oracle: the scheduler never reaches 'unfinished threads, none enabled' (deadlock / lost wake-up) and no execution exceeds the step limit, incl. close racing background work and a spurious-wake-up deviation",
    rule="as C08 over all scenarios incl. stalled writers (D6), close racing compaction (D8), concurrent manual compactions (D9); every API call must return in every explored schedule; distinct = distinct result vectors",
    distinct_key="outcomes", assumptions=E1_ASSUME,
    stages=[dict(name="mc", driver="mc", flavour="asan", args=["--prop", "C09"],
                 quick=["--scenarios", MC_ALL, "--bound", "2"], thorough=["--scenarios", MC_ALL, "--bound", "2"]),
            dict(name="mc-b3", driver="mc", flavour="asan", args=["--prop", "C09"], tiers=["thorough"], weight=2.0,
                 thorough=["--scenarios", "D1,D1f,D2,D4b,D6,D8,D9,D16", "--bound", "3"]),
            dict(name="mc-spurious", driver="mc", flavour="asan", args=["--prop", "C09", "--spurious", "1"],
                 quick=["--scenarios", "D1f,D6,D8,D9", "--bound", "1"], thorough=["--scenarios", "D1f,D6,D7,D8,D9,D14,D2", "--bound", "2"])],
)
PROPS["C10"] = dict(
    level="model_checking", deadline_quick=600,
    technique="stateless schedule exploration with deviation bounding under ThreadSanitizer (fiber API, no synchronisation implied by a switch; modelled mutexes announced as acquire/release) and under AddressSanitizer: a happens-before race oracle evaluated on every explored interleaving",
    rule="as C09; oracle: zero ThreadSanitizer reports (halt on first) and zero AddressSanitizer reports in every explored schedule of every scenario; distinct = distinct result vectors",
    distinct_key="outcomes",
    assumptions=E1_ASSUME + ["TSan keeps a bounded per-location access history: a race whose two accesses are separated by very many accesses to the same cell can be missed within one execution", "the harness' own bookkeeping (scheduler, VFS) is excluded from race detection by construction (uninstrumented TUs + ignore scopes)"],
    stages=[dict(name="mc-tsan", driver="mc", flavour="tsan", args=["--prop", "C10"],
                 quick=["--scenarios", MC_ALL, "--bound", "1"], thorough=["--scenarios", "D1,D2,D3,D8,D10,D11,D15,D16", "--bound", "2"]),
            dict(name="mc-tsan2", driver="mc", flavour="tsan", args=["--prop", "C10"], tiers=["quick"],
                 quick=["--scenarios", "D15,D10,D11", "--bound", "2"]),
            dict(name="mc-asan", driver="mc", flavour="asan", args=["--prop", "C10"],
                 quick=["--scenarios", "D3,D8,D11,D15", "--bound", "2"], thorough=["--scenarios", "D1f,D3,D8,D11,D15", "--bound", "2", "--io", "1"]),
            # scheduling points also before every condition signal/broadcast (hooks bit 8): the window between an
            # unlock and the signal that follows it, e.g. the thread-pool teardown hand-shake at close
            dict(name="mc-asan-signal", driver="mc", flavour="asan", args=["--prop", "C10", "--hooks", "11"],
                 quick=["--scenarios", "D8,D1,D6,D9", "--bound", "2"], thorough=["--scenarios", "D8,D1,D1f,D3,D6,D9,D15", "--bound", "2"])],
)
PROPS["C04"] = dict(
    level="model_checking",
    technique="(a) crash-point x crash-image enumeration with cuts inside every log fragment, marker keys make a half-applied batch visible; (b) stateless schedule exploration of group commit vs snapshot/iterator readers with a linearizability oracle over multi-key batches",
    rule="(a) histories with 1/2/3-update batches (thorough: a 700-update batch over 4 log blocks) x every journal index x {max, torn cuts} images: recovered contents = fold of whole batches; (b) scenarios D2, D2b, D2c (group commit over disjoint keys: followers merged behind a leader, a later write, a snapshot reader of a follower batch's keys), D3: every schedule within the bound: every snapshot read / scan sees both keys of a batch or neither; distinct = distinct outcomes",
    distinct_key="outcomes", assumptions=E3_ASSUME + E1_ASSUME,
    stages=[e3_stage("C04", 2, 2, "B1", "B1;B1,snappy=1;B1,reuse=1", classes=0x22),
            dict(name="mc", driver="mc", flavour="asan", args=["--prop", "C04"],
                 quick=["--scenarios", "D2,D2b,D2c,D3", "--bound", "2"], thorough=["--scenarios", "D2,D2b,D2c,D3", "--bound", "3"])],
)
PROPS["C12"] = dict(
    level="fault_enumeration",
    technique="fault-site enumeration: every intercepted system call of a recorded run x every errno the property names x {one-shot, persistent} x short transfers, re-run on the real code; then close+reopen and kill+reopen after the fault cleared",
    rule="histories up to the given length over {put, put-sync, put-1KiB, batch, flush, compact-all, reopen; thorough: a 70 KB put whose log record spans three blocks} + 5 scripted ones (log rotation, multi-level compaction, recovery in the middle, fragmented log records) x every call index of kinds open/write/fsync/rename/unlink/close/mkdir/link/read/lseek/mmap x {ENOSPC, EIO, EMFILE, ENOENT, ENOMEM as meaningful} x paranoid {0,1}; distinct = distinct (op statuses, reopen status, recovered contents) outcomes",
    distinct_key="outcomes",
    assumptions=["fault model: the k-th intercepted call fails with the errno (one-shot) or it and every later call of the same kind fail (persistent); a short write/read transfers 0/1/len-1 bytes and the next call of that kind fails", "metadata probes (access, stat, fstat, fcntl, opendir) are not fault sites: C12 does not list them"] + E3_ASSUME[2:],
    stages=[dict(name="fault", driver="fault", flavour="asan",
                 quick=["--cfgs", "B1;B1,reuse=1", "--len", "2", "--scripted", "1"],
                 thorough=["--cfgs", "B1;B1,reuse=1", "--len", "3", "--scripted", "1", "--persistent", "1"]),
            dict(name="fault-wide", driver="fault", flavour="asan", tiers=["thorough"], weight=0.6,
                 thorough=["--cfgs", "B1,snappy=1,mmap=0", "--len", "2", "--scripted", "1", "--wide", "1", "--persistent", "1"]),
            dict(name="fault2", driver="fault", flavour="asan", tiers=["thorough"],
                 thorough=["--cfgs", "B1", "--len", "1", "--scripted", "0", "--depth2", "1"])],
)
ENGINES["fault"] = "E4: fault-site enumerator over the call log of the in-memory VFS"


def c14_plan(tier):
    if tier == "quick":
        return plan(["B1@4/3", "B1,snappy=1,bloom=1@0/2", "B1,cmp=1@0/2", NOCASE + "@0/2", "B2@0/2"] + LONGMAN_ITEMS + [SPLIT_CFG + "@0/2^" + L_SPLIT, "B1@2^" + L_DEEP, "B1@2^" + L_BIG, "B1@2^" + L_SNAP, "B1@2^" + L_BOTTOM, "B1@2^" + L_SST] + OVL_Q + SEEK_Q)
    return plan(OVL_T + SEEK_T + ["B1@3^" + L_BOTTOM, "B1@5/4", "B1,snappy=1,bloom=1@4/3", "B1,cmp=1@4/3", NOCASE + "@3/3", "B1,reuse=1@3/3", "B2@3/2", SPLIT_CFG + "@0/3^" + L_SPLIT, "B1@3^" + L_DEEP, "B1@3^" + L_BIG,
                 "B1@3^" + L_SNAP, "B1,cmp=1@3^" + L_DEEP, "B1,snappy=1,bloom=1@3^" + L_BIG])


PROPS["C14"] = dict(
    level="model_checking",
    technique="explicit-state BFS over operation histories on the real code; after every operation the reported level structure is re-derived from the bytes on the (in-memory) disk with independent MANIFEST/log/table decoders and checked for well-formedness",
    rule="as C01 (with snapshots so that one user key can straddle files); oracle after every operation: leveldb.sstables == fold of the MANIFEST (independent decoder); every table decodes (independent reader) to a strictly increasing duplicate-free run within its recorded bounds and size; levels >= 1 ordered and disjoint; per user key shallower levels / newer level-0 files hold strictly newer sequences; reopen with an empty write buffer reproduces the layout",
    assumptions=E2_ASSUME + ["independent codecs: harness/ref_codecs.c (log, table, snappy, bloom), harness/rm_manifest.c (version edits)"],
    stages=[dict(name="hist", driver="hist", flavour="asan", args=["--alphabet", "snap", "--oracle", "layout"],
                 quick=["--plan", c14_plan("quick")], thorough=["--plan", c14_plan("thorough")])],
)

PROPS["C19"] = dict(
    level="model_checking",
    technique="explicit-state enumeration of database states (all operation sequences up to a depth from the empty database and from 7 scripted layouts) x metadata-damage variants; real ldb_repair + ldb_open; expectation computed from the surviving files with independent table/log decoders",
    rule="every history up to the given length over {put, put-1KiB, del x2, flush, compact_range(0), compact_range(1), snapshot, release} (+ scripted layouts incl. compaction outputs numbered above newer level-0 data) x 8 damage variants (MANIFEST+CURRENT deleted, CURRENT deleted, MANIFEST cut half / 1 byte short / emptied, garbage CURRENT, oldest / newest table deleted); oracle: get and iterator return the newest version present in the surviving tables and logs, a follow-up put+flush+reopen wins, no created file reuses a name; distinct = distinct (lookup, iterator) result vectors",
    distinct_key="outcomes",
    assumptions=E2_ASSUME[:3] + ["known finding F1 (stale point lookup after repair, see known_findings.txt) is matched by its precise signature only"],
    stages=[dict(name="repair", driver="repair", flavour="asan",
                 quick=["--cfgs", "B1", "--len", "3", "--sdepth", "1"],
                 thorough=["--cfgs", "B1;B1,snappy=1,bloom=1;B1,cmp=0,reuse=1", "--len", "4", "--sdepth", "2"]),
            dict(name="repair-filter", driver="repair", flavour="asan", tiers=["quick"],
                 quick=["--cfgs", "B1,bloom=1;B1,snappy=1,cmp=1", "--len", "2", "--sdepth", "1"])],
)
ENGINES["repair"] = "E2: state enumeration x metadata damage, real ldb_repair/ldb_open vs independent decoders of the surviving files"

PROPS["C20"] = dict(
    level="model_checking", deadline_thorough=1200,
    technique="exhaustive enumeration of lifecycle call sequences (open / close / refused opens / foreign-process lock attempts) and of backup/copy points over operation histories on the real code over a VFS with POSIX record-lock semantics",
    rule="all sequences of length <= locklen over {open, close, second open, open(error_if_exists), open(other comparator), foreign-process lock attempt}: the foreign process gets the lock iff no handle is open; ldb_backup after every history up to the given length over 7 ops (background work drained, and with the last operation's flush still pending) + 3 scripted multi-level layouts: the copy opens independently and equals the source model at that moment, later writes/compactions of the source leave it unchanged, the source stays right; ldb_copy of the closed database likewise; ldb_destroy leaves exactly 6 foreign entries; refused opens leave every database file byte-identical",
    assumptions=E2_ASSUME[:3] + ["fcntl(F_SETLK) is modelled with POSIX semantics (per process, closing any descriptor of the file drops the lock); the foreign process is simulated by the VFS"],
    stages=[dict(name="life", driver="life", flavour="asan",
                 quick=["--cfgs", "B1;B1,reuse=1", "--locklen", "5", "--len", "2"],
                 thorough=["--cfgs", "B1;B1,reuse=1;B2", "--locklen", "6", "--len", "3"])],
)
ENGINES["life"] = "E2: lifecycle sequence enumeration (locking, backup/copy, destroy, refused opens)"

PROPS["C11"] = dict(
    level="fault_enumeration",
    technique="fault-site enumeration over bytes: every byte offset of every table, log, MANIFEST and CURRENT file of generated databases x a fixed list of alterations, one damage per case, then the real ldb_open(paranoid) + lookups and scans with verify_checksums, repeated after a manual compaction of the damaged database",
    rule="3 generated databases per configuration (tables in several levels holding the newest versions of 2 keys, live log with several batches incl. a multi-update batch, MANIFEST with several edits) x every byte x {8 bit flips, :=00, :=FF, truncate at the offset, zero the 512-byte sector} (quick: bit0, bit4, bit7, :=00, truncate); table damage: get returns the stored value or an error, never another value / not-found for a live key; a scan that ends with status OK yielded exactly the live entries in order; log/MANIFEST/CURRENT damage: open fails or the contents are the fold of the surviving batches (markers); distinct = distinct (open status, read statuses, contents) outcomes",
    distinct_key="outcomes",
    assumptions=["single damage per case (multi-site damage is out of the bound)", "databases are a few KiB (B1 sizes) so that every byte can be enumerated"] + E3_ASSUME[2:3],
    stages=[dict(name="corrupt", driver="corrupt", flavour="asan", args=["--mode", "c11"],
                 quick=["--cfgs", "B1;B1,snappy=1,bloom=1", "--dbs", "5", "--quick-alts", "1"],
                 thorough=["--cfgs", "B1;B1,snappy=1,bloom=1;B1,mmap=0,cache=1;B1,cmp=1;B1,bloom=1,mmap=0", "--dbs", "5"])],
)
PROPS["C18"]["stages"].append(dict(name="wholedb", driver="corrupt", flavour="asan", args=["--mode", "c18"],
                                   quick=["--cfgs", "B1", "--dbs", "4", "--quick-alts", "1"],
                                   thorough=["--cfgs", "B1;B1,snappy=1,bloom=1;B1,mmap=0", "--dbs", "4"]))
PROPS["C18"]["rule"] += "; whole-database stage: every byte of every file of generated databases x alterations, then ldb_dump_file of the damaged file (src/dumpfile.c) / open / compact / scan both ways / repair / open / scan on the damaged copy (oracle: returns, no sanitizer report, bounded scans)"
PROPS["C18"]["assumptions"] = E5_ASSUME
ENGINES["corrupt"] = "E4: byte-damage enumerator over generated databases (C11 oracle; C18 whole-database totality)"

# C13 and C17: crash stages in addition to the history / codec stages
PROPS["C13"]["stages"].append(e3_stage("C13", 2, 3, "B1", "B1;B1,reuse=1", nested_q=0, nested_t=1, classes=0x07))
PROPS["C13"]["rule"] += "; crash stage: every journal index x {min, max, dir-ahead} images of short histories: after recovery completes the directory holds exactly the live files (no orphan table, stale MANIFEST or temp file)"

PROPS["C20"]["stages"].append(dict(name="mc-backup", driver="mc", flavour="asan", args=["--prop", "C20"],
                                   quick=["--scenarios", "D12,D13,D20", "--bound", "2"], thorough=["--scenarios", "D13,D12,D20", "--bound", "3"]))
PROPS["C20"]["rule"] += "; concurrent stage: ldb_backup racing a batch writer, a flush and a memtable switch (scenarios D12, D13), every schedule within the deviation bound: the backup opens through an independent handle and equals the database at ONE point inside the backup call (linearizability oracle, every batch wholly in or out); D20: two threads open and close the same second directory through handles of their own while another process probes the lock: never two handles at once, and no refused concurrent open makes the process lose the lock while a handle is open"
PROPS["C20"]["assumptions"] = PROPS["C20"]["assumptions"] + E1_ASSUME[:3]

# crash enumeration over INTERLEAVED journals (every explored schedule of a concurrent scenario)
for _p in ("C02", "C03"):
    PROPS[_p]["stages"].append(dict(name="mc-crash", driver="mc", flavour="asan", args=["--prop", _p, "--crash", "1"],
                                    quick=["--scenarios", "D4,D4b,D1f,D14", "--bound", "2"],
                                    thorough=["--scenarios", "D4,D4b,D4c,D1f,D6,D2,D3,D14", "--bound", "2"]))
    PROPS[_p]["stages"].append(dict(name="mc-crash-b3", driver="mc", flavour="asan", args=["--prop", _p, "--crash", "1"], tiers=["thorough"],
                                    thorough=["--scenarios", "D4b,D4", "--bound", "3"]))
    PROPS[_p]["rule"] += ("; concurrent stage: for every schedule (deviation bound) of scenarios with sync and non-sync writers, group commit, memtable switch and background flush, "
                          "every journal index of that interleaved execution is a crash point with images {min, max, dir-ahead, data-ahead}: a batch acknowledged with sync before the crash survives every image, every acknowledged batch survives the process-crash image")
    PROPS[_p]["assumptions"] = PROPS[_p]["assumptions"] + E1_ASSUME[:3]

PROPS["C13"]["stages"].append(dict(name="mc-crash", driver="mc", flavour="asan", args=["--prop", "C13", "--crash", "1"],
                                   quick=["--scenarios", "D14,D1f", "--bound", "2"], thorough=["--scenarios", "D14,D1f,D3,D6", "--bound", "2"]))
PROPS["C13"]["rule"] += ("; concurrent stage: a writer fills and switches the memtable while a compaction is in its unlocked tail (scenario D14) and while a flush is in flight (D1f): "
                         "for every schedule within the bound, at every journal index (in particular right after every unlink issued by obsolete-file removal) the process-crash image must still "
                         "contain every acknowledged batch, i.e. no log or table holding data of an in-progress flush/compaction was removed")
PROPS["C13"]["assumptions"] = PROPS["C13"]["assumptions"] + E1_ASSUME[:3]

# fault-site stages for properties whose statement also covers the state after a failed system call
# (the enumeration is C12's; only the oracle differs: --prop selects the property's own statement)
FAULT_ASSUME = ["fault model of the fault stage: the k-th intercepted call fails once with an errno the call can return; a short write transfers 0/1/len-1 bytes and the next write fails"]
PROPS["C04"]["stages"].append(dict(name="fault-atomicity", driver="fault", flavour="asan", args=["--prop", "C04"], weight=0.5,
                                   quick=["--cfgs", "B1", "--len", "1", "--scripted", "1"],
                                   thorough=["--cfgs", "B1;B1,reuse=1", "--len", "2", "--scripted", "1", "--wide", "1"]))
PROPS["C04"]["rule"] += ("; fault stage: histories with batches whose log record spans three 32 KiB blocks (small updates before and after a 70 KB one) x every system call x errno/short write: "
                         "reads during the faulted run and the contents after close+reopen and kill+reopen are the fold of SOME set of whole batches")
PROPS["C04"]["assumptions"] = PROPS["C04"]["assumptions"] + FAULT_ASSUME
PROPS["C13"]["stages"].append(dict(name="fault-files", driver="fault", flavour="asan", args=["--prop", "C13"], weight=0.5,
                                   quick=["--cfgs", "B1", "--len", "2", "--scripted", "1"],
                                   thorough=["--cfgs", "B1;B1,reuse=1", "--len", "3", "--scripted", "1", "--persistent", "1"]))
PROPS["C13"]["rule"] += "; fault stage: after every operation of every faulted run (every system call x errno) every table of the current version still exists in the directory, and at the end of the run (kill point and after the clean close) every table named by the MANIFEST that CURRENT points to (decoded independently) exists"
PROPS["C13"]["assumptions"] = PROPS["C13"]["assumptions"] + FAULT_ASSUME
PROPS["C17"]["stages"].append(dict(name="fault-manifest", driver="fault", flavour="asan", args=["--prop", "C17"], weight=0.5,
                                   quick=["--cfgs", "B1;B1,reuse=1", "--len", "2", "--scripted", "1"],
                                   thorough=["--cfgs", "B1;B1,reuse=1", "--len", "3", "--scripted", "1"]))
PROPS["C17"]["rule"] += ("; fault stage: for every failed or short write(2) and every failed rename(2) of every history, after every operation that returns OK the MANIFEST that CURRENT names "
                         "(decoded independently) folds to exactly the file set the database reports; for EVERY fault site, at the kill point and after the clean close CURRENT names a MANIFEST that exists")
PROPS["C17"]["assumptions"] = PROPS["C17"]["assumptions"] + FAULT_ASSUME

# crash enumeration from NON-INITIAL states: a preparation run (--base) builds the state, crash points start after it
BASE_LONGMAN = "P1.1 F O 50*(P1.1 F)"     # reuse=1, uni=2: the reused MANIFEST has grown past a 32 KiB block
BASE_DEEP = L_DEEP + " O"                 # tables on several levels, then a reopen
for _p, _cls in (("C02", 0x7f), ("C03", 0x02), ("C05", 0x7f), ("C17", 0x7f)):
    PROPS[_p]["stages"].append(dict(name="crash-long-manifest", driver="crash", flavour="asan", weight=0.4,
                                    args=["--prop", _p, "--classes", str(_cls), "--base", BASE_LONGMAN],
                                    quick=["--cfgs", "B1,reuse=1,uni=2", "--len", "1", "--nested", "0", "--scripted", "0"],
                                    thorough=["--cfgs", "B1,reuse=1,uni=2;B1,uni=2", "--len", "2", "--nested", "1", "--scripted", "0"]))
    PROPS[_p]["stages"].append(dict(name="crash-from-deep", driver="crash", flavour="asan", weight=0.4,
                                    args=["--prop", _p, "--classes", str(_cls), "--base", BASE_DEEP, "--wide", "1"],
                                    quick=["--cfgs", "B1", "--len", "1", "--nested", "0", "--scripted", "0"],
                                    thorough=["--cfgs", "B1", "--len", "2", "--nested", "0", "--scripted", "0"]))
    PROPS[_p]["rule"] += ("; prepared-state stages: the same enumeration started from (a) a database whose reused MANIFEST is longer than one 32 KiB block and (b) a multi-level layout after a reopen "
                          "(crash points only after the preparation run, whose contents are part of every image's expected state)")

# C12 under concurrency: every explored schedule x ONE injected failure named independently of the schedule
# (the n-th fsync/write on a MANIFEST / log / table file after the threads start)
MC_FAULTS = "fsync:MANIFEST,write:MANIFEST,fsync:.log,write:.log,fsync:.ldb,write:.ldb"
PROPS["C12"]["stages"].append(dict(name="mc-fault", driver="mc", flavour="asan", args=["--prop", "C12", "--faults", MC_FAULTS], weight=0.6,
                                   quick=["--scenarios", "D14,D1f,D3,D6,D15", "--bound", "1", "--fault-ords", "3"],
                                   thorough=["--scenarios", "D14,D1f,D3,D6,D15,D4,D9", "--bound", "2", "--fault-ords", "4"]))
PROPS["C12"]["rule"] += ("; concurrent stage: for every schedule within the deviation bound of scenarios with a writer filling the memtable during a compaction (D14), a flush in flight (D1f), "
                         "iterators + manual compaction (D3), stalled writers (D6), ldb_compact vs flush (D15): the n-th fsync / write on a MANIFEST, log or table file fails once (EIO); "
                         "no hang; after the fault has cleared, kill + reopen (at the point where all calls had returned) and close + reopen succeed and contain every batch whose write returned OK")
PROPS["C12"]["assumptions"] = PROPS["C12"]["assumptions"] + E1_ASSUME[:3]

# C04 over damaged logs: the byte-damage enumerator restricted to write-ahead logs and to the atomicity verdict
PROPS["C04"]["stages"].append(dict(name="log-damage", driver="corrupt", flavour="asan", weight=0.4,
                                   args=["--mode", "c11", "--ftypes", "2", "--only-sig", "batch-torn-by-damage"],
                                   quick=["--cfgs", "B1", "--dbs", "4", "--quick-alts", "1"],
                                   thorough=["--cfgs", "B1;B1,reuse=1", "--dbs", "4"]))
PROPS["C04"]["rule"] += ("; log-damage stage: every byte of every write-ahead log of 4 generated databases (one holding a batch whose record spans three blocks) x {bit flips, 00, FF, truncation, zeroed sector, "
                         "zeroes to the end of the block}, recovery with paranoid_checks 1 and 0: the contents are the fold of whole batches")

# C01 under LEGAL short transfers: no call fails, one read(2)/write(2) moves fewer bytes than asked for
PROPS["C01"]["stages"].append(dict(name="short-transfers", driver="fault", flavour="asan", args=["--prop", "C01"], weight=0.3,
                                   quick=["--cfgs", "B1;B1,mmap=0", "--len", "2", "--scripted", "1"],
                                   thorough=["--cfgs", "B1;B1,mmap=0;B1,mmap=0,snappy=1,bloom=1", "--len", "3", "--scripted", "1", "--wide", "1"]))
PROPS["C01"]["rule"] += ("; short-transfer stage: for every read(2) and write(2) of every history (<= 2 -> 3 operations + scripted ones incl. reopen) one call transfers only 1, half or all-but-one of the bytes "
                         "asked for and NOTHING fails: every operation returns OK, every get returns the model value, and after close/kill + reopen every write is there")

# C09 with one failed system call: every call still returns (sequential histories incl. manual compaction after the
# failure, and every schedule of the concurrent scenarios x the schedule-independent fault sites)
PROPS["C09"]["stages"].append(dict(name="fault-hang", driver="fault", flavour="asan", args=["--prop", "C09"], weight=0.4,
                                   quick=["--cfgs", "B1", "--len", "2", "--scripted", "1"],
                                   thorough=["--cfgs", "B1;B1,reuse=1", "--len", "3", "--scripted", "1", "--persistent", "1"]))
PROPS["C09"]["stages"].append(dict(name="mc-fault", driver="mc", flavour="asan", args=["--prop", "C09", "--faults", MC_FAULTS], weight=0.5,
                                   quick=["--scenarios", "D14,D1f,D3,D6,D9,D15", "--bound", "1", "--fault-ords", "3"],
                                   thorough=["--scenarios", "D14,D1f,D3,D6,D9,D15,D7,D8", "--bound", "2", "--fault-ords", "4"]))
PROPS["C09"]["rule"] += ("; fault stages: (a) every history (<= 2 -> 3 operations incl. flush, compact-all, reopen, + scripted) x every failing system call: the run completes (no call blocks forever once an error is latched); "
                         "(b) every schedule within bound 1 -> 2 of 6 -> 8 concurrent scenarios x the n-th fsync/write on MANIFEST/log/table files failing once: no deadlock, no stuck call")
PROPS["C09"]["assumptions"] = PROPS["C09"]["assumptions"] + FAULT_ASSUME

# third prepared state: a reused write-ahead log whose tail lies 2-4 bytes before a 32 KiB block boundary
BASE_LOGTAIL = "P1.5! O"   # written with sync: the preparation must be durable, its contents are expected in every image
for _p, _cls in (("C02", 0x7f), ("C03", 0x02), ("C05", 0x7f)):
    PROPS[_p]["stages"].append(dict(name="crash-reused-log-tail", driver="crash", flavour="asan", weight=0.3,
                                    args=["--prop", _p, "--classes", str(_cls), "--base", BASE_LOGTAIL],
                                    quick=["--cfgs", "B2,reuse=1", "--len", "1", "--nested", "0", "--scripted", "0"],
                                    thorough=["--cfgs", "B2,reuse=1", "--len", "2", "--nested", "1", "--scripted", "0"]))
    PROPS[_p]["rule"] += "; and (c) a reused write-ahead log that ends 2-4 bytes before a block boundary (no room for a record header)"

# C07 "while later writes, compactions and file deletions proceed": iterator scanners racing batch writers, a flush and a
# manual compaction; every scan must equal the database at ONE point of a sequential order (linearizability oracle)
PROPS["C07"]["stages"].append(dict(name="mc-iter", driver="mc", flavour="asan", args=["--prop", "C07"], weight=0.3,
                                   quick=["--scenarios", "D2b,D3,D11", "--bound", "2"],
                                   thorough=["--scenarios", "D2b,D3,D11,D2", "--bound", "3"]))
PROPS["C07"]["rule"] += ("; concurrent stage: iterator scans racing a batch writer + batch deleter (D2b), a writer + manual compaction over three levels (D3) and a flush that retires files (D11), "
                         "every schedule within 2 -> 3 deviations: each scan yields the database at one point of a sequential order of the operations (a batch wholly in or out, in order, status OK)")
PROPS["C07"]["assumptions"] = PROPS["C07"]["assumptions"] + E1_ASSUME[:3]

PROPS["C05"]["stages"].append(dict(name="mc-crash", driver="mc", flavour="asan", args=["--prop", "C05", "--crash", "1"], weight=0.4,
                                   quick=["--scenarios", "D14,D1f", "--bound", "2"], thorough=["--scenarios", "D14,D1f,D3,D6", "--bound", "2"]))
PROPS["C05"]["rule"] += ("; concurrent stage: every journal index of every schedule (bound 2) of a writer switching the memtable during a compaction (D14) / a flush in flight (D1f) is a crash point: "
                         "recovery of each image succeeds and never recreates a write-ahead log that the image holds (the number of a log still to be replayed is not handed out again)")
PROPS["C05"]["assumptions"] = PROPS["C05"]["assumptions"] + E1_ASSUME[:3]

# Environment-model conformance: the in-memory POSIX model of harness/vfs.c (on which every VFS-based check decides its
# property) replayed in lock-step against the real kernel (tmpfs directory under the run's scratch directory)
ENGINES["conform"] = "conformance of the environment model: file-system call sequences, lcdb histories and lock sequences executed on harness/vfs.c and on the kernel side by side, every observation compared"
PROPS["C20"]["stages"].append(dict(name="conform-lock", driver="conform", flavour="asan", args=["--parts", "lock"], weight=0.3,
                                   quick=["--cfgs", "B1", "--locklen", "4"], thorough=["--cfgs", "B1", "--locklen", "5"]))
PROPS["C20"]["rule"] += ("; real-kernel stage: all lock sequences (<= 4 -> 5 steps, ending in an observation) on a real tmpfs directory where the 'other process' is a freshly exec'ed process calling the real ldb_open: "
                         "it opens the database iff this process holds no handle (kernel fcntl semantics, not the model's); the model's verdict for the same sequence is compared step by step")
PROPS["C20"]["assumptions"] = [a.replace("the foreign process is simulated by the VFS", "the foreign process is simulated by the VFS in stage life and is a real exec'ed process on the real kernel in stage conform-lock")
                               for a in PROPS["C20"]["assumptions"]]
PROPS["C01"]["stages"].append(dict(name="conform-env", driver="conform", flavour="asan", args=["--parts", "sys,hist"], weight=0.2,
                                   quick=["--cfgs", "B1;B1,mmap=0;B1,reuse=1", "--syslen", "4", "--len", "2"],
                                   thorough=["--cfgs", "B1;B1,mmap=0;B1,reuse=1;B1,snappy=1,bloom=1;B2", "--syslen", "5", "--len", "3"]))
PROPS["C01"]["rule"] += ("; environment-conformance stage (binds the file-system model under all VFS-based checks to the kernel): ALL sequences of <= 4 -> 5 calls over 22 file-system calls "
                         "(open variants, write, read, fsync, close, rename, unlink, link, mkdir, rmdir, access, stat, lseek) give the same return values, errno and final tree on harness/vfs.c and on tmpfs; "
                         "ALL lcdb histories of <= 2 -> 3 operations give the same statuses, reads and byte-identical database files on both")

# C06 "for as long as the snapshot is held, regardless of later writes ...": a snapshot taken while a write is in flight,
# held across the completion of that write, a flush and a compaction, and re-read through lookups and an iterator
PROPS["C06"]["stages"].append(dict(name="mc-held", driver="mc", flavour="asan", args=["--prop", "C06"], weight=0.4,
                                   quick=["--scenarios", "D18,D18f,D19,D10", "--bound", "2"],
                                   thorough=["--scenarios", "D18,D18f,D19,D10,D5", "--bound", "3"]))
PROPS["C06"]["rule"] += ("; concurrent stage: a snapshot taken at any point of an in-flight batch write (overwrite + delete), of a memtable switch and of a manual compaction (scenarios D18, D18f; D19: two live snapshots of different age across a merging compaction; snapshot churn D10, D5) "
                         "is held while those complete, every schedule within 2 -> 3 deviations: lookups and an iterator through the SAME snapshot return what it first showed, and that view is one point of a sequential order")
PROPS["C06"]["assumptions"] = PROPS["C06"]["assumptions"] + E1_ASSUME[:3]
PROPS["C06"]["technique"] += "; plus stateless schedule exploration of held snapshots racing writes, flushes and compactions"

# C02 / C03 under LEGAL short transfers (a write(2) or read(2) that moves fewer bytes than asked for and fails nothing):
# the environment may answer so at any call; acknowledged (sync) writes must still survive the power loss / the kill
PROPS["C02"]["stages"].append(dict(name="short-transfers-power", driver="fault", flavour="asan", args=["--prop", "C02"], weight=0.2,
                                   quick=["--cfgs", "B1", "--len", "2", "--scripted", "1"],
                                   thorough=["--cfgs", "B1;B1,reuse=1;B1,mmap=0", "--len", "3", "--scripted", "1", "--wide", "1"]))
PROPS["C02"]["rule"] += ("; short-transfer stage: for every read(2)/write(2) of every history (<= 2 -> 3 operations + scripted) one call moves only 1, half or all-but-one of the bytes asked for and nothing fails; "
                         "power fails at the end of the run (directory operations up to the last fsync, files at synced length): the database opens and holds every batch acknowledged with sync")
PROPS["C03"]["stages"].append(dict(name="short-transfers-kill", driver="fault", flavour="asan", args=["--prop", "C01"], weight=0.2,
                                   quick=["--cfgs", "B1", "--len", "2", "--scripted", "1"],
                                   thorough=["--cfgs", "B1;B1,reuse=1;B1,mmap=0", "--len", "3", "--scripted", "1", "--wide", "1"]))
PROPS["C03"]["rule"] += ("; short-transfer stage: the same enumeration of legal short reads/writes, the process is killed at the end of the run (image = everything written) or closes: "
                         "every operation returned OK, and after reopen every acknowledged batch is present")
for _p in ("C02", "C03"):
    PROPS[_p]["assumptions"] = PROPS[_p]["assumptions"] + ["short-transfer stage: one system call per run transfers fewer bytes than requested (1, half, all-but-one), no call fails"]
# C01 with concurrent writers: linearizability of plain puts/gets implies 'a read returns the latest write' when the writes
# were merged by group commit (leader + queued followers over disjoint keys)
PROPS["C01"]["stages"].append(dict(name="mc-writers", driver="mc", flavour="asan", args=["--prop", "C08"], weight=0.2,
                                   quick=["--scenarios", "D2c,D1", "--bound", "2"], thorough=["--scenarios", "D2c,D1,D1f,D16", "--bound", "3"]))
PROPS["C01"]["rule"] += "; concurrent-writers stage: writes issued by 2-3 threads at once (group commit with queued followers over disjoint keys, scenarios D2c, D1): every schedule within 2 -> 3 deviations, every get and the final scan return the latest write of a sequential order of the operations"
PROPS["C01"]["assumptions"] = PROPS["C01"]["assumptions"] + E1_ASSUME[:3]

# C17 "replaying a MANIFEST reproduces exactly the file set ... that were in effect": after every operation of histories
# over layouts that use EVERY level (incl. the bottom one), the MANIFEST that CURRENT names is folded by the independent
# decoder and compared with the layout the database reports; reopen (= MANIFEST rollover + replay) reproduces it
PROPS["C17"]["stages"].append(dict(name="hist-replay", driver="hist", flavour="asan", args=["--alphabet", "snap", "--oracle", "layout"], weight=0.3,
                                   quick=["--plan", plan(["B1@0/2^" + L_BOTTOM, "B1@0/2^" + L_DEEP, "B1,reuse=1@0/2^" + L_BOTTOM, "B1@3/2"] + LONGMAN_ITEMS)],
                                   thorough=["--plan", plan(["B1@3^" + L_BOTTOM, "B1@3^" + L_DEEP, "B1,reuse=1@3^" + L_BOTTOM, "B1,reuse=1@3^" + L_DEEP, "B1@3^" + L_BIG, "B1@4/3", "B1,reuse=1@4/3"] + LONGMAN_ITEMS)]))
PROPS["C17"]["rule"] += ("; replay stage: after every operation of histories (<= 2 -> 3 operations incl. reopen = MANIFEST rollover, with and without reuse_logs) on prepared layouts that use every level "
                         "(a table pushed down to level 6, levels 2-1-0-0, a MANIFEST longer than one block), the independent decoder's fold of the MANIFEST that CURRENT names equals the reported file set, "
                         "and a reopen reproduces it")

# C14 after concurrent executions: the tables written by group commits, memtable switches and a compaction racing a
# writer are flushed and the reported structure is checked with the independent decoders
PROPS["C14"]["stages"].append(dict(name="mc-layout", driver="mc", flavour="asan", args=["--prop", "C14"], weight=0.3,
                                   quick=["--scenarios", "D2e,D2c,D1f,D14", "--bound", "2"],
                                   thorough=["--scenarios", "D2e,D2c,D1f,D14,D3,D6", "--bound", "3"]))
PROPS["C14"]["rule"] += ("; concurrent stage: after every schedule (2 -> 3 deviations) of group commits with queued followers and an overwrite of a follower's key (D2e, D2c), a memtable switch with a background flush (D1f) "
                         "and a writer switching memtables during a manual compaction (D14), the memtable is flushed and the same layout oracle runs (duplicate-free sorted runs, shallower strictly newer, MANIFEST fold == reported)")
PROPS["C14"]["assumptions"] = PROPS["C14"]["assumptions"] + E1_ASSUME[:3]
