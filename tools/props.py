"""Per-property check specifications (stages = driver runs whose records are merged).

A stage: name, driver (harness/drivers/<driver>.c), flavour (asan|tsan|plain), args (always),
quick / thorough (extra args per tier), tiers (default both), weight (share of the deadline).
"""

# prepared non-initial layouts (B1 sizes): files in level 2, 1, 0, 0 / tombstone above a deeper value /
# one user key with several versions pinned by a snapshot and pushed through a compaction
L_DEEP = "P0.1 F P0.1 F P1.1 F P0.1 F"
L_TOMB = "P1.1 F D1 F P2.2"
L_SNAP = "P1.2 S P1.2 P1.2 F P1.2 F"
L_BIG = "P0.2 P1.2 P2.2 P0.2 P1.2 P2.2 F P0.2 P1.2 P2.2 F"

TOGGLES = ["snappy=1", "bloom=1", "mmap=0", "reuse=1", "cache=1", "cache=2", "cmp=1", "paranoid=1"]


def plan(items):
    return ";".join(items)


def c01_plan(tier):
    if tier == "quick":
        it = ["B1@4/3"] + ["B1,%s@0/2" % t for t in TOGGLES] + ["B2@0/2"]
        it += ["B1@2^" + L_DEEP, "B1,bloom=1,cache=1,mmap=0,snappy=1@2^" + L_DEEP, "B1@2^" + L_TOMB]
    else:
        it = ["B1@5/4"] + ["B1,%s@4/3" % t for t in TOGGLES] + ["B2@3/3", "B2,snappy=1,bloom=1@3/2"]
        # full cross product of the boolean toggles at depth 2 (no dedup)
        for m in range(1, 64):
            t = []
            for b, nm in enumerate(["snappy=1", "bloom=1", "mmap=0", "reuse=1", "cache=1", "paranoid=1"]):
                if m & (1 << b):
                    t.append(nm)
            if len(t) >= 2:
                it.append("B1,%s@0/2" % ",".join(t))
        for L in (L_DEEP, L_TOMB, L_SNAP, L_BIG):
            it += ["B1@3^" + L, "B1,bloom=1,cache=1,mmap=0,snappy=1@3^" + L, "B1,cmp=1@2^" + L]
    return plan(it)


def c06_plan(tier):
    if tier == "quick":
        return plan(["B1@4/3", "B1,snappy=1,bloom=1@0/2", "B1@2^" + L_SNAP, "B1@2^S " + L_DEEP])
    return plan(["B1@5/4", "B1,snappy=1,bloom=1@4/3", "B1,cmp=1@3/3", "B2@3/2", "B1@3^" + L_SNAP, "B1@3^S " + L_DEEP,
                 "B1@3^P0.1 S D0 S P0.2 F", "B1,cache=1,mmap=0@3^" + L_SNAP])


def c07_plan(tier):
    if tier == "quick":
        return plan(["B1@3/2", "B1,cmp=1@0/2", "B1@2^" + L_DEEP, "B1@2^" + L_TOMB])
    return plan(["B1@4/3", "B1,cmp=1@3/3", "B1,snappy=1,bloom=1,mmap=0@3/2", "B2@2/2", "B1@3^" + L_DEEP, "B1@3^" + L_TOMB,
                 "B1@3^I " + L_DEEP, "B1,cmp=1@2^" + L_DEEP, "B1@2^" + L_SNAP])


def c13_plan(tier):
    if tier == "quick":
        return plan(["B1@4/3", "B1,reuse=1@0/2", "B1@2^I " + L_DEEP, "B1@2^" + L_BIG])
    return plan(["B1@5/4", "B1,reuse=1@4/3", "B1,snappy=1,mmap=0@3/3", "B2@3/2", "B1@3^I " + L_DEEP, "B1@3^" + L_BIG,
                 "B1@3^I " + L_SNAP, "B1,reuse=1@3^" + L_DEEP])


E2_ASSUME = [
    "single process, lcdb threads run as fibers under a deterministic scheduler (background work drained after every operation unless an operation says otherwise); libc I/O served by the in-memory VFS of harness/vfs.c",
    "key universe of 3-4 colliding keys ('', 'a', 'ab', 'b' plus two never-written probes); values identify the write that produced them; sizes empty/10 B/1.1 KiB (B1) and 70 KiB/1.2 MiB (B2)",
    "B1 = stress sizes below the option clips (write_buffer 4200, max_file 2500, block 256, level-1 budget 6000 via hooks H1/H2); B2 = in-range sizes",
    "state count sums per-shard distinct states (cross-shard duplicates possible); exhaustive refers to all operation sequences up to max_depth_nodedup per plan item and to the dedup BFS up to max_depth_dedup",
]

PROPS = {
    "C01": dict(
        level="model_checking",
        technique="explicit-state BFS over operation histories on the real code (replayed on a fresh in-memory FS), reference-model oracle after every operation",
        rule="every operation sequence over the alphabet up to the no-dedup depth, plus BFS with state dedup to a larger depth, per configuration/prefix plan item; a case is one history; distinct = distinct durable-state keys (hash of all DB files + model)",
        distinct_key=None,
        assumptions=E2_ASSUME,
        stages=[dict(name="hist", driver="hist", flavour="asan", args=["--alphabet", "rw", "--oracle", "get"],
                     quick=["--plan", c01_plan("quick")], thorough=["--plan", c01_plan("thorough")])],
    ),
    "C06": dict(
        level="model_checking",
        technique="explicit-state BFS over histories with up to 3 live snapshots; every live snapshot re-read (gets + both scans) against its frozen model copy after every operation",
        rule="as C01 with snapshot/release operations added; oracle: gets and forward/backward scans through every live snapshot equal the model copy frozen when it was taken",
        assumptions=E2_ASSUME,
        stages=[dict(name="hist", driver="hist", flavour="asan", args=["--alphabet", "snap", "--oracle", "get,snap"],
                     quick=["--plan", c06_plan("quick")], thorough=["--plan", c06_plan("thorough")])],
    ),
    "C07": dict(
        level="model_checking",
        technique="explicit-state BFS over histories x exhaustive enumeration of cursor call sequences compared with a sorted-map reference cursor",
        rule="for every reached state: forward+backward scans, held iterators re-walked, all single cursor calls; for every new layout signature all call sequences up to cursor-len over {first,last,seek,seek_ge,seek_gt,seek_le,seek_lt x 9 targets,next,prev}",
        assumptions=E2_ASSUME + ["full-length cursor walks run on the first cursor-cap distinct layout signatures per plan item, single calls everywhere"],
        stages=[dict(name="hist", driver="hist", flavour="asan", args=["--alphabet", "iter", "--oracle", "iter,cursor"],
                     quick=["--plan", c07_plan("quick"), "--cursor-len", "3", "--cursor-cap", "2"],
                     thorough=["--plan", c07_plan("thorough"), "--cursor-len", "4", "--cursor-cap", "6"])],
    ),
    "C13": dict(
        level="model_checking",
        technique="explicit-state BFS over histories with long-lived iterators/snapshots; directory contents and pinned files checked against the live set after every operation",
        rule="as C01 with iterator/snapshot operations; oracle: every table of the current version and of every held iterator's version exists; after flush/compact/reopen with no iterator held the directory holds exactly CURRENT, LOCK, the live MANIFEST, one log and the live tables; no file name is created twice",
        assumptions=E2_ASSUME,
        stages=[dict(name="hist", driver="hist", flavour="asan", args=["--alphabet", "files", "--oracle", "files"],
                     quick=["--plan", c13_plan("quick")], thorough=["--plan", c13_plan("thorough")])],
    ),
}

HOOK_COMMITS = ["ddbbc06", "b854525", "bc60683"]

ENGINES = {
    "hist": "E2: explicit-state BFS over operation histories on the real code, reference-model oracles",
}

NOT_APPLICABLE = {}

E3_ASSUME = [
    "crash model of C02 taken literally: every file keeps a prefix of its written bytes at least as long as at its last fsync; directory operations persist in issue order at least up to the last fsync of any file or directory; O_TRUNC of an existing name is ordered with the directory operations; no reordering inside a file, no garbage blocks",
    "histories are sequential (one foreground writer); background flush/compaction run on lcdb's own thread as a fiber, drained after every operation (starve variants: explicit drain operations)",
    "every write batch additionally puts a unique marker key, so the surviving batch set U is read off the recovered database; contents must equal the fold of exactly U in issue order",
    "3 user keys, values 10 B / 1.1 KiB, stress sizes B1 (write buffer 4200 B, file size 2500 B) so that log rotation, flushes and compactions happen within short histories",
]


def e3_stage(prop, quick_len, thorough_len, cfgs_q, cfgs_t, nested_q=1, nested_t=2, classes=0x7f):
    return dict(name="crash", driver="crash", flavour="asan", args=["--prop", prop, "--classes", str(classes)],
                quick=["--cfgs", cfgs_q, "--len", str(quick_len), "--nested", str(nested_q), "--scripted", "1"],
                thorough=["--cfgs", cfgs_t, "--len", str(thorough_len), "--nested", str(nested_t), "--wide", "1", "--scripted", "2"])


CFG_Q = "B1;B1,reuse=1"
CFG_T = "B1;B1,reuse=1;B1,snappy=1;B1,reuse=1,snappy=1,bloom=1;B1,mmap=0,cache=1"

E3_RULE = ("every history up to the given length over {put-sync, put, put-1KiB, batch-sync(3 updates), del-sync, flush, reopen} plus scripted longer histories "
           "(log rotation, flush, compaction, reopen chains; thorough: a 700-update batch spanning 4 log blocks) x EVERY journal index (system-call boundary) as crash point x image classes "
           "{min, max, dir-ahead, data-ahead, every intermediate directory prefix x {synced,written}, every cut inside the last write (all cuts if <=256 B)} (per check: the classes its property quantifies over); "
           "real ldb_open on each distinct image with paranoid_checks 0 and 1, second open, follow-up write + third open, and crash points inside the recovery itself; "
           "distinct = distinct (recovered contents, surviving set, open status) outcomes")

for _p, _tech, _ql, _tl, _cls, _cq in [
    ("C02", "crash-point x crash-image enumeration of recorded I/O journals of the real write path; recovery by the real ldb_open; oracle: sync-acknowledged and log-deleted batches survive", 2, 3, 0x7f, CFG_Q),
    ("C03", "kill-point enumeration (image = everything written) over recorded journals incl. nested kill points inside recovery; oracle: every acknowledged batch present, at most the in-flight one extra, order preserved", 3, 4, 0x02, CFG_Q + ";B1,snappy=1"),
    ("C05", "crash-point x crash-image enumeration; oracle: open succeeds, contents = fold of a per-log-segment prefix set, second open identical, follow-up write wins and persists, nested crash loses nothing", 2, 3, 0x7f, CFG_Q),
]:
    PROPS[_p] = dict(level="fault_enumeration", technique=_tech, rule=E3_RULE, distinct_key="outcomes", assumptions=E3_ASSUME,
                     stages=[e3_stage(_p, _ql, _tl, _cq, CFG_T, classes=_cls)])

ENGINES["crash"] = "E3: crash-point x crash-image enumerator over the journal of the in-memory VFS; recovery by the real ldb_open"
