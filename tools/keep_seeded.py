#!/usr/bin/env python3
"""tools/keep_seeded.py <Cxx> <seed-id> '<needs>' '<caught-by>' : copy a confirmed sub-agent change from
/tmp/mut_out/<Cxx>/ into /verif/seeded/<seed-id>/ with meta.json (confirm.txt must show success)."""
import json, os, shutil, sys, glob
prop, sid, needs, caught = sys.argv[1:5]
src = "/tmp/mut_out/%s" % (sys.argv[5] if len(sys.argv) > 5 else prop)
conf = open(os.path.join(src, "confirm.txt")).read()
ok = ("100% tests passed" in conf) and ("DEMO with change: exit=0" not in conf) and ("DEMO unchanged:   exit=0" in conf)
if not ok:
    print("NOT CONFIRMED:\n" + conf); sys.exit(1)
dst = os.path.join("/verif/seeded", sid)
os.makedirs(dst, exist_ok=True)
shutil.copy(os.path.join(src, "patch.diff"), dst)
for f in glob.glob(os.path.join(src, "*_demo.c")) + glob.glob(os.path.join(src, "README.txt")):
    shutil.copy(f, dst)
meta = dict(property=prop, id=sid, needs_to_manifest=needs,
            confirmed=dict(how="tools/confirm_seeded.sh: fresh worktree of /repo HEAD, patch applied, cmake build, full ctest with private TEST_TMPDIR, demo built against the changed and the unchanged library", result=conf.strip().splitlines()),
            caught_by=caught,
            ran="tools/try_mutant.sh seeded/%s/patch.diff %s quick  (git -C /repo apply; ./check; git -C /repo checkout -- .)" % (sid, prop))
json.dump(meta, open(os.path.join(dst, "meta.json"), "w"), indent=1)
print("kept", dst)
