#!/bin/sh
# tools/try_mutant.sh <patch.diff> <Cxx> [tier] : run a check against a seeded change.
# The change is applied to a scratch COPY of /repo's sources (LCDB_SRC), so /repo itself is never
# touched and other runs are not disturbed; evidence and replays of the trial go to /dev/shm.
# (Equivalent to: git -C /repo apply <patch>; ./check <id>; git -C /repo checkout -- .)
set -u
patch="$1"; prop="$2"; tier="${3:-quick}"
d=$(mktemp -d /dev/shm/mutsrc.XXXXXX)
cp -r /repo/src /repo/include "$d"/ && ( cd "$d" && patch -p1 -s < "$patch" ) || { echo "patch does not apply"; rm -rf "$d"; exit 2; }
cd /verif
LCDB_SRC="$d" VERIF_OUT="$d/out" ./check "$prop" --tier "$tier" > "$d/out.txt" 2>&1
rc=$?
echo "check exit=$rc"
grep -E "^VIOLATION|^KNOWN-FINDING|^  sig=|HARNESS-ERROR|^C[0-9]+ " "$d/out.txt" | cut -c1-300 | head -12
[ -f "$d/out/replays/$prop-0.json" ] && python3 -c "import json;print('  detail:', json.load(open('$d/out/replays/$prop-0.json'))['detail'][:500])"
rm -rf "$d"
exit $rc
