#!/bin/sh
# tools/try_mutant.sh <patch.diff> <Cxx> [tier] : apply a seeded change to /repo, run the check, undo it.
set -u
patch="$1"; prop="$2"; tier="${3:-quick}"
cd /repo || exit 2
if ! git diff --quiet; then echo "/repo has uncommitted changes"; exit 2; fi
git apply "$patch" || { echo "patch does not apply"; exit 2; }
cd /verif
./check "$prop" --tier "$tier" > /tmp/try_mutant.out 2>&1
rc=$?
git -C /repo checkout -- .
echo "check exit=$rc"
grep -E "^VIOLATION|^KNOWN-FINDING|^  sig=|HARNESS-ERROR|^C[0-9]+ " /tmp/try_mutant.out | head -12
# restore evidence of the unchanged tree is the caller's job (re-run the check)
exit $rc
