#!/bin/sh
# tools/confirm_seeded.sh <id> [<outdir>] : independently confirm a sub-agent's seeded change in a fresh
# scratch worktree: applies, builds, full ctest passes, demo fails with the change and passes without.
# Writes /tmp/mut_out/<id>/confirm.txt ; removes the worktree afterwards.
id="$1"; out="${2:-/tmp/mut_out/$id}"; wt="/tmp/cf_$id"
# NOMKDIR=1: the demo takes the path of a FILE it creates itself (do not pre-create a directory of that name)
mk() { [ -n "${NOMKDIR:-}" ] || mkdir -p "$1"; }
log="$out/confirm.txt"; : > "$log"
demo=$(ls "$out"/*_demo.c 2>/dev/null | head -1)
git -C /repo worktree remove --force "$wt" >/dev/null 2>&1; rm -rf "$wt"
git -C /repo worktree add --detach "$wt" HEAD -q || { echo "worktree failed" >> "$log"; exit 2; }
( cd "$wt" && git apply "$out/patch.diff" ) || { echo "APPLY: failed" >> "$log"; git -C /repo worktree remove --force "$wt"; exit 1; }
echo "APPLY: ok ($(git -C "$wt" diff --stat | tail -1))" >> "$log"
( cd "$wt" && cmake -G Ninja -DCMAKE_BUILD_TYPE=RelWithDebInfo -B _build -S . >/dev/null 2>&1 && cmake --build _build 2>&1 | tail -1 ) >> "$log" 2>&1
mkdir -p "$wt/_tmp"
( cd "$wt" && TEST_TMPDIR="$wt/_tmp" ctest --test-dir _build -j6 --timeout 900 2>&1 | grep -E "tests passed|FAILED|Failed|\*\*\*" ) >> "$log" 2>&1
# the t-db case hidden_values_are_removed is timing-sensitive (fails on a loaded machine on the pristine tree too):
# if db is the only failure, run it again on its own
if grep -q "tests failed out of 30" "$log" && ! grep -q "100% tests passed" "$log"; then
  for try in 1 2 3; do
    r=$( cd "$wt" && TEST_TMPDIR="$wt/_tmp" ctest --test-dir _build -R '^db$' --timeout 900 2>&1 | grep -E "tests passed" )
    echo "RERUN db alone ($try): $r" >> "$log"
    case "$r" in 100%*) break;; esac
  done
fi
if [ -n "$demo" ]; then
  cc -O1 -w -I"$wt/include" -I"$wt/src" "$demo" "$wt/_build/liblcdb.a" -lpthread -lm -o "$wt/demo_mut" >> "$log" 2>&1
  mk "$wt/_tmp/demo_db"; ( cd "$wt/_tmp" && timeout 300 "$wt/demo_mut" "$wt/_tmp/demo_db" > "$wt/demo_mut.out" 2>&1; echo "DEMO with change: exit=$? $(tail -1 "$wt/demo_mut.out" | cut -c1-120)" ) >> "$log"
  cc -O1 -w -I/repo/include -I/repo/src "$demo" /repo/_build/liblcdb.a -lpthread -lm -o "$wt/demo_ok" >> "$log" 2>&1
  rm -rf "$wt/_tmp2"; mkdir -p "$wt/_tmp2"
  mk "$wt/_tmp2/demo_db"; ( cd "$wt/_tmp2" && timeout 300 "$wt/demo_ok" "$wt/_tmp2/demo_db" > "$wt/demo_ok.out" 2>&1; echo "DEMO unchanged:   exit=$? $(tail -1 "$wt/demo_ok.out" | cut -c1-120)" ) >> "$log"
fi
git -C /repo worktree remove --force "$wt" >/dev/null 2>&1; rm -rf "$wt"
cat "$log"
