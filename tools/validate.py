#!/usr/bin/env python3
"""Validate MANIFEST.json and evidence/*.json against the given schemas (uses the tooling venv's jsonschema)."""
import json, glob, sys
import jsonschema
ok = True
jsonschema.validate(json.load(open('/verif/MANIFEST.json')), json.load(open('/root/.vp/MANIFEST.schema.json')))
es = json.load(open('/root/.vp/EVIDENCE.schema.json'))
for f in sorted(glob.glob('/verif/evidence/*.json')):
    try:
        jsonschema.validate(json.load(open(f)), es)
    except Exception as e:
        ok = False
        print("INVALID", f, str(e)[:300])
print("schemas ok" if ok else "schema errors")
sys.exit(0 if ok else 1)
