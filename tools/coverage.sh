#!/bin/sh
# tools/coverage.sh [tier] [ids...] : which lines of lcdb do the checks execute at all?
# Builds lcdb with gcov instrumentation (flavour "cov", own build directory), runs the checks with
# their output under /dev/shm (evidence in /verif is not touched), then prints per-file line coverage
# and the functions never entered.  A diagnostic for finding blind spots, not a registered check.
tier="${1:-quick}"; [ $# -gt 0 ] && shift
ids="${*:-C01 C02 C03 C04 C05 C06 C07 C08 C09 C10 C11 C12 C13 C14 C15 C16 C17 C18 C19 C20}"
cd "$(dirname "$0")/.."
export VERIF_COV=1 VERIF_FLAVOUR=cov VERIF_OUT=/dev/shm/cov_out
rm -rf "$VERIF_OUT"; mkdir -p "$VERIF_OUT"
d=$(python3 tools/vbuild.py cov | tail -1)
find "$d" -name '*.gcda' -delete
for p in $ids; do
  ./check $p --tier $tier > $VERIF_OUT/$p.out 2>&1
  echo "$p rc=$? $(grep -E "^C[0-9]+ $tier" $VERIF_OUT/$p.out | tail -1)"
done
mkdir -p $VERIF_OUT/gcov; cd $VERIF_OUT/gcov
for g in "$d"/l_*.gcda; do gcov -b -f -o "$d" "$g" > /dev/null 2>&1; gcov -f -o "$d" "$g" 2>/dev/null; done > $VERIF_OUT/gcov_summary.txt
python3 - "$VERIF_OUT" <<'PY'
import sys, re, glob, os
out = sys.argv[1]
txt = open(os.path.join(out, "gcov_summary.txt")).read()
cur = None
never = []
files = []
for m in re.finditer(r"(Function|File) '([^']+)'\nLines executed:([0-9.]+)% of (\d+)", txt):
    kind, name, pct, n = m.group(1), m.group(2), float(m.group(3)), int(m.group(4))
    if kind == "File":
        if "/src/" in name and name.endswith(".c"):
            files.append((pct, n, name))
    elif pct == 0.0:
        never.append(name)
print("== per-file line coverage of lcdb by the checks")
for pct, n, name in sorted(set(files)):
    print("%6.1f%% of %5d  %s" % (pct, n, name))
print("== functions never entered (%d)" % len(set(never)))
print(" ".join(sorted(set(never))))
PY
