#!/usr/bin/env python3
"""MANIFEST.setup_cmd: build lcdb (all flavours in use) and every registered driver from files on disk."""
import os, sys, time
sys.path.insert(0, os.path.dirname(os.path.abspath(__file__)))
import vbuild, props

t0 = time.time()
pairs = sorted({(s["driver"], s.get("flavour", "asan")) for sp in props.PROPS.values() for s in sp["stages"]})
for drv, fl in pairs:
    exe = vbuild.build_driver(drv, fl)
    print("built %-14s %-5s %s" % (drv, fl, exe))
print("setup done in %.1fs" % (time.time() - t0))
