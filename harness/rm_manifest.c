/* rm_manifest.c - see rm_manifest.h.  Independent of lcdb: includes no lcdb header. */
#include <stdio.h>
#include <stdlib.h>
#include <string.h>
#include "rm_manifest.h"

/* ------------------------------------------------------------------ */
/* helpers                                                            */
/* ------------------------------------------------------------------ */

static void *
rm_xrealloc(void *p, size_t n) {
  void *q = realloc(p, n ? n : 1);
  if (!q) {
    fprintf(stderr, "rm_manifest: out of memory\n");
    exit(2);
  }
  return q;
}

static void
rm_str_set(rm_str_t *s, const void *p, size_t n) {
  free(s->p);
  s->p = NULL;
  s->n = n;
  if (n) {
    s->p = rm_xrealloc(NULL, n);
    memcpy(s->p, p, n);
  }
}

static void
rm_str_free(rm_str_t *s) {
  free(s->p);
  s->p = NULL;
  s->n = 0;
}

static int
rm_str_eq(const rm_str_t *a, const rm_str_t *b) {
  return a->n == b->n && (a->n == 0 || memcmp(a->p, b->p, a->n) == 0);
}

static uint64_t
rm_h64(const void *p, size_t n, uint64_t seed) {
  const uint8_t *s = p;
  uint64_t h = 0xcbf29ce484222325ull ^ (seed * 0x9e3779b97f4a7c15ull);
  size_t i;
  for (i = 0; i < n; i++) {
    h ^= s[i];
    h *= 0x100000001b3ull;
  }
  h ^= h >> 29;
  h *= 0xbf58476d1ce4e5b9ull;
  h ^= h >> 32;
  return h;
}

static uint64_t
rm_mix(uint64_t a, uint64_t b) {
  a ^= b + 0x9e3779b97f4a7c15ull + (a << 6) + (a >> 2);
  a *= 0xff51afd7ed558ccdull;
  a ^= a >> 33;
  return a;
}

/* ------------------------------------------------------------------ */
/* varints                                                            */
/* ------------------------------------------------------------------ */

size_t
rm_varint64_len(uint64_t v) {
  size_t n = 1;
  while (v > 0x7f) {
    v >>= 7;
    n++;
  }
  return n;
}

size_t
rm_varint32_len(uint32_t v) {
  return rm_varint64_len(v);
}

size_t
rm_varint64_put(uint8_t *dst, uint64_t v) {
  size_t n = 0;
  for (;;) {
    uint8_t low = (uint8_t)(v & 0x7f);
    v >>= 7;
    if (v) {
      dst[n++] = (uint8_t)(low | 0x80);
    } else {
      dst[n++] = low;
      return n;
    }
  }
}

size_t
rm_varint32_put(uint8_t *dst, uint32_t v) {
  return rm_varint64_put(dst, v);
}

/* generic: at most maxbytes groups, result truncated to `bits` bits */
static size_t
rm_varint_get(const uint8_t *p, size_t n, uint64_t *v, unsigned maxbytes, unsigned bits) {
  uint64_t acc = 0;
  unsigned i;
  for (i = 0; i < maxbytes; i++) {
    unsigned sh = 7 * i;
    uint64_t g;
    if (i >= n)
      return 0; /* ran out of input before the terminating byte */
    g = p[i] & 0x7f;
    if (sh < 64)
      acc |= g << sh; /* bits beyond 64 fall off */
    if (!(p[i] & 0x80)) {
      if (bits < 64)
        acc &= ((uint64_t)1 << bits) - 1;
      *v = acc;
      return (size_t)i + 1;
    }
  }
  return 0; /* continuation bit still set on the last permitted byte */
}

size_t
rm_varint32_get(const uint8_t *p, size_t n, uint32_t *v) {
  uint64_t x = 0;
  size_t r = rm_varint_get(p, n, &x, 5, 32);
  if (r)
    *v = (uint32_t)x;
  return r;
}

size_t
rm_varint64_get(const uint8_t *p, size_t n, uint64_t *v) {
  return rm_varint_get(p, n, v, 10, 64);
}

/* ------------------------------------------------------------------ */
/* edit                                                               */
/* ------------------------------------------------------------------ */

void
rm_edit_init(rm_edit_t *e) {
  memset(e, 0, sizeof(*e));
}

void
rm_edit_free(rm_edit_t *e) {
  size_t i;
  rm_str_free(&e->comparator);
  for (i = 0; i < e->ncptrs; i++)
    rm_str_free(&e->cptrs[i].key);
  for (i = 0; i < e->nnews; i++) {
    rm_str_free(&e->news[i].smallest);
    rm_str_free(&e->news[i].largest);
  }
  free(e->cptrs);
  free(e->dels);
  free(e->news);
  memset(e, 0, sizeof(*e));
}

void
rm_edit_set_comparator(rm_edit_t *e, const void *p, size_t n) {
  e->has_comparator = 1;
  rm_str_set(&e->comparator, p, n);
}

void
rm_edit_add_cptr(rm_edit_t *e, uint32_t level, const void *k, size_t kn) {
  rm_cptr_t *c;
  if (e->ncptrs == e->cap_cptrs) {
    e->cap_cptrs = e->cap_cptrs ? e->cap_cptrs * 2 : 8;
    e->cptrs = rm_xrealloc(e->cptrs, e->cap_cptrs * sizeof(*e->cptrs));
  }
  c = &e->cptrs[e->ncptrs++];
  memset(c, 0, sizeof(*c));
  c->level = level;
  rm_str_set(&c->key, k, kn);
}

void
rm_edit_add_del(rm_edit_t *e, uint32_t level, uint64_t number) {
  if (e->ndels == e->cap_dels) {
    e->cap_dels = e->cap_dels ? e->cap_dels * 2 : 8;
    e->dels = rm_xrealloc(e->dels, e->cap_dels * sizeof(*e->dels));
  }
  e->dels[e->ndels].level = level;
  e->dels[e->ndels].number = number;
  e->ndels++;
}

void
rm_edit_add_new(rm_edit_t *e, uint32_t level, uint64_t number, uint64_t size,
                const void *sk, size_t skn, const void *lk, size_t lkn) {
  rm_newfile_t *f;
  if (e->nnews == e->cap_news) {
    e->cap_news = e->cap_news ? e->cap_news * 2 : 8;
    e->news = rm_xrealloc(e->news, e->cap_news * sizeof(*e->news));
  }
  f = &e->news[e->nnews++];
  memset(f, 0, sizeof(*f));
  f->level = level;
  f->number = number;
  f->size = size;
  rm_str_set(&f->smallest, sk, skn);
  rm_str_set(&f->largest, lk, lkn);
}

static int
rm_del_cmp(const void *a, const void *b) {
  const rm_delfile_t *x = a, *y = b;
  if (x->level != y->level)
    return x->level < y->level ? -1 : 1;
  if (x->number != y->number)
    return x->number < y->number ? -1 : 1;
  return 0;
}

void
rm_edit_canon_dels(rm_edit_t *e) {
  size_t i, w = 0;
  if (e->ndels < 2)
    return;
  qsort(e->dels, e->ndels, sizeof(*e->dels), rm_del_cmp);
  for (i = 0; i < e->ndels; i++)
    if (w == 0 || rm_del_cmp(&e->dels[w - 1], &e->dels[i]) != 0)
      e->dels[w++] = e->dels[i];
  e->ndels = w;
}

const char *
rm_strerror(int code) {
  switch (code) {
    case RM_OK: return "ok";
    case RM_E_TAG_VARINT: return "bad tag varint";
    case RM_E_UNKNOWN_TAG: return "unknown tag";
    case RM_E_TRUNCATED: return "truncated field";
    case RM_E_LEVEL: return "level out of range";
    case RM_E_SHORT_KEY: return "internal key shorter than 8 bytes";
  }
  return "?";
}

/* cursor */
typedef struct rm_cur_s {
  const uint8_t *p;
  size_t n;
} rm_cur_t;

static int
rm_take_v32(rm_cur_t *c, uint32_t *v) {
  size_t r = rm_varint32_get(c->p, c->n, v);
  if (!r)
    return 0;
  c->p += r;
  c->n -= r;
  return 1;
}

static int
rm_take_v64(rm_cur_t *c, uint64_t *v) {
  size_t r = rm_varint64_get(c->p, c->n, v);
  if (!r)
    return 0;
  c->p += r;
  c->n -= r;
  return 1;
}

static int
rm_take_lps(rm_cur_t *c, const uint8_t **s, size_t *sn) {
  uint32_t len;
  if (!rm_take_v32(c, &len))
    return 0;
  if ((size_t)len > c->n)
    return 0;
  *s = c->p;
  *sn = len;
  c->p += len;
  c->n -= len;
  return 1;
}

int
rm_edit_decode(rm_edit_t *e, const uint8_t *p, size_t n) {
  rm_cur_t c;
  c.p = p;
  c.n = n;
  rm_edit_init(e);
  while (c.n > 0) {
    uint32_t tag, level;
    uint64_t num, size;
    const uint8_t *s1, *s2;
    size_t n1, n2;
    if (!rm_take_v32(&c, &tag))
      return RM_E_TAG_VARINT;
    switch (tag) {
      case 1:
        if (!rm_take_lps(&c, &s1, &n1))
          return RM_E_TRUNCATED;
        rm_edit_set_comparator(e, s1, n1);
        break;
      case 2:
        if (!rm_take_v64(&c, &num))
          return RM_E_TRUNCATED;
        e->has_log_number = 1;
        e->log_number = num;
        break;
      case 9:
        if (!rm_take_v64(&c, &num))
          return RM_E_TRUNCATED;
        e->has_prev_log_number = 1;
        e->prev_log_number = num;
        break;
      case 3:
        if (!rm_take_v64(&c, &num))
          return RM_E_TRUNCATED;
        e->has_next_file = 1;
        e->next_file = num;
        break;
      case 4:
        if (!rm_take_v64(&c, &num))
          return RM_E_TRUNCATED;
        e->has_last_seq = 1;
        e->last_seq = num;
        break;
      case 5:
        if (!rm_take_v32(&c, &level))
          return RM_E_TRUNCATED;
        if (level >= RM_NUM_LEVELS)
          return RM_E_LEVEL;
        if (!rm_take_lps(&c, &s1, &n1))
          return RM_E_TRUNCATED;
        if (n1 < 8)
          return RM_E_SHORT_KEY;
        rm_edit_add_cptr(e, level, s1, n1);
        break;
      case 6:
        if (!rm_take_v32(&c, &level))
          return RM_E_TRUNCATED;
        if (level >= RM_NUM_LEVELS)
          return RM_E_LEVEL;
        if (!rm_take_v64(&c, &num))
          return RM_E_TRUNCATED;
        rm_edit_add_del(e, level, num);
        break;
      case 7:
        if (!rm_take_v32(&c, &level))
          return RM_E_TRUNCATED;
        if (level >= RM_NUM_LEVELS)
          return RM_E_LEVEL;
        if (!rm_take_v64(&c, &num))
          return RM_E_TRUNCATED;
        if (!rm_take_v64(&c, &size))
          return RM_E_TRUNCATED;
        if (!rm_take_lps(&c, &s1, &n1))
          return RM_E_TRUNCATED;
        if (!rm_take_lps(&c, &s2, &n2))
          return RM_E_TRUNCATED;
        if (n1 < 8 || n2 < 8)
          return RM_E_SHORT_KEY;
        rm_edit_add_new(e, level, num, size, s1, n1, s2, n2);
        break;
      default:
        return RM_E_UNKNOWN_TAG;
    }
  }
  return RM_OK;
}

/* growable output */
typedef struct rm_out_s {
  uint8_t *p;
  size_t n, cap;
} rm_out_t;

static void
rm_out_need(rm_out_t *o, size_t k) {
  if (o->n + k > o->cap) {
    size_t c = o->cap ? o->cap * 2 : 64;
    while (c < o->n + k)
      c *= 2;
    o->p = rm_xrealloc(o->p, c);
    o->cap = c;
  }
}

static void
rm_out_v64(rm_out_t *o, uint64_t v) {
  rm_out_need(o, 10);
  o->n += rm_varint64_put(o->p + o->n, v);
}

static void
rm_out_lps(rm_out_t *o, const rm_str_t *s) {
  rm_out_v64(o, (uint32_t)s->n);
  rm_out_need(o, s->n);
  if (s->n)
    memcpy(o->p + o->n, s->p, s->n);
  o->n += s->n;
}

uint8_t *
rm_edit_encode(const rm_edit_t *e, size_t *n) {
  rm_out_t o;
  size_t i;
  size_t est = 64 + e->comparator.n;
  memset(&o, 0, sizeof(o));
  /* one allocation of the right order of magnitude instead of repeated doubling */
  for (i = 0; i < e->ncptrs; i++)
    est += 12 + e->cptrs[i].key.n;
  est += 16 * e->ndels;
  for (i = 0; i < e->nnews; i++)
    est += 36 + e->news[i].smallest.n + e->news[i].largest.n;
  rm_out_need(&o, est);
  if (e->has_comparator) {
    rm_out_v64(&o, 1);
    rm_out_lps(&o, &e->comparator);
  }
  if (e->has_log_number) {
    rm_out_v64(&o, 2);
    rm_out_v64(&o, e->log_number);
  }
  if (e->has_prev_log_number) {
    rm_out_v64(&o, 9);
    rm_out_v64(&o, e->prev_log_number);
  }
  if (e->has_next_file) {
    rm_out_v64(&o, 3);
    rm_out_v64(&o, e->next_file);
  }
  if (e->has_last_seq) {
    rm_out_v64(&o, 4);
    rm_out_v64(&o, e->last_seq);
  }
  for (i = 0; i < e->ncptrs; i++) {
    rm_out_v64(&o, 5);
    rm_out_v64(&o, e->cptrs[i].level);
    rm_out_lps(&o, &e->cptrs[i].key);
  }
  for (i = 0; i < e->ndels; i++) {
    rm_out_v64(&o, 6);
    rm_out_v64(&o, e->dels[i].level);
    rm_out_v64(&o, e->dels[i].number);
  }
  for (i = 0; i < e->nnews; i++) {
    rm_out_v64(&o, 7);
    rm_out_v64(&o, e->news[i].level);
    rm_out_v64(&o, e->news[i].number);
    rm_out_v64(&o, e->news[i].size);
    rm_out_lps(&o, &e->news[i].smallest);
    rm_out_lps(&o, &e->news[i].largest);
  }
  *n = o.n;
  return o.p;
}

#define RM_WHY(...) do { if (why && whylen) snprintf(why, whylen, __VA_ARGS__); return 0; } while (0)

int
rm_edit_equal(const rm_edit_t *a, const rm_edit_t *b, char *why, size_t whylen) {
  size_t i;
  if (a->has_comparator != b->has_comparator || a->has_log_number != b->has_log_number ||
      a->has_prev_log_number != b->has_prev_log_number || a->has_next_file != b->has_next_file ||
      a->has_last_seq != b->has_last_seq)
    RM_WHY("presence flags differ: %d%d%d%d%d vs %d%d%d%d%d", a->has_comparator, a->has_log_number,
           a->has_prev_log_number, a->has_next_file, a->has_last_seq, b->has_comparator, b->has_log_number,
           b->has_prev_log_number, b->has_next_file, b->has_last_seq);
  if (a->has_comparator && !rm_str_eq(&a->comparator, &b->comparator))
    RM_WHY("comparator differs (len %zu vs %zu)", a->comparator.n, b->comparator.n);
  if (a->has_log_number && a->log_number != b->log_number)
    RM_WHY("log number %llu vs %llu", (unsigned long long)a->log_number, (unsigned long long)b->log_number);
  if (a->has_prev_log_number && a->prev_log_number != b->prev_log_number)
    RM_WHY("prev log number %llu vs %llu", (unsigned long long)a->prev_log_number,
           (unsigned long long)b->prev_log_number);
  if (a->has_next_file && a->next_file != b->next_file)
    RM_WHY("next file %llu vs %llu", (unsigned long long)a->next_file, (unsigned long long)b->next_file);
  if (a->has_last_seq && a->last_seq != b->last_seq)
    RM_WHY("last sequence %llu vs %llu", (unsigned long long)a->last_seq, (unsigned long long)b->last_seq);
  if (a->ncptrs != b->ncptrs)
    RM_WHY("compact pointer count %zu vs %zu", a->ncptrs, b->ncptrs);
  for (i = 0; i < a->ncptrs; i++)
    if (a->cptrs[i].level != b->cptrs[i].level || !rm_str_eq(&a->cptrs[i].key, &b->cptrs[i].key))
      RM_WHY("compact pointer %zu differs (level %u vs %u, key len %zu vs %zu)", i, a->cptrs[i].level,
             b->cptrs[i].level, a->cptrs[i].key.n, b->cptrs[i].key.n);
  if (a->ndels != b->ndels)
    RM_WHY("deleted file count %zu vs %zu", a->ndels, b->ndels);
  for (i = 0; i < a->ndels; i++)
    if (a->dels[i].level != b->dels[i].level || a->dels[i].number != b->dels[i].number)
      RM_WHY("deleted file %zu differs: (%u,%llu) vs (%u,%llu)", i, a->dels[i].level,
             (unsigned long long)a->dels[i].number, b->dels[i].level, (unsigned long long)b->dels[i].number);
  if (a->nnews != b->nnews)
    RM_WHY("new file count %zu vs %zu", a->nnews, b->nnews);
  for (i = 0; i < a->nnews; i++) {
    const rm_newfile_t *x = &a->news[i], *y = &b->news[i];
    if (x->level != y->level || x->number != y->number || x->size != y->size ||
        !rm_str_eq(&x->smallest, &y->smallest) || !rm_str_eq(&x->largest, &y->largest))
      RM_WHY("new file %zu differs: (L%u #%llu size %llu klen %zu/%zu) vs (L%u #%llu size %llu klen %zu/%zu)", i,
             x->level, (unsigned long long)x->number, (unsigned long long)x->size, x->smallest.n, x->largest.n,
             y->level, (unsigned long long)y->number, (unsigned long long)y->size, y->smallest.n, y->largest.n);
  }
  return 1;
}

/* ------------------------------------------------------------------ */
/* fold                                                               */
/* ------------------------------------------------------------------ */

void
rm_state_init(rm_state_t *s) {
  memset(s, 0, sizeof(*s));
}

static void
rm_file_free(rm_newfile_t *f) {
  rm_str_free(&f->smallest);
  rm_str_free(&f->largest);
}

void
rm_state_free(rm_state_t *s) {
  int l;
  size_t i;
  rm_str_free(&s->comparator);
  for (l = 0; l < RM_NUM_LEVELS; l++) {
    for (i = 0; i < s->levels[l].nfiles; i++)
      rm_file_free(&s->levels[l].files[i]);
    free(s->levels[l].files);
    rm_str_free(&s->levels[l].cptr);
  }
  memset(s, 0, sizeof(*s));
}

/* index of the first file with number >= num */
static size_t
rm_level_lower(const rm_level_t *lv, uint64_t num) {
  size_t lo = 0, hi = lv->nfiles;
  while (lo < hi) {
    size_t mid = lo + (hi - lo) / 2;
    if (lv->files[mid].number < num)
      lo = mid + 1;
    else
      hi = mid;
  }
  return lo;
}

static int
rm_level_remove(rm_level_t *lv, uint64_t num) {
  size_t i = rm_level_lower(lv, num);
  int removed = 0;
  while (i < lv->nfiles && lv->files[i].number == num) {
    rm_file_free(&lv->files[i]);
    memmove(&lv->files[i], &lv->files[i + 1], (lv->nfiles - i - 1) * sizeof(*lv->files));
    lv->nfiles--;
    removed = 1;
  }
  return removed;
}

static void
rm_level_insert(rm_state_t *s, rm_level_t *lv, const rm_newfile_t *f) {
  size_t i = rm_level_lower(lv, f->number);
  rm_newfile_t *d;
  if (i < lv->nfiles && lv->files[i].number == f->number) {
    /* same (level, number) added again: the later description wins */
    s->dup_adds++;
    rm_file_free(&lv->files[i]);
    memset(&lv->files[i], 0, sizeof(*d));
  } else {
    if (lv->nfiles == lv->cap) {
      lv->cap = lv->cap ? lv->cap * 2 : 8;
      lv->files = rm_xrealloc(lv->files, lv->cap * sizeof(*lv->files));
    }
    memmove(&lv->files[i + 1], &lv->files[i], (lv->nfiles - i) * sizeof(*lv->files));
    lv->nfiles++;
    memset(&lv->files[i], 0, sizeof(*d));
  }
  d = &lv->files[i];
  d->level = f->level;
  d->number = f->number;
  d->size = f->size;
  rm_str_set(&d->smallest, f->smallest.p, f->smallest.n);
  rm_str_set(&d->largest, f->largest.p, f->largest.n);
}

void
rm_state_apply(rm_state_t *s, const rm_edit_t *e) {
  size_t i;
  if (e->has_comparator) {
    s->has_comparator = 1;
    rm_str_set(&s->comparator, e->comparator.p, e->comparator.n);
  }
  if (e->has_log_number) {
    s->has_log_number = 1;
    s->log_number = e->log_number;
  }
  if (e->has_prev_log_number) {
    s->has_prev_log_number = 1;
    s->prev_log_number = e->prev_log_number;
  }
  if (e->has_next_file) {
    s->has_next_file = 1;
    s->next_file = e->next_file;
  }
  if (e->has_last_seq) {
    s->has_last_seq = 1;
    s->last_seq = e->last_seq;
  }
  for (i = 0; i < e->ncptrs; i++) {
    rm_level_t *lv;
    if (e->cptrs[i].level >= RM_NUM_LEVELS)
      continue;
    lv = &s->levels[e->cptrs[i].level];
    lv->has_cptr = 1;
    rm_str_set(&lv->cptr, e->cptrs[i].key.p, e->cptrs[i].key.n);
  }
  for (i = 0; i < e->ndels; i++) {
    if (e->dels[i].level >= RM_NUM_LEVELS)
      continue;
    if (!rm_level_remove(&s->levels[e->dels[i].level], e->dels[i].number))
      s->dels_of_absent++;
  }
  for (i = 0; i < e->nnews; i++) {
    if (e->news[i].level >= RM_NUM_LEVELS)
      continue;
    rm_level_insert(s, &s->levels[e->news[i].level], &e->news[i]);
  }
  s->edits_applied++;
}

int
rm_state_replay(rm_state_t *s, const uint8_t *const *records, const size_t *lens, size_t nrecords, size_t *bad) {
  size_t i;
  for (i = 0; i < nrecords; i++) {
    rm_edit_t e;
    int rc = rm_edit_decode(&e, records[i], lens[i]);
    if (rc != RM_OK) {
      rm_edit_free(&e);
      if (bad)
        *bad = i;
      return rc;
    }
    rm_state_apply(s, &e);
    rm_edit_free(&e);
  }
  return RM_OK;
}

size_t
rm_state_total_files(const rm_state_t *s) {
  size_t n = 0;
  int l;
  for (l = 0; l < RM_NUM_LEVELS; l++)
    n += s->levels[l].nfiles;
  return n;
}

uint64_t
rm_state_hash(const rm_state_t *s) {
  uint64_t h = 0x1234567;
  int l;
  size_t i;
  h = rm_mix(h, (uint64_t)(s->has_comparator | s->has_log_number << 1 | s->has_prev_log_number << 2 |
                           s->has_next_file << 3 | s->has_last_seq << 4));
  if (s->has_comparator)
    h = rm_mix(h, rm_h64(s->comparator.p, s->comparator.n, 1));
  if (s->has_log_number)
    h = rm_mix(h, s->log_number);
  if (s->has_prev_log_number)
    h = rm_mix(h, s->prev_log_number ^ 0x55);
  if (s->has_next_file)
    h = rm_mix(h, s->next_file ^ 0x77);
  if (s->has_last_seq)
    h = rm_mix(h, s->last_seq ^ 0x99);
  for (l = 0; l < RM_NUM_LEVELS; l++) {
    const rm_level_t *lv = &s->levels[l];
    h = rm_mix(h, (uint64_t)l << 32 | lv->nfiles);
    if (lv->has_cptr)
      h = rm_mix(h, rm_h64(lv->cptr.p, lv->cptr.n, 2));
    for (i = 0; i < lv->nfiles; i++) {
      h = rm_mix(h, lv->files[i].number);
      h = rm_mix(h, lv->files[i].size);
      h = rm_mix(h, rm_h64(lv->files[i].smallest.p, lv->files[i].smallest.n, 3));
      h = rm_mix(h, rm_h64(lv->files[i].largest.p, lv->files[i].largest.n, 4));
    }
  }
  return h;
}

int
rm_state_equal(const rm_state_t *a, const rm_state_t *b) {
  int l;
  size_t i;
  if (a->has_comparator != b->has_comparator || a->has_log_number != b->has_log_number ||
      a->has_prev_log_number != b->has_prev_log_number || a->has_next_file != b->has_next_file ||
      a->has_last_seq != b->has_last_seq)
    return 0;
  if (a->has_comparator && !rm_str_eq(&a->comparator, &b->comparator))
    return 0;
  if ((a->has_log_number && a->log_number != b->log_number) ||
      (a->has_prev_log_number && a->prev_log_number != b->prev_log_number) ||
      (a->has_next_file && a->next_file != b->next_file) || (a->has_last_seq && a->last_seq != b->last_seq))
    return 0;
  for (l = 0; l < RM_NUM_LEVELS; l++) {
    const rm_level_t *x = &a->levels[l], *y = &b->levels[l];
    if (x->nfiles != y->nfiles || x->has_cptr != y->has_cptr)
      return 0;
    if (x->has_cptr && !rm_str_eq(&x->cptr, &y->cptr))
      return 0;
    for (i = 0; i < x->nfiles; i++)
      if (x->files[i].number != y->files[i].number || x->files[i].size != y->files[i].size ||
          !rm_str_eq(&x->files[i].smallest, &y->files[i].smallest) ||
          !rm_str_eq(&x->files[i].largest, &y->files[i].largest))
        return 0;
  }
  return 1;
}
