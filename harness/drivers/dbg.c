/* VH_LINK: kv
 * dbg.c - scratch driver for ad-hoc questions (not registered) */
#include <stdlib.h>
#include <string.h>
#include "kv.h"
static kcfg_t cfg;
static const char *hist;
static void body(void *arg) {
  khist_t h; kop_t ops[32]; int n, i; char *v;
  (void)arg;
  kh_init(&h, &cfg, "/vfs/db");
  kh_open(&h);
  n = khist_parse(ops, 32, hist);
  for (i = 0; i < n; i++) {
    kh_apply(&h, &ops[i]);
    ldb_property(h.db, "leveldb.approximate-memory-usage", &v);
    printf("after op %d: mem=%s journal=%d\n", i, v, vfs_jlen(vfs_cur)); ldb_free(v);
  }
  ldb_property(h.db, "leveldb.sstables", &v); printf("%s\n", v); ldb_free(v);
  kh_clear(&h);
}
int main(int argc, char **argv) {
  sch_cfg_t sc; vfs_t *v = vfs_new();
  drv_init(argc, argv);
  kcfg_parse(&cfg, drv_opt("cfg", "B1"));
  kv_set_universe((int)drv_opt_long("universe", 4));
  hist = drv_opt("history", "P0.2 P1.2 P0.2 P1.2");
  memset(&sc, 0, sizeof(sc)); vfs_use(v);
  printf("status %d\n", sch_run(body, NULL, &sc));
  vfs_dump_journal(v, stdout, 0, 200);
  return 0;
}
