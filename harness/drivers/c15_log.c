/* c15_log.c - C15 "Write-ahead-log framing is exact, standard and torn-tail
 * tolerant": bounded exhaustive enumeration (E5) of record-length sequences,
 * start offsets, truncation offsets and byte alterations through the REAL
 * lcdb log writer/reader, compared with the independent reference codec
 * (harness/ref_codecs.c), plus CRC-32C against the bitwise definition.
 *
 * Sub-domains (each case has a global index; shard i runs index % n == i):
 *   crc    len 0..4096 x alignment 0..15 x 3 fills x {before, after ldb_crc32c_init}
 *   w1     one record: every length 0..98320 x start offsets {0..16, 32752..32767}
 *   wo     every start offset 0..32767 x lengths {0,1,7,8,32761,32768}
 *   seq    all sequences of <= 4 records over {0,1,32754..32762,65521..65529}
 *   trunc  every cut offset of 12 representative files
 *   alt    every byte offset of those files x 6 alterations
 */
#include "drv.h"
#include "ref.h"

#include "util/buffer.h"
#include "util/crc32c.h"
#include "util/env.h"
#include "util/slice.h"
#include "util/status.h"
#include "log_format.h"
#include "log_reader.h"
#include "log_writer.h"

#define MAXLEN 98320u /* 3*32768+16 */
#define LOGPATH "/vfs/L"
#define NEWPATH "/vfs/N"

/* Page faults are very expensive on the verification machine: keep the ASan
 * quarantine small so that freed chunks are recycled instead of fresh pages
 * being touched, and never hand memory back to the kernel.  (Options named in
 * ASAN_OPTIONS still win.) */
const char *__asan_default_options(void);
const char *
__asan_default_options(void) {
  return "quarantine_size_mb=2:thread_local_quarantine_size_kb=64:allocator_release_to_os_interval_ms=-1:malloc_context_size=6";
}

/* ------------------------------------------------------------------ */
/* counters                                                           */
/* ------------------------------------------------------------------ */

static uint64_t g_idx;          /* global case index */
static uint64_t n_eval, n_crc, n_w1, n_wo, n_seq, n_trunc, n_alt, n_roundtrip;
static uint64_t n_alt_noop, n_alt_trailer, n_alt_silent_eof, n_alt_silent_zero, n_alt_reported;
static uint64_t n_bytes_written;
static int stopped;             /* deadline hit */
static int crc_accel = -1;

static uint8_t *pat;            /* pattern pool: records are slices of it */
#define PATSZ (MAXLEN + 4096)

typedef struct fail_s {
  char sig[64];
  char detail[600];
} fail_t;

#define FAIL(f, s, ...) do { snprintf((f)->sig, sizeof((f)->sig), "%s", s); \
  snprintf((f)->detail, sizeof((f)->detail), __VA_ARGS__); return 1; } while (0)

/* ------------------------------------------------------------------ */
/* lcdb reader over a VFS file                                        */
/* ------------------------------------------------------------------ */

typedef struct myrep_s {
  ldb_reporter_t base;
  size_t count;
  size_t bytes;
} myrep_t;

static void
on_corruption(ldb_reporter_t *r, size_t bytes, int status) {
  myrep_t *m = (myrep_t *)r;
  (void)status;
  m->count++;
  m->bytes += bytes;
}

/* read every record of a VFS file with lcdb's reader; returns drop reports */
static size_t
lcdb_read_path(const char *path, ref_reclist_t *out) {
  ldb_rfile_t *rf = NULL;
  ldb_reader_t lr;
  myrep_t rep;
  ldb_slice_t rec;
  static ldb_buffer_t scratch; /* kept across cases: no large reallocation per case */
  static int scratch_ready;
  long guard = 0;
  int rc = ldb_seqfile_create(path, &rf);
  if (rc != LDB_OK)
    vh_die("seqfile_create: %d", rc);
  memset(&rep, 0, sizeof(rep));
  rep.base.corruption = on_corruption;
  ref_reclist_reset(out);
  if (!scratch_ready) {
    ldb_buffer_init(&scratch);
    ldb_buffer_grow(&scratch, 300000);
    scratch_ready = 1;
  }
  ldb_reader_init(&lr, rf, &rep.base, 1, 0);
  while (ldb_reader_read_record(&lr, &rec, &scratch)) {
    ref_reclist_add(out, rec.data, rec.size);
    if (++guard > 1000000)
      vh_die("reader does not terminate");
  }
  ldb_reader_clear(&lr);
  ldb_rfile_destroy(rf);
  return rep.count;
}

static size_t
lcdb_read_log(ref_reclist_t *out) {
  return lcdb_read_path(LOGPATH, out);
}

static int
reclist_equal(const ref_reclist_t *a, const ref_reclist_t *b) {
  size_t i;
  if (a->n != b->n)
    return 0;
  for (i = 0; i < a->n; i++)
    if (a->len[i] != b->len[i] || (a->len[i] && memcmp(a->data.p + a->off[i], b->data.p + b->off[i], a->len[i]) != 0))
      return 0;
  return 1;
}

/* is `small` a subsequence of `big` (records compared by content) */
static int
reclist_subseq(const ref_reclist_t *small, const ref_reclist_t *big) {
  size_t i, j = 0;
  for (i = 0; i < small->n; i++) {
    for (; j < big->n; j++)
      if (small->len[i] == big->len[j] &&
          (small->len[i] == 0 || memcmp(small->data.p + small->off[i], big->data.p + big->off[j], small->len[i]) == 0))
        break;
    if (j == big->n)
      return 0;
    j++;
  }
  return 1;
}

static void
describe_lens(const ref_reclist_t *r, char *buf, size_t n) {
  size_t i, p = 0;
  p += (size_t)snprintf(buf + p, n - p, "%zu recs [", r->n);
  for (i = 0; i < r->n && i < 12 && p + 24 < n; i++)
    p += (size_t)snprintf(buf + p, n - p, "%s%zu", i ? "," : "", r->len[i]);
  snprintf(buf + p, n - p, "%s]", i < r->n ? ",..." : "");
}

/* ------------------------------------------------------------------ */
/* writer cases                                                       */
/* ------------------------------------------------------------------ */

typedef struct wcase_s {
  size_t start;
  int nrec;
  size_t len[4];
} wcase_t;

static ref_buf_t w_ref, w_pre;
static ref_reclist_t w_expect, w_got, w_refgot;
static ref_layout_t w_lay;

static const uint8_t *
rec_ptr(const wcase_t *c, int i) {
  return pat + ((c->start * 3 + (size_t)i * 131 + c->len[i] * 7) % 3001);
}

/* One VFS whose log file inode is recycled across cases (its buffer is big
 * enough for any case, so the VFS never reallocates); rebuilt now and then to
 * bound the journal.  Files created from scratch (O_TRUNC path) use NEWPATH. */
#define WV_CAP 400000u
static vfs_t *wv;
static vinode_t *wnode;
static int wv_uses;
static uint8_t *wv_zero;

static void
wv_get(void) {
  if (wv && wv_uses < 400) {
    wv_uses++;
    vfs_use(wv);
    return;
  }
  if (wv)
    vfs_free(wv);
  if (!wv_zero)
    wv_zero = calloc(1, WV_CAP);
  wv = vfs_new();
  vfs_use(wv);
  vfs_put_file(wv, LOGPATH, wv_zero, WV_CAP);
  wnode = (vinode_t *)vfs_inode(wv, vfs_lookup(wv, LOGPATH));
  wv_uses = 1;
}

static int
run_wcase(const wcase_t *c, fail_t *f, uint64_t *shape) {
  const uint8_t *recs[4];
  ldb_writer_t lw;
  static ldb_buffer_t dst; /* lcdb's memory sink, kept across cases */
  static int dst_ready;
  ldb_wfile_t *wf = NULL;
  ldb_writer_t *lwp;
  ldb_slice_t s;
  const vinode_t *node;
  size_t drops;
  int i, rc, fresh;
  const char *path;
  uint64_t h = 1469598103934665603ull;

  for (i = 0; i < c->nrec; i++)
    recs[i] = rec_ptr(c, i);

  /* reference bytes */
  ref_buf_reset(&w_ref);
  w_lay.n = 0;
  ref_log_encode(&w_ref, c->start, recs, c->len, (size_t)c->nrec, &w_lay);
  for (i = 0; i < (int)w_lay.n; i++)
    h = vh_mix(h, (uint64_t)w_lay.f[i].type * 8 + (uint64_t)(w_lay.f[i].len == 0) * 2 +
                    (uint64_t)(w_lay.f[i].off % REF_LOG_BLOCK == 0));
  if (shape)
    *shape = h;
  if (c->start + w_ref.n > WV_CAP)
    vh_die("case larger than the recycled file buffer");

  /* 1. lcdb writer into its in-memory sink */
  if (!dst_ready) {
    ldb_buffer_init(&dst);
    ldb_buffer_grow(&dst, WV_CAP);
    dst_ready = 1;
  }
  ldb_buffer_reset(&dst);
  ldb_writer_init(&lw, NULL, c->start);
  lw.dst = &dst;
  for (i = 0; i < c->nrec; i++) {
    s = ldb_slice(recs[i], c->len[i]);
    rc = ldb_writer_add_record(&lw, &s);
    if (rc != LDB_OK)
      FAIL(f, "writer_status", "add_record (memory sink) returned %d", rc);
  }
  if (dst.size != w_ref.n || (dst.size && memcmp(dst.data, w_ref.p, dst.size) != 0)) {
    size_t k = 0, m = dst.size < w_ref.n ? dst.size : w_ref.n;
    while (k < m && dst.data[k] == w_ref.p[k])
      k++;
    FAIL(f, "writer_bytes_mem", "memory sink: lcdb wrote %zu bytes, reference %zu; first difference at appended byte %zu",
         (size_t)dst.size, w_ref.n, k);
  }

  /* 2. the same through a real file on the VFS.  start > 0 = log reuse: the file
   * already holds `start` bytes and is opened for append.  New small files go
   * through the create/truncate path like a fresh log; larger new files reuse
   * the recycled inode in append mode (identical for the log writer, which only
   * appends and flushes). */
  ref_buf_reset(&w_pre);
  if (c->start >= REF_LOG_HEADER) {
    const uint8_t *pr = pat + 5;
    size_t pl = c->start - REF_LOG_HEADER;
    ref_log_encode(&w_pre, 0, &pr, &pl, 1, NULL);
    if (w_pre.n != c->start)
      vh_die("prefix construction: %zu != %zu", w_pre.n, c->start);
  } else {
    ref_buf_fill(&w_pre, 0xAA, c->start);
  }
  wv_get();
  fresh = (c->start == 0 && w_ref.n <= 2048);
  path = fresh ? NEWPATH : LOGPATH;
  if (fresh) {
    rc = ldb_truncfile_create(path, &wf);
  } else {
    if (c->start)
      memcpy(wnode->data, w_pre.p, c->start);
    wnode->len = c->start;
    rc = ldb_appendfile_create(path, &wf);
  }
  if (rc != LDB_OK)
    vh_die("create log file: %d", rc);
  lwp = ldb_writer_create(wf, c->start);
  for (i = 0; i < c->nrec; i++) {
    s = ldb_slice(recs[i], c->len[i]);
    rc = ldb_writer_add_record(lwp, &s);
    if (rc != LDB_OK)
      break;
  }
  if (rc == LDB_OK)
    rc = ldb_wfile_close(wf);
  ldb_wfile_destroy(wf);
  ldb_writer_destroy(lwp);
  if (rc != LDB_OK)
    FAIL(f, "writer_status", "add_record/close (file) returned %d", rc);
  node = vfs_inode(wv, vfs_lookup(wv, path));
  if (!node)
    vh_die("log file vanished");
  if (node->len != c->start + w_ref.n || (c->start && memcmp(node->data, w_pre.p, c->start) != 0) ||
      (w_ref.n && memcmp(node->data + c->start, w_ref.p, w_ref.n) != 0)) {
    size_t k = 0, m = node->len < c->start + w_ref.n ? node->len : c->start + w_ref.n;
    while (k < m && node->data[k] == (k < c->start ? w_pre.p[k] : w_ref.p[k - c->start]))
      k++;
    FAIL(f, "writer_bytes_file", "file: %zu bytes, reference %zu; first difference at file offset %zu", node->len,
         c->start + w_ref.n, k);
  }
  n_bytes_written += w_ref.n;

  /* 3. read back: lcdb reader and reference decoder (needs a decodable prefix) */
  if (c->start == 0 || c->start >= REF_LOG_HEADER) {
    char a[200], b[200];
    ref_reclist_reset(&w_expect);
    if (c->start)
      ref_reclist_add(&w_expect, pat + 5, c->start - REF_LOG_HEADER);
    for (i = 0; i < c->nrec; i++)
      ref_reclist_add(&w_expect, recs[i], c->len[i]);
    drops = lcdb_read_path(path, &w_got);
    n_roundtrip++;
    if (!reclist_equal(&w_got, &w_expect) || drops != 0) {
      describe_lens(&w_got, a, sizeof(a));
      describe_lens(&w_expect, b, sizeof(b));
      FAIL(f, drops ? "roundtrip_drop" : "roundtrip_records", "lcdb reader returned %s with %zu drop reports; written %s", a,
           drops, b);
    }
    drops = ref_log_decode(node->data, node->len, 0, &w_refgot);
    if (!reclist_equal(&w_refgot, &w_expect) || drops != 0) {
      describe_lens(&w_refgot, a, sizeof(a));
      describe_lens(&w_expect, b, sizeof(b));
      FAIL(f, "refdecode_of_lcdb_bytes", "reference decoder on lcdb's file: %s, %zu drops; written %s", a, drops, b);
    }
  }
  return 0;
}

static void
wcase_json(const wcase_t *c, const char *k, char *buf, size_t n) {
  snprintf(buf, n, "{\"k\":\"%s\",\"start\":%zu,\"n\":%d,\"l0\":%zu,\"l1\":%zu,\"l2\":%zu,\"l3\":%zu}", k, c->start,
           c->nrec, c->len[0], c->len[1], c->len[2], c->len[3]);
}

static int n_wsamples;

static void
do_wcase(const wcase_t *c, const char *kind) {
  fail_t f, f2;
  char js[200];
  uint64_t shape = 0;
  wcase_json(c, kind, js, sizeof(js));
  drv_case("%s", js);
  n_eval++;
  if (run_wcase(c, &f, &shape)) {
    if (!run_wcase(c, &f2, NULL))
      vh_die("violation did not reproduce: %s %s", f.sig, js);
    drv_viol(f.sig, f.detail, js);
  }
  drv_set("frag_shapes", shape);
  if (n_wsamples < 2 && c->len[0] > 32000 && (g_idx % 7) == 3) {
    char sj[400];
    n_wsamples++;
    snprintf(sj, sizeof(sj), "{\"case\":%s,\"appended_bytes\":%zu,\"fragments\":%zu,\"read_back\":\"identical, 0 drops\"}", js,
             w_ref.n, w_lay.n);
    drv_sample(sj);
  }
}

/* ------------------------------------------------------------------ */
/* CRC cases                                                          */
/* ------------------------------------------------------------------ */

static uint8_t *crc_area; /* 64-aligned, 3 fills x (4096+16+pad) */
#define CRC_STRIDE 4224

static int
run_crc(int len, int al, int fill, fail_t *f) {
  const uint8_t *p = crc_area + (size_t)fill * CRC_STRIDE + al;
  uint32_t want = ref_crc32c_bitwise(0, p, (size_t)len);
  uint32_t got = ldb_crc32c_value(p, (size_t)len);
  size_t k = (size_t)len / 3;
  uint32_t part, ext;
  if (ref_crc32c(0, p, (size_t)len) != want)
    vh_die("reference table CRC disagrees with the bitwise definition (len %d)", len);
  if (got != want)
    FAIL(f, "crc_value", "ldb_crc32c_value = %08x, bitwise reference %08x", got, want);
  part = ldb_crc32c_value(p, k);
  ext = ldb_crc32c_extend(part, p + k, (size_t)len - k);
  if (ext != want)
    FAIL(f, "crc_extend", "extend(value(first %zu), rest) = %08x, reference %08x", k, ext, want);
  if (ldb_crc32c_mask(want) != ref_crc_mask(want))
    FAIL(f, "crc_mask", "mask(%08x) = %08x, reference %08x", want, ldb_crc32c_mask(want), ref_crc_mask(want));
  if (ldb_crc32c_unmask(ref_crc_mask(want)) != want || ldb_crc32c_unmask(ldb_crc32c_mask(want)) != want)
    FAIL(f, "crc_unmask", "unmask(mask(%08x)) = %08x", want, ldb_crc32c_unmask(ldb_crc32c_mask(want)));
  return 0;
}

static void
crc_domain(int phase) {
  int len, al, fill;
  for (len = 0; len <= 4096 && !stopped; len++) {
    for (al = 0; al < 16; al++)
      for (fill = 0; fill < 3; fill++) {
        uint64_t idx = g_idx++;
        fail_t f, f2;
        char js[160];
        if (!drv_mine(idx))
          continue;
        snprintf(js, sizeof(js), "{\"k\":\"crc\",\"len\":%d,\"al\":%d,\"fill\":%d,\"phase\":%d}", len, al, fill, phase);
        drv_case("%s", js);
        n_eval++;
        n_crc++;
        if (run_crc(len, al, fill, &f)) {
          if (!run_crc(len, al, fill, &f2))
            vh_die("violation did not reproduce: %s", js);
          drv_viol(f.sig, f.detail, js);
        }
      }
    if ((len & 255) == 0 && drv_deadline_hit())
      stopped = 1;
  }
}

/* ------------------------------------------------------------------ */
/* representative files for cuts and alterations                      */
/* ------------------------------------------------------------------ */

#define NFILES 12

typedef struct rfile_s {
  const char *name;
  ref_buf_t bytes;
  ref_layout_t lay;
  ref_reclist_t recs;
  size_t *rec_end;   /* file offset one past the last byte of record i */
  size_t *rec_begin; /* file offset of the first header of record i */
} rfile_t;

static rfile_t files[NFILES];

static void
build_file(int fi, const char *name, const size_t *lens, size_t nrec, int embed) {
  rfile_t *F = &files[fi];
  const uint8_t **ptrs = calloc(nrec + 1, sizeof(*ptrs));
  size_t i;
  ref_buf_t ghost;
  F->name = name;
  ref_buf_init(&F->bytes);
  ref_layout_init(&F->lay);
  ref_reclist_init(&F->recs);
  ref_buf_init(&ghost);
  for (i = 0; i < nrec; i++) {
    if (embed) {
      /* payload = a chain of perfectly valid encoded physical records of
       * "ghost" records that are never written at top level */
      ref_buf_reset(&ghost);
      while (ghost.n < lens[i]) {
        const uint8_t *gp = pat + 2000 + (ghost.n * 7 + i * 977) % 1500;
        size_t gl = 20 + (ghost.n + i * 13) % 180;
        ref_log_encode(&ghost, 0, &gp, &gl, 1, NULL);
      }
      ref_reclist_add(&F->recs, ghost.p, lens[i]);
    } else {
      ref_reclist_add(&F->recs, pat + (i * 257 + (size_t)fi * 31) % 2999, lens[i]);
    }
  }
  for (i = 0; i < nrec; i++)
    ptrs[i] = F->recs.data.p + F->recs.off[i];
  ref_log_encode(&F->bytes, 0, ptrs, F->recs.len, nrec, &F->lay);
  F->rec_end = calloc(nrec + 1, sizeof(size_t));
  F->rec_begin = calloc(nrec + 1, sizeof(size_t));
  for (i = 0; i < nrec; i++)
    F->rec_begin[i] = (size_t)-1;
  for (i = 0; i < F->lay.n; i++) {
    const ref_frag_t *fr = &F->lay.f[i];
    F->rec_end[fr->rec] = fr->off + REF_LOG_HEADER + fr->len;
    if (F->rec_begin[fr->rec] == (size_t)-1)
      F->rec_begin[fr->rec] = fr->off;
  }
  ref_buf_free(&ghost);
  free(ptrs);
}

static void
build_files(void) {
  size_t l[400];
  size_t i;
  { size_t a[] = {0, 1, 2, 0, 10, 100, 0}; build_file(0, "tiny_with_empty_records", a, 7, 0); }
  for (i = 0; i < 40; i++) l[i] = (i * 37) % 200;
  build_file(1, "forty_small", l, 40, 0);
  { size_t a[] = {1000, 31754}; build_file(2, "exactly_one_block", a, 2, 0); }
  { size_t a[] = {32758, 50}; build_file(3, "three_byte_trailer", a, 2, 0); }
  { size_t a[] = {32754, 20, 5}; build_file(4, "zero_length_first_fragment", a, 3, 0); }
  { size_t a[] = {9, 70000, 30}; build_file(5, "record_spanning_three_blocks", a, 3, 0); }
  for (i = 0; i < 30; i++) l[i] = 3200;
  build_file(6, "thirty_of_3200", l, 30, 0);
  { size_t a[] = {100, 900, 5000, 40000, 300, 12000, 64}; build_file(7, "payloads_embed_valid_records", a, 7, 1); }
  { size_t a[] = {32761, 32761}; build_file(8, "two_exact_blocks", a, 2, 0); }
  { size_t a[] = {32755, 0, 1}; build_file(9, "six_byte_trailer", a, 3, 0); }
  for (i = 0; i < 300; i++) l[i] = 1;
  build_file(10, "three_hundred_one_byte", l, 300, 0);
  { size_t a[] = {0}; build_file(11, "single_empty_record", a, 1, 0); }
  for (i = 0; i < NFILES; i++)
    if (files[i].bytes.n > 3 * REF_LOG_BLOCK)
      vh_die("representative file %zu too large", i);
}

/* fragment containing file offset o, or -1 (trailer padding) */
static int
frag_at(const rfile_t *F, size_t o) {
  size_t lo = 0, hi = F->lay.n;
  while (lo < hi) {
    size_t mid = (lo + hi) / 2;
    const ref_frag_t *fr = &F->lay.f[mid];
    if (o < fr->off)
      hi = mid;
    else if (o >= fr->off + REF_LOG_HEADER + fr->len)
      lo = mid + 1;
    else
      return (int)mid;
  }
  return -1;
}

/* quick-tier subset of offsets of a representative file */
static int
offset_is_boundary(const rfile_t *F, size_t o, size_t stride) {
  size_t n = F->bytes.n, lo = 0, hi = F->lay.n, inb = o % REF_LOG_BLOCK;
  if (n <= 5000 || o + 12 >= n || o % stride == 0)
    return 1;
  if (inb < 12 || inb + 12 >= REF_LOG_BLOCK)
    return 1;
  /* within [-3, +10] of a fragment header start */
  while (lo < hi) {
    size_t mid = (lo + hi) / 2;
    if (F->lay.f[mid].off + 10 < o)
      lo = mid + 1;
    else
      hi = mid;
  }
  return lo < F->lay.n && o + 3 >= F->lay.f[lo].off && o <= F->lay.f[lo].off + 10;
}

/* a VFS holding the file under work; recycled to bound the journal */
static vfs_t *cur_vfs;
static vinode_t *cur_node;
static int cur_uses;

static void
vfs_hold(const rfile_t *F) {
  if (cur_vfs && cur_uses < 2000) {
    cur_uses++;
    return;
  }
  if (cur_vfs)
    vfs_free(cur_vfs);
  cur_vfs = vfs_new();
  vfs_use(cur_vfs);
  vfs_put_file(cur_vfs, LOGPATH, F->bytes.p, F->bytes.n);
  cur_node = (vinode_t *)vfs_inode(cur_vfs, vfs_lookup(cur_vfs, LOGPATH));
  cur_uses = 1;
}

static void
vfs_release(void) {
  if (cur_vfs)
    vfs_free(cur_vfs);
  cur_vfs = NULL;
  cur_node = NULL;
  cur_uses = 0;
}

static ref_reclist_t t_got, t_ref, t_must;

static int
run_trunc(int fi, size_t cut, fail_t *f, uint64_t *outcome) {
  rfile_t *F = &files[fi];
  size_t drops, rdrops, i, expect = 0;
  char a[200];
  vfs_hold(F);
  cur_node->len = cut; /* the file as if the writer died after `cut` bytes */
  drops = lcdb_read_log(&t_got);
  cur_node->len = F->bytes.n;
  for (i = 0; i < F->recs.n; i++)
    if (F->rec_end[i] <= cut)
      expect++;
  if (outcome)
    *outcome = vh_mix(t_got.n, drops);
  if (drops != 0) {
    describe_lens(&t_got, a, sizeof(a));
    FAIL(f, "trunc_reports_error", "file %s cut at %zu of %zu: %zu drop reports (torn tail must be silent); returned %s",
         F->name, cut, F->bytes.n, drops, a);
  }
  if (t_got.n != expect) {
    describe_lens(&t_got, a, sizeof(a));
    FAIL(f, "trunc_records", "file %s cut at %zu of %zu: returned %s, %zu records lie wholly before the cut", F->name, cut,
         F->bytes.n, a, expect);
  }
  for (i = 0; i < expect; i++)
    if (t_got.len[i] != F->recs.len[i] ||
        (t_got.len[i] && memcmp(t_got.data.p + t_got.off[i], F->recs.data.p + F->recs.off[i], t_got.len[i]) != 0))
      FAIL(f, "trunc_records", "file %s cut at %zu: record %zu differs from what was written", F->name, cut, i);
  rdrops = ref_log_decode(F->bytes.p, cut, 0, &t_ref);
  if (rdrops != 0 || !reclist_equal(&t_ref, &t_got)) {
    describe_lens(&t_ref, a, sizeof(a));
    FAIL(f, "trunc_ref_disagree", "file %s cut at %zu: reference decoder says %s with %zu drops", F->name, cut, a, rdrops);
  }
  return 0;
}

enum { ALT_BIT0 = 0, ALT_BIT7, ALT_ZERO, ALT_FF, ALT_ZERO8, ALT_FF8, ALT_NKINDS };
static const char *alt_names[] = {"flip_bit0", "flip_bit7", "set_00", "set_ff", "set_8x00", "set_8xff"};

static int
run_alt(int fi, size_t off, int kind, fail_t *f, uint64_t *outcome, int *klass) {
  rfile_t *F = &files[fi];
  size_t n = F->bytes.n, w = (kind >= ALT_ZERO8) ? 8 : 1, i, drops, rdrops;
  uint8_t saved[8];
  size_t first_changed = (size_t)-1, last_changed = 0;
  int fr = -1, allowed_silent = 0, rc = 0;
  char a[200], b[200];

  if (off + w > n)
    w = n - off;
  vfs_hold(F);
  for (i = 0; i < w; i++) {
    uint8_t o = cur_node->data[off + i], x = o;
    saved[i] = o;
    switch (kind) {
      case ALT_BIT0: x = o ^ 0x01; break;
      case ALT_BIT7: x = o ^ 0x80; break;
      case ALT_ZERO: case ALT_ZERO8: x = 0x00; break;
      default: x = 0xFF; break;
    }
    cur_node->data[off + i] = x;
    if (x != o && frag_at(F, off + i) >= 0) {
      if (first_changed == (size_t)-1)
        first_changed = off + i;
      last_changed = off + i;
    }
  }
  drops = lcdb_read_log(&t_got);
  rdrops = ref_log_decode(cur_node->data, n, 0, &t_ref);
  if (outcome)
    *outcome = vh_mix(t_got.n, drops > 3 ? 3 : drops);

  if (first_changed == (size_t)-1) {
    /* nothing but padding (or nothing at all) changed: the file must read as before */
    int any = 0;
    for (i = 0; i < w; i++)
      any |= (cur_node->data[off + i] != saved[i]);
    *klass = any ? 1 : 0;
    if (drops != 0 || !reclist_equal(&t_got, &F->recs)) {
      describe_lens(&t_got, a, sizeof(a));
      snprintf(f->sig, sizeof(f->sig), "alt_padding_matters");
      snprintf(f->detail, sizeof(f->detail),
               "file %s, %s at %zu touches only %s: reader returned %s with %zu drop reports instead of all %zu records",
               F->name, alt_names[kind], off, any ? "zero trailer bytes" : "bytes that already had the value", a, drops,
               F->recs.n);
      rc = 1;
    }
    goto done;
  }

  fr = frag_at(F, first_changed);
  {
    const ref_frag_t *fg = &F->lay.f[fr];
    size_t b0 = fg->off / REF_LOG_BLOCK;
    size_t bmax = last_changed / REF_LOG_BLOCK;
    size_t blk_end = (b0 + 1) * REF_LOG_BLOCK < n ? (b0 + 1) * REF_LOG_BLOCK : n;
    const uint8_t *h = cur_node->data + fg->off;
    size_t newlen = (size_t)h[4] | ((size_t)h[5] << 8);
    int newtype = h[6];
    int last_short_block = (blk_end == n) && (n % REF_LOG_BLOCK != 0);

    /* silent outcomes the format rules allow:
     *  - the header now reads type 0 / length 0 = preallocated region, skipped without report
     *  - the length now points past the end of the final short block = torn tail = silent EOF */
    *klass = 4;
    if (newtype == 0 && newlen == 0) {
      allowed_silent = 1;
      *klass = 3;
    } else if (fg->off + REF_LOG_HEADER + newlen > blk_end && last_short_block) {
      allowed_silent = 1;
      *klass = 2;
    }

    /* (a) never a record that was not written */
    if (!reclist_subseq(&t_got, &F->recs)) {
      describe_lens(&t_got, a, sizeof(a));
      snprintf(f->sig, sizeof(f->sig), "alt_foreign_record");
      snprintf(f->detail, sizeof(f->detail),
               "file %s, %s at %zu (fragment %d, header at %zu): reader returned %s which is not a subsequence of the %zu written records",
               F->name, alt_names[kind], off, fr, fg->off, a, F->recs.n);
      rc = 1;
      goto done;
    }
    /* (b) the drop is reported */
    if (drops == 0 && !allowed_silent) {
      describe_lens(&t_got, a, sizeof(a));
      snprintf(f->sig, sizeof(f->sig), "alt_silent_drop");
      snprintf(f->detail, sizeof(f->detail),
               "file %s, %s at %zu (fragment %d of record %d, header at %zu, field byte %zu): no drop reported; returned %s of %zu written",
               F->name, alt_names[kind], off, fr, fg->rec, fg->off, first_changed - fg->off, a, F->recs.n);
      rc = 1;
      goto done;
    }
    /* (c) records wholly before the damaged fragment and records wholly in later blocks are returned */
    ref_reclist_reset(&t_must);
    for (i = 0; i < F->recs.n; i++)
      if (F->rec_end[i] <= fg->off || F->rec_begin[i] / REF_LOG_BLOCK > bmax)
        ref_reclist_add(&t_must, F->recs.data.p + F->recs.off[i], F->recs.len[i]);
    if (!reclist_subseq(&t_must, &t_got)) {
      describe_lens(&t_got, a, sizeof(a));
      describe_lens(&t_must, b, sizeof(b));
      snprintf(f->sig, sizeof(f->sig), "alt_no_resume");
      snprintf(f->detail, sizeof(f->detail),
               "file %s, %s at %zu (block %zu): returned %s; records outside the damaged block that must survive: %s",
               F->name, alt_names[kind], off, b0, a, b);
      rc = 1;
      goto done;
    }
    /* (d) agreement with the reference decoder of the documented rules */
    if (!reclist_equal(&t_got, &t_ref) || (drops > 0) != (rdrops > 0)) {
      describe_lens(&t_got, a, sizeof(a));
      describe_lens(&t_ref, b, sizeof(b));
      snprintf(f->sig, sizeof(f->sig), "alt_ref_disagree");
      snprintf(f->detail, sizeof(f->detail), "file %s, %s at %zu: lcdb %s / %zu reports, reference decoder %s / %zu reports",
               F->name, alt_names[kind], off, a, drops, b, rdrops);
      rc = 1;
      goto done;
    }
    if (drops > 0)
      *klass = 4;
  }
done:
  for (i = 0; i < w; i++)
    cur_node->data[off + i] = saved[i];
  return rc;
}

static int n_tsamples, n_asamples;

static void
trunc_domain(void) {
  int fi;
  for (fi = 0; fi < NFILES && !stopped; fi++) {
    rfile_t *F = &files[fi];
    size_t cut;
    vfs_release();
    for (cut = 0; cut <= F->bytes.n; cut++) {
      uint64_t idx, oc = 0;
      fail_t f, f2;
      char js[160];
      if (!drv.thorough && !offset_is_boundary(F, cut, 13))
        continue;
      idx = g_idx++;
      if (!drv_mine(idx))
        continue;
      snprintf(js, sizeof(js), "{\"k\":\"trunc\",\"file\":%d,\"cut\":%zu}", fi, cut);
      drv_case("%s", js);
      n_eval++;
      n_trunc++;
      if (run_trunc(fi, cut, &f, &oc)) {
        if (!run_trunc(fi, cut, &f2, NULL))
          vh_die("violation did not reproduce: %s", js);
        drv_viol(f.sig, f.detail, js);
      }
      drv_set("read_outcomes", oc);
      if (n_tsamples < 1 && fi == 5 && cut > 40000) {
        char sj[300];
        n_tsamples++;
        snprintf(sj, sizeof(sj), "{\"case\":%s,\"file\":\"%s\",\"file_bytes\":%zu,\"records_returned\":%zu,\"drop_reports\":0}", js,
                 F->name, F->bytes.n, t_got.n);
        drv_sample(sj);
      }
      if ((n_trunc & 1023) == 0 && drv_deadline_hit()) {
        stopped = 1;
        break;
      }
    }
  }
  vfs_release();
}

/* ------------------------------------------------------------------ */
/* short reads: read(2) may legally return fewer bytes than asked for  */
/* anywhere in a file; the records read back must not change           */
/* ------------------------------------------------------------------ */

static uint64_t n_short;

static int
run_short(int fi, int ord, long cnt, fail_t *f) {
  rfile_t *F = &files[fi];
  size_t drops;
  char a[200];
  vfs_hold(F);
  vfs_fault_clear(cur_vfs);
  cur_vfs->fault.sel_kind = C_READ;
  cur_vfs->fault.sel_ord = ord;
  cur_vfs->fault.sel_short = cnt;
  cur_vfs->fault.sel_name[0] = 0;
  drops = lcdb_read_log(&t_got);
  vfs_fault_clear(cur_vfs);
  if (drops != 0 || !reclist_equal(&t_got, &F->recs)) {
    describe_lens(&t_got, a, sizeof(a));
    FAIL(f, "short_read_changes_records", "file %s (%zu bytes, %zu records): when read call #%d returns only %ld bytes (no error), the reader returns %s with %zu drop reports",
         F->name, F->bytes.n, F->recs.n, ord, cnt, a, drops);
  }
  return 0;
}

static void
short_domain(void) {
  static const long cnts[] = {1, 6, 7, 8, 4095, 12345, 32761, 32767};
  int fi, ord, c;
  for (fi = 0; fi < NFILES && !stopped; fi++) {
    rfile_t *F = &files[fi];
    int nreads = (int)(F->bytes.n / 32768) + 2;
    vfs_release();
    for (ord = 1; ord <= nreads && !stopped; ord++)
      for (c = 0; c < (int)(sizeof(cnts) / sizeof(cnts[0])); c++) {
        uint64_t idx = g_idx++;
        fail_t f, f2;
        char js[160];
        if (!drv_mine(idx))
          continue;
        snprintf(js, sizeof(js), "{\"k\":\"short\",\"file\":%d,\"ord\":%d,\"cnt\":%ld}", fi, ord, cnts[c]);
        drv_case("%s", js);
        n_eval++;
        n_short++;
        if (run_short(fi, ord, cnts[c], &f)) {
          if (!run_short(fi, ord, cnts[c], &f2))
            vh_die("violation did not reproduce: %s", js);
          drv_viol(f.sig, f.detail, js);
        }
        if ((n_short & 255) == 0 && drv_deadline_hit()) {
          stopped = 1;
          break;
        }
      }
  }
  vfs_release();
}

static void
alt_domain(void) {
  int fi, kind;
  for (fi = 0; fi < NFILES && !stopped; fi++) {
    rfile_t *F = &files[fi];
    size_t off;
    vfs_release();
    for (off = 0; off < F->bytes.n && !stopped; off++) {
      if (!drv.thorough && !offset_is_boundary(F, off, 211))
        continue;
      for (kind = 0; kind < ALT_NKINDS; kind++) {
        uint64_t idx = g_idx++, oc = 0;
        fail_t f, f2;
        char js[160];
        int klass = 0, k2 = 0;
        if (!drv_mine(idx))
          continue;
        snprintf(js, sizeof(js), "{\"k\":\"alt\",\"file\":%d,\"off\":%zu,\"alt\":%d}", fi, off, kind);
        drv_case("%s", js);
        n_eval++;
        n_alt++;
        if (run_alt(fi, off, kind, &f, &oc, &klass)) {
          if (!run_alt(fi, off, kind, &f2, NULL, &k2))
            vh_die("violation did not reproduce: %s", js);
          drv_viol(f.sig, f.detail, js);
        }
        switch (klass) {
          case 0: n_alt_noop++; break;
          case 1: n_alt_trailer++; break;
          case 2: n_alt_silent_eof++; break;
          case 3: n_alt_silent_zero++; break;
          default: n_alt_reported++; break;
        }
        drv_set("read_outcomes", oc);
        if (n_asamples < 2 && fi == 5 && off > 33000 && klass == 4) {
          char sj[300];
          n_asamples++;
          snprintf(sj, sizeof(sj), "{\"case\":%s,\"file\":\"%s\",\"alteration\":\"%s\",\"records_returned\":%zu,\"of\":%zu,\"reported\":true}",
                   js, F->name, alt_names[kind], t_got.n, F->recs.n);
          drv_sample(sj);
        }
        if ((n_alt & 1023) == 0 && drv_deadline_hit()) {
          stopped = 1;
          break;
        }
      }
    }
  }
  vfs_release();
}

/* ------------------------------------------------------------------ */
/* writer domains                                                     */
/* ------------------------------------------------------------------ */

static const size_t w1_starts[33] = {0, 1, 2, 3, 4, 5, 6, 7, 8, 9, 10, 11, 12, 13, 14, 15, 16,
                                     32752, 32753, 32754, 32755, 32756, 32757, 32758, 32759,
                                     32760, 32761, 32762, 32763, 32764, 32765, 32766, 32767};

static int
quick_len(size_t len) {
  size_t k;
  if (len <= 600 || len + 40 >= MAXLEN || len % 509 == 0)
    return 1;
  for (k = 1; k <= 3; k++) {
    size_t a = k * 32768, b = k * 32761;
    if (len + 160 >= a && len <= a + 160)
      return 1;
    if (len + 48 >= b && len <= b + 48)
      return 1;
  }
  return 0;
}

static void
w1_domain(void) {
  size_t len;
  int si;
  for (len = 0; len <= MAXLEN && !stopped; len++) {
    if (!drv.thorough && !quick_len(len))
      continue;
    for (si = 0; si < 33; si++) {
      uint64_t idx = g_idx++;
      wcase_t c;
      if (!drv_mine(idx))
        continue;
      memset(&c, 0, sizeof(c));
      c.start = w1_starts[si];
      c.nrec = 1;
      c.len[0] = len;
      n_w1++;
      do_wcase(&c, "w1");
    }
    if ((len & 63) == 0 && drv_deadline_hit())
      stopped = 1;
  }
}

static void
wo_domain(void) {
  static const size_t lens[6] = {0, 1, 7, 8, 32761, 32768};
  size_t start;
  int li;
  for (start = 0; start < REF_LOG_BLOCK && !stopped; start++) {
    for (li = 0; li < 6; li++) {
      uint64_t idx;
      wcase_t c;
      if (!drv.thorough && lens[li] > 8 && !(start <= 40 || start + 40 >= REF_LOG_BLOCK || start % 257 == 0))
        continue;
      idx = g_idx++;
      if (!drv_mine(idx))
        continue;
      memset(&c, 0, sizeof(c));
      c.start = start;
      c.nrec = 1;
      c.len[0] = lens[li];
      n_wo++;
      do_wcase(&c, "wo");
    }
    if ((start & 255) == 0 && drv_deadline_hit())
      stopped = 1;
  }
}

static size_t seq_lens[20];
static int seq_nlens;

static void
seq_domain(void) {
  static const size_t qlens[6] = {0, 1, 32754, 32755, 32761, 65529};
  int i, n, maxn = 4;
  size_t k;
  seq_nlens = 0;
  seq_lens[seq_nlens++] = 0;
  seq_lens[seq_nlens++] = 1;
  for (k = 32754; k <= 32762; k++) seq_lens[seq_nlens++] = k;
  for (k = 65521; k <= 65529; k++) seq_lens[seq_nlens++] = k;
  /* quick: all sequences of <= 3 over the 20 lengths, then those of 4 over 6 of them */
  for (n = 1; n <= maxn && !stopped; n++) {
    const size_t *L = seq_lens;
    int nl = seq_nlens;
    uint64_t total = 1, t;
    if (!drv.thorough && n > 3) {
      L = qlens;
      nl = 6;
    }
    for (i = 0; i < n; i++)
      total *= (uint64_t)nl;
    for (t = 0; t < total; t++) {
      uint64_t idx = g_idx++, x = t;
      wcase_t c;
      if (!drv_mine(idx))
        continue;
      memset(&c, 0, sizeof(c));
      c.nrec = n;
      for (i = n - 1; i >= 0; i--) {
        c.len[i] = L[x % (uint64_t)nl];
        x /= (uint64_t)nl;
      }
      n_seq++;
      do_wcase(&c, "seq");
      if ((n_seq & 127) == 0 && drv_deadline_hit()) {
        stopped = 1;
        break;
      }
    }
  }
}

/* ------------------------------------------------------------------ */
/* replay                                                             */
/* ------------------------------------------------------------------ */

static long
jnum(const char *js, const char *key, long dflt) {
  char pat2[40];
  const char *p;
  snprintf(pat2, sizeof(pat2), "\"%s\":", key);
  p = strstr(js, pat2);
  if (!p)
    return dflt;
  p += strlen(pat2);
  while (*p == ' ')
    p++;
  return strtol(p, NULL, 10);
}

static int
replay(const char *js) {
  fail_t f;
  int bad = 0;
  memset(&f, 0, sizeof(f));
  if (strstr(js, "\"k\":\"crc\"")) {
    if (jnum(js, "phase", 1) == 1)
      ldb_crc32c_init();
    bad = run_crc((int)jnum(js, "len", 0), (int)jnum(js, "al", 0), (int)jnum(js, "fill", 0), &f);
  } else if (strstr(js, "\"k\":\"trunc\"")) {
    ldb_crc32c_init();
    bad = run_trunc((int)jnum(js, "file", 0), (size_t)jnum(js, "cut", 0), &f, NULL);
  } else if (strstr(js, "\"k\":\"short\"")) {
    ldb_crc32c_init();
    bad = run_short((int)jnum(js, "file", 0), (int)jnum(js, "ord", 1), jnum(js, "cnt", 1), &f);
  } else if (strstr(js, "\"k\":\"alt\"")) {
    int klass;
    ldb_crc32c_init();
    bad = run_alt((int)jnum(js, "file", 0), (size_t)jnum(js, "off", 0), (int)jnum(js, "alt", 0), &f, NULL, &klass);
  } else if (strstr(js, "\"k\":\"w1\"") || strstr(js, "\"k\":\"wo\"") || strstr(js, "\"k\":\"seq\"")) {
    wcase_t c;
    ldb_crc32c_init();
    memset(&c, 0, sizeof(c));
    c.start = (size_t)jnum(js, "start", 0);
    c.nrec = (int)jnum(js, "n", 1);
    c.len[0] = (size_t)jnum(js, "l0", 0);
    c.len[1] = (size_t)jnum(js, "l1", 0);
    c.len[2] = (size_t)jnum(js, "l2", 0);
    c.len[3] = (size_t)jnum(js, "l3", 0);
    if (c.nrec < 1 || c.nrec > 4 || c.len[0] > MAXLEN || c.len[1] > MAXLEN || c.len[2] > MAXLEN || c.len[3] > MAXLEN ||
        c.start >= REF_LOG_BLOCK)
      vh_die("bad replay payload: %s", js);
    bad = run_wcase(&c, &f, NULL);
  } else {
    vh_die("unknown replay payload: %s", js);
  }
  if (bad)
    drv_viol(f.sig, f.detail, js);
  else
    drv_note("replay: case holds");
  n_eval = 1;
  return 0;
}

/* ------------------------------------------------------------------ */

int
main(int argc, char **argv) {
  size_t i;
  uint32_t x = 12345;
  char res[900];
  static const uint8_t nine[] = "123456789";

  drv_init(argc, argv);

  /* self-test of the reference CRC on the published check value */
  if (ref_crc32c_bitwise(0, nine, 9) != 0xE3069283u || ref_crc32c(0, nine, 9) != 0xE3069283u)
    vh_die("reference CRC-32C self-test failed");

  pat = malloc(PATSZ);
  for (i = 0; i < PATSZ; i++) {
    x = x * 1103515245u + 12345u;
    pat[i] = (uint8_t)(x >> 16);
  }
  if (posix_memalign((void **)&crc_area, 64, 3 * CRC_STRIDE) != 0)
    vh_die("memalign");
  memset(crc_area, 0x00, CRC_STRIDE);
  memset(crc_area + CRC_STRIDE, 0xFF, CRC_STRIDE);
  for (i = 0; i < CRC_STRIDE; i++) {
    x = x * 1103515245u + 12345u;
    crc_area[2 * CRC_STRIDE + i] = (uint8_t)(x >> 16);
  }
  ref_buf_init(&w_ref);
  ref_buf_init(&w_pre);
  ref_buf_reserve(&w_ref, WV_CAP);
  ref_buf_reserve(&w_pre, REF_LOG_BLOCK + 64);
  ref_reclist_init(&w_expect);
  ref_reclist_init(&w_got);
  ref_reclist_init(&w_refgot);
  ref_layout_init(&w_lay);
  ref_reclist_init(&t_got);
  ref_reclist_init(&t_ref);
  ref_reclist_init(&t_must);
  {
    ref_reclist_t *all[] = {&w_expect, &w_got, &w_refgot, &t_got, &t_ref, &t_must};
    for (i = 0; i < 6; i++) {
      ref_buf_reserve(&all[i]->data, WV_CAP);
      ref_buf_reserve(&all[i]->tmp, WV_CAP);
    }
  }
  build_files();

  if (drv.replay)
    replay(drv.replay);
  else {
    if (!drv.thorough) {
      drv_note("quick tier subsets: w1 = lengths {0..600, within 160 of k*32768, within 48 of k*32761 (k=1..3), multiples of "
               "509, 98280..98320} x all 33 start offsets; wo = every start offset 0..32767 x lengths {0,1,7,8} and start "
               "offsets {0..40, 32728..32767, multiples of 257} x lengths {32761,32768}; seq = all sequences of <=3 records "
               "over the 20 lengths plus all of 4 over {0,1,32754,32755,32761,65529}; trunc/alt = every offset of files <= "
               "5000 bytes, else offsets within [-3,+10] of a fragment header, within 12 of a block boundary or of the end, "
               "and every 13th (cuts) / 211th (alterations); crc = full domain");
    }
    /* CRC first: phase 0 runs before anything called ldb_crc32c_init() (portable table path) */
    crc_domain(0);
    crc_accel = ldb_crc32c_init();
    crc_domain(1);
    drv_note("ldb_crc32c_init() returned %d (%s); crc phase 0 ran before it, phase 1 and all log cases after it", crc_accel,
             crc_accel == 1 ? "hardware CRC path selected" : "portable path only");
    drv_note("alterations that legitimately produce no report and are exempted from 'reports the drop': byte already had the "
             "value; zero trailer bytes (never parsed); header rewritten to type 0 + length 0 (preallocated-region rule, "
             "checked before the CRC); length rewritten to point past the end of the final short block (torn-tail rule)");
    if (!stopped) w1_domain();
    if (!stopped) wo_domain();
    if (!stopped) seq_domain();
    if (!stopped) trunc_domain();
    if (!stopped) short_domain();
    if (!stopped) alt_domain();
  }

  snprintf(res, sizeof(res),
           "\"evaluations\":%llu,\"exhaustive\":%s,\"crc_cases\":%llu,\"writer_cases\":%llu,\"w1_cases\":%llu,"
           "\"wo_cases\":%llu,\"seq_cases\":%llu,\"reader_roundtrips\":%llu,\"truncations\":%llu,\"alterations\":%llu,"
           "\"alt_reported\":%llu,\"alt_noop\":%llu,\"alt_trailer_only\":%llu,\"alt_silent_torn_tail\":%llu,"
           "\"alt_silent_zero_type\":%llu,\"log_bytes_compared\":%llu,\"short_read_cases\":%llu,\"max_crc_hw_path\":%d",
           (unsigned long long)n_eval, (stopped || drv.replay) ? "false" : "true", (unsigned long long)n_crc,
           (unsigned long long)(n_w1 + n_wo + n_seq), (unsigned long long)n_w1, (unsigned long long)n_wo,
           (unsigned long long)n_seq, (unsigned long long)n_roundtrip, (unsigned long long)n_trunc,
           (unsigned long long)n_alt, (unsigned long long)n_alt_reported, (unsigned long long)n_alt_noop,
           (unsigned long long)n_alt_trailer, (unsigned long long)n_alt_silent_eof,
           (unsigned long long)n_alt_silent_zero, (unsigned long long)n_bytes_written, (unsigned long long)n_short, crc_accel == 1 ? 1 : 0);
  drv_result(res);
  return 0;
}
