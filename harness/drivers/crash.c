/* VH_LINK: kv layout ref_codecs rm_manifest
 * crash.c - E3: crash-point x crash-image enumeration.
 *
 * One history is recorded on the real write path over the journalling in-memory
 * FS (every batch also puts a unique marker key, and the journal index at which
 * each write call began/returned is logged).  Then for EVERY journal index t and
 * every crash image the model of C02 allows at t (directory-operation prefix D
 * between the durability watermark and everything issued; per file a length
 * between its last-fsynced and its written length; torn tails) the REAL
 * ldb_open recovers a copy, and the recovered contents are compared with the
 * fold of the surviving batch set U read off the marker keys.
 *
 *   --prop C02|C03|C04|C05|C13|C17   which violation kinds are reported
 *   --cfgs "cfg;cfg"                 configurations
 *   --len <n>                        all histories up to this length over the alphabet
 *   --scripted 0|1                   include the scripted longer histories
 *   --classes <mask>                bit i set = generate image class i (0 min 1 max 2 dir-ahead
 *                                    3 data-ahead 4 intermediate 5 torn 6 per-file product)
 *   --nested 0|1|2                   crash points inside recovery (1: for min/max images of
 *                                    distinct outer images, 2: all distinct outer images)
 */
#define _GNU_SOURCE
#include <limits.h>
#include <stdlib.h>
#include <string.h>
#include "kv.h"
#include "layout.h"

#define MAXOPS 24
static const char *DB = "/vfs/db";

static kcfg_t cfg;
static const char *prop = "C05";
static int nested_mode = 1;
static int class_mask = 0x7f; /* which image classes are generated (bit = class id) */
static int bg_starve;    /* histories run without automatic draining (explicit W ops) */

static uint64_t n_hist, n_points, n_images, n_distinct_images, n_recoveries, n_nested, n_followups, n_torn, n_product, n_product_capped;
static uint64_t n_journal;
static uint64_t point_counter;
static vh_set_t outcome_set;

typedef struct hist_s { int n; kop_t ops[MAXOPS]; } hist_t;

/* --base "<history>": a preparation run executed before the enumerated history on the same disk (no
 * markers, not part of the acknowledged set); crash points start after it.  It should end durably
 * (flush, reopen) so that its effects are part of every crash image's expected contents. */
#define MAXBASE 400
static kop_t base_ops[MAXBASE];
static int nbase_ops;
static char base_text[300];

typedef struct rec_s {
  const hist_t *h;
  vfs_t *v;
  kack_t acks[KH_MAXACK];
  int nacks;
  int seg[KH_MAXACK];        /* inode id of the log segment a batch was appended to */
  int seg_unlink[KH_MAXACK]; /* journal index of that log's unlink, or INT_MAX */
  kmodel_t base_model;       /* contents after the --base run */
  int t0;                    /* journal length after the --base run: first crash point */
  int ok;
  char err[300];
} rec_t;

typedef kobs_t obs_t;

/* ---------------- violation kinds and which property reports them ---------------- */

static int
kind_for_prop(const char *kind) {
  static const char *map[][16] = {
    {"C02", "lost-synced-write", "lost-after-log-delete", "open-failed", "nested-open-failed", NULL},
    {"C03", "process-crash-lost-ack", "process-crash-phantom", "process-crash-content", "process-crash-open-failed", "nested-process-crash", NULL},
    {"C04", "batch-torn", NULL},
    {"C05", "open-failed", "phantom-batch", "non-prefix-loss", "content-mismatch", "batch-torn", "second-open-differs", "followup-lost", "nested-differs", "nested-open-failed", "read-inconsistent", NULL},
    {"C13", "garbage-after-recovery", NULL},
    {"C17", "open-failed", "current-dangling", "nested-open-failed", NULL},
  };
  size_t i;
  int j;
  for (i = 0; i < sizeof(map) / sizeof(map[0]); i++)
    if (strcmp(map[i][0], prop) == 0)
      for (j = 1; map[i][j]; j++)
        if (strcmp(map[i][j], kind) == 0)
          return 1;
  return 0;
}

/* ---------------- recording ---------------- */

static void
record_body(void *arg) {
  rec_t *r = arg;
  khist_t h;
  int i, rc;
  kh_init(&h, &cfg, DB);
  h.markers = 1;
  h.auto_drain = !bg_starve;
  r->ok = 1;
  rc = kh_open(&h);
  if (rc != LDB_OK) {
    r->ok = 0;
    snprintf(r->err, sizeof(r->err), "open failed while recording: %d", rc);
    kh_clear(&h);
    return;
  }
  if (nbase_ops) {
    h.markers = 0;
    for (i = 0; i < nbase_ops; i++) {
      rc = kh_apply(&h, &base_ops[i]);
      if (rc != LDB_OK || !h.db) {
        r->ok = 0;
        snprintf(r->err, sizeof(r->err), "base op %d returned %d while recording on a healthy FS", i, rc);
        kh_clear(&h);
        return;
      }
    }
    h.markers = 1;
    h.nacks = 0;
    r->base_model = h.model;
    r->t0 = vfs_jlen(vfs_cur);
  }
  for (i = 0; i < r->h->n; i++) {
    rc = kh_apply(&h, &r->h->ops[i]);
    if (rc != LDB_OK) {
      r->ok = 0;
      snprintf(r->err, sizeof(r->err), "op %d returned %d (%s) while recording on a healthy FS", i, rc, ldb_strerror(rc));
      break;
    }
  }
  memcpy(r->acks, h.acks, sizeof(r->acks));
  r->nacks = h.nacks;
  kh_clear(&h);
}

static const char *
ino_name(const vfs_t *v, int ino) {
  int i;
  for (i = v->njournal - 1; i >= 0; i--) {
    const vjent_t *e = &v->journal[i];
    if ((e->kind == J_CREATE || e->kind == J_REPLACE) && e->ino == ino)
      return e->path;
  }
  for (i = 0; i < v->nbase; i++)
    if (v->base[i].ino == ino)
      return v->base[i].path;
  return "";
}

static int
is_log_name(const char *p) {
  size_t l = strlen(p);
  return l > 4 && strcmp(p + l - 4, ".log") == 0;
}

static int
record(rec_t *r, const hist_t *h) {
  sch_cfg_t sc;
  int st, i, j;
  memset(r, 0, sizeof(*r));
  r->h = h;
  r->v = vfs_new();
  vfs_use(r->v);
  memset(&sc, 0, sizeof(sc));
  sc.hook_points = 1;
  sc.step_max = 4000000;
  st = sch_run(record_body, r, &sc);
  if (st != SCH_OK) {
    r->ok = 0;
    snprintf(r->err, sizeof(r->err), "recording did not complete: %s", sch_describe_block());
    return 0;
  }
  if (!r->ok)
    return 0;
  for (i = 0; i < r->nacks; i++) {
    r->seg[i] = -1;
    r->seg_unlink[i] = INT_MAX;
    for (j = r->acks[i].j_begin; j < r->acks[i].j_end; j++) {
      const vjent_t *e = &r->v->journal[j];
      if (e->kind == J_WRITE && is_log_name(ino_name(r->v, e->ino))) {
        r->seg[i] = e->ino;
        break;
      }
    }
    if (r->seg[i] >= 0)
      for (j = r->acks[i].j_end; j < r->v->njournal; j++)
        if (r->v->journal[j].kind == J_UNLINK && r->v->journal[j].ino == r->seg[i]) {
          r->seg_unlink[i] = j;
          break;
        }
  }
  return 1;
}

/* ---------------- recovery and observation ---------------- */

typedef struct rjob_s {
  const rec_t *r;
  int paranoid;
  int followup;      /* 0 observe only, 1 observe + put follow-up, 2 check follow-up */
  obs_t *o;
} rjob_t;

#define FOLLOW_VID 7776

static void
recover_body(void *arg) {
  rjob_t *j = arg;
  obs_t *o = j->o;
  kcfg_t c = cfg;
  khist_t h;
  c.paranoid = j->paranoid;
  memset(o, 0, sizeof(*o));
  kh_init(&h, &c, DB);
  o->open_rc = kh_open(&h);
  if (o->open_rc != LDB_OK) {
    kh_clear(&h);
    return;
  }
  kv_observe(h.db, j->r->acks, j->r->nacks, o);
  if (j->followup == 0) {
    char e[300];
    if (!lay_files_exact_check(h.db, DB, e, sizeof(e))) {
      o->garbage = 1;
      if (!o->err[0])
        snprintf(o->err, sizeof(o->err), "%s", e);
    }
  }
  if (j->followup == 1) {
    /* writes made after recovery take precedence over recovered data */
    kop_t op;
    memset(&op, 0, sizeof(op));
    op.kind = OP_PUT; op.n = 1; op.u[0].key = 0; op.u[0].sz = VS_SHORT;
    h.nops = FOLLOW_VID / 8 - 1;   /* kh_vid(nops,0) == FOLLOW_VID */
    if (kh_apply(&h, &op) != LDB_OK) {
      o->bad = 1;
      snprintf(o->err, sizeof(o->err), "write after recovery failed with status %d", h.last_status);
    } else {
      ldb_slice_t key = ldb_slice(kv_keys[0], kv_keylen[0]), val;
      if (ldb_get(h.db, &key, &val, NULL) != LDB_OK || !kv_vcheck(val.data, val.size, FOLLOW_VID, VS_SHORT)) {
        o->bad = 1;
        snprintf(o->err, sizeof(o->err), "a write made after recovery does not take precedence over recovered data");
      } else {
        ldb_free(val.data);
      }
    }
  }
  kh_clear(&h);
}

static int
recover(vfs_t *img, const rec_t *r, int paranoid, int followup, obs_t *o) {
  sch_cfg_t sc;
  rjob_t j;
  int st;
  j.r = r; j.paranoid = paranoid; j.followup = followup; j.o = o;
  memset(&sc, 0, sizeof(sc));
  sc.hook_points = 1;
  sc.step_max = 4000000;
  vfs_use(img);
  st = sch_run(recover_body, &j, &sc);
  n_recoveries++;
  if (st != SCH_OK) {
    o->bad = 1;
    o->open_rc = -1;
    snprintf(o->err, sizeof(o->err), "recovery did not complete: %s", sch_describe_block());
  }
  return st == SCH_OK;
}

/* ---------------- the check of one image ---------------- */

typedef struct img_desc_s {
  int t, D;
  int cls;            /* 0 min 1 max 2 dir-ahead 3 data-ahead 4 intermediate 5 torn 6 product */
  int torn_ino;
  size_t torn_len;
  int others_written; /* lengths of the other files: 1 = written, 0 = synced */
  unsigned prod_mask; /* class 6: bit j set = the j-th file (inode order) that has an unsynced tail keeps its written length */
  int paranoid;
  int nest_t, nest_cls; /* -1: none */
} img_desc_t;

static const char *cls_name[] = {"min", "max", "dir-ahead", "data-ahead", "intermediate", "torn", "product"};

static void
fill_lens(const rec_t *r, const img_desc_t *d, const size_t *W, const size_t *S, size_t *lens) {
  int i;
  for (i = 0; i < r->v->ninodes; i++)
    lens[i] = d->others_written ? W[i] : S[i];
  if (d->cls == 5 && d->torn_ino >= 0)
    lens[d->torn_ino] = d->torn_len;
  if (d->cls == 6) {
    int j = 0;
    for (i = 0; i < r->v->ninodes; i++) {
      if (r->v->inodes[i]->is_dir || W[i] <= S[i]) continue;
      lens[i] = (j < 5 && ((d->prod_mask >> j) & 1u)) ? W[i] : S[i];   /* files beyond the fifth keep the synced length */
      j++;
    }
  }
}

static void
fold(const rec_t *r, uint32_t U, kmodel_t *m) {
  int i;
  *m = r->base_model;
  for (i = 0; i < r->nacks; i++)
    if (U & (1u << i))
      kh_model_apply(m, &r->acks[i].op, r->acks[i].opidx);
}

static void
report(const rec_t *r, const img_desc_t *d, const char *kind, const char *msg) {
  vh_buf_t hb, rp, dt;
  char cfgtxt[300], sig[96];
  if (!kind_for_prop(kind))
    return;
  vb_init(&hb); vb_init(&rp); vb_init(&dt);
  khist_print(r->h->ops, r->h->n, &hb);
  kcfg_print(&cfg, cfgtxt, sizeof(cfgtxt));
  vb_printf(&rp, "{\"base\":\"%s\",\"history\":\"%s\",\"cfg\":\"%s\",\"starve\":%d,\"t\":%d,\"D\":%d,\"cls\":%d,\"torn_ino\":%d,\"torn_len\":%zu,\"others_written\":%d,\"prod_mask\":%u,\"paranoid\":%d,\"nest_t\":%d,\"nest_cls\":%d}",
            base_text, hb.p ? hb.p : "", cfgtxt, bg_starve, d->t, d->D, d->cls, d->torn_ino, d->torn_len, d->others_written, d->prod_mask, d->paranoid,
            d->nest_t, d->nest_cls);
  if (nbase_ops) vb_printf(&dt, "prepared by [%s]; ", base_text);
  vb_printf(&dt, "history [%s] cfg %s; crash at journal index %d of %d, image %s (dir ops %d, %s%s), paranoid=%d%s: %s",
            hb.p ? hb.p : "", cfgtxt, d->t, r->v->njournal, cls_name[d->cls], d->D,
            d->cls == 6 ? "per-file choice of written/synced length" : d->others_written ? "files at written length" : "files at synced length",
            d->cls == 5 ? ", one file torn" : "", d->paranoid, d->nest_t >= 0 ? ", then a second crash inside recovery" : "", msg);
  snprintf(sig, sizeof(sig), "%s%s", kind, cfg.reuse_logs ? ":reuse_logs" : "");
  drv_viol(sig, dt.p, rp.p);
  vb_free(&hb); vb_free(&rp); vb_free(&dt);
}

static vh_set_t verdict_seen;   /* (image hash, constraint signature, paranoid) already judged */
static vh_set_t nested_seen;

static void nested_explore(const rec_t *r, const img_desc_t *d, vfs_t *img_template, const obs_t *first);

static void
check_image(const rec_t *r, const img_desc_t *d, const size_t *W, const size_t *S, int replaying) {
  size_t *lens = malloc(sizeof(size_t) * (size_t)(r->v->ninodes + 1));
  vfs_t *img, *work;
  uint32_t started = 0, acked = 0, M = 0, Msync = 0;
  uint64_t ih, vkey;
  obs_t o, o2;
  kmodel_t want;
  int i, p;
  char msg[700];
  if (!(class_mask & (1 << d->cls)) && !replaying) {
    free(lens);
    return;
  }
  fill_lens(r, d, W, S, lens);
  img = vfs_image(r->v, d->t, d->D, lens);
  free(lens);
  n_images++;
  for (i = 0; i < r->nacks; i++) {
    if (r->acks[i].empty) continue;
    if (r->acks[i].j_begin < d->t) started |= 1u << i;
    if (r->acks[i].j_end <= d->t && r->acks[i].status == LDB_OK) {
      acked |= 1u << i;
      if (r->acks[i].sync) { M |= 1u << i; Msync |= 1u << i; }
    }
    if (r->seg_unlink[i] < d->t) M |= 1u << i;
  }
  ih = vfs_hash(img, DB, 1);
  vkey = vh_mix(vh_mix(ih, started), vh_mix(vh_mix(acked, M), (uint64_t)(d->cls == 1)));
  if (!replaying && !vs_add(&verdict_seen, vkey)) {
    vfs_free(img);
    return;
  }
  n_distinct_images++;
  for (p = 0; p < 2; p++) {
    img_desc_t dd = *d;
    dd.paranoid = p;
    if (replaying && d->paranoid != p)
      continue;
    work = vfs_clone(img);
    recover(work, r, p, 0, &o);
    drv_set("outcomes", vh_mix(o.hash, (uint64_t)o.open_rc));
    if (o.open_rc != LDB_OK) {
      snprintf(msg, sizeof(msg), "ldb_open of the crash image failed with status %d (%s)%s%s", o.open_rc,
               o.open_rc > 0 ? ldb_strerror(o.open_rc) : "scheduler", o.err[0] ? "; " : "", o.err);
      report(r, &dd, "open-failed", msg);
      if (d->cls == 1)
        report(r, &dd, "process-crash-open-failed", msg);
      vfs_free(work);
      continue;
    }
    if (o.bad) {
      report(r, &dd, "read-inconsistent", o.err);
      if (d->cls == 1) report(r, &dd, "process-crash-content", o.err);
    }
    if (o.garbage)
      report(r, &dd, "garbage-after-recovery", o.err);
    if (o.U & ~started) {
      snprintf(msg, sizeof(msg), "recovered database contains batches %x that had not been issued before the crash (issued %x)", o.U & ~started, started);
      report(r, &dd, "phantom-batch", msg);
      if (d->cls == 1) report(r, &dd, "process-crash-phantom", msg);
    }
    if (Msync & ~o.U) {
      snprintf(msg, sizeof(msg), "batches %x were written with sync and acknowledged before the crash but are missing after recovery (surviving set %x)", Msync & ~o.U, o.U);
      report(r, &dd, "lost-synced-write", msg);
    }
    if ((M & ~Msync) & ~o.U) {
      snprintf(msg, sizeof(msg), "batches %x are missing although the database had already deleted the log that held them (surviving set %x)", (M & ~Msync) & ~o.U, o.U);
      report(r, &dd, "lost-after-log-delete", msg);
    }
    if (d->cls == 1 && (acked & ~o.U)) {
      snprintf(msg, sizeof(msg), "process crash (all written bytes survive): acknowledged batches %x are missing after reopen (surviving %x, acknowledged %x)", acked & ~o.U, o.U, acked);
      report(r, &dd, "process-crash-lost-ack", msg);
    }
    /* per log segment the surviving batches form a prefix */
    for (i = 0; i < r->nacks; i++) {
      int k;
      if (!(o.U & (1u << i)) || r->seg[i] < 0)
        continue;
      for (k = 0; k < i; k++)
        if (r->seg[k] == r->seg[i] && !(o.U & (1u << k)) && (started & (1u << k))) {
          snprintf(msg, sizeof(msg), "batch %d survives but the earlier batch %d of the same log segment does not (surviving set %x): not a tail loss", i, k, o.U);
          report(r, &dd, "non-prefix-loss", msg);
          k = i;
          i = r->nacks;
        }
    }
    fold(r, o.U, &want);
    if (memcmp(&want, &o.m, sizeof(want)) != 0 && !o.bad) {
      int k, torn = 0;
      /* is it a half-applied batch? some update of a surviving batch missing or some update of a lost batch present */
      for (k = 0; k < kv_nkeys; k++)
        if (want.vid[k] != o.m.vid[k])
          torn = 1;
      snprintf(msg, sizeof(msg), "contents differ from applying exactly the surviving batches %x in order: key vids observed [%d,%d,%d,%d] expected [%d,%d,%d,%d]",
               o.U, o.m.vid[0], o.m.vid[1], o.m.vid[2], o.m.vid[3], want.vid[0], want.vid[1], want.vid[2], want.vid[3]);
      report(r, &dd, "content-mismatch", msg);
      if (torn) report(r, &dd, "batch-torn", msg);
      if (d->cls == 1) report(r, &dd, "process-crash-content", msg);
    }
    /* second open, follow-up write, third open */
    recover(work, r, p, 1, &o2);
    n_followups++;
    if (o2.open_rc != LDB_OK || o2.hash != o.hash) {
      snprintf(msg, sizeof(msg), "opening the recovered database a second time gives status %d and %s contents (surviving %x then %x)",
               o2.open_rc, o2.hash == o.hash ? "the same" : "different", o.U, o2.U);
      report(r, &dd, "second-open-differs", msg);
    } else if (o2.bad) {
      report(r, &dd, "followup-lost", o2.err);
    } else {
      obs_t o3;
      recover(work, r, p, 2, &o3);
      if (o3.open_rc != LDB_OK || o3.m.vid[0] != FOLLOW_VID || o3.U != o.U) {
        snprintf(msg, sizeof(msg), "a write made after recovery is not there after the next close/reopen (status %d, key#0 v%d, surviving %x vs %x)",
                 o3.open_rc, o3.m.vid[0], o3.U, o.U);
        report(r, &dd, "followup-lost", msg);
      }
    }
    vfs_free(work);
    /* crash points inside the recovery itself */
    if (nested_mode && !replaying && (nested_mode == 2 || d->cls <= 1) && vs_add(&nested_seen, vh_mix(ih, (uint64_t)p)))
      nested_explore(r, &dd, img, &o);
    if (replaying && d->nest_t >= 0)
      nested_explore(r, &dd, img, &o);
  }
  vfs_free(img);
}

static void
nested_explore(const rec_t *r, const img_desc_t *d, vfs_t *img_template, const obs_t *first) {
  vfs_t *w = vfs_clone(img_template);
  obs_t o;
  int t2, J2, c;
  size_t *W2, *S2, *lens;
  recover(w, r, d->paranoid, 0, &o);   /* journal of a full recovery (open .. close) */
  J2 = w->njournal;
  W2 = malloc(sizeof(size_t) * (size_t)(w->ninodes + 1));
  S2 = malloc(sizeof(size_t) * (size_t)(w->ninodes + 1));
  lens = malloc(sizeof(size_t) * (size_t)(w->ninodes + 1));
  for (t2 = 1; t2 <= J2; t2++) {
    int nd = vfs_ndirops_before(w, t2), wm = vfs_watermark(w, t2);
    if (d->nest_t >= 0 && d->nest_t != t2)
      continue;
    vfs_lens_at(w, t2, W2, S2);
    for (c = 0; c < 3; c++) {
      /* 0 min, 1 max, 2 dir-ahead */
      int D = (c == 0) ? wm : nd, i;
      vfs_t *img2, *w2;
      obs_t o2;
      uint64_t h2;
      img_desc_t dd = *d;
      char msg[500];
      if (d->nest_t >= 0 && d->nest_cls != c)
        continue;
      for (i = 0; i < w->ninodes; i++)
        lens[i] = (c == 1) ? W2[i] : S2[i];
      img2 = vfs_image(w, t2, D, lens);
      h2 = vfs_hash(img2, DB, 1);
      if (d->nest_t < 0 && !vs_add(&nested_seen, vh_mix(h2, 0x77 + (uint64_t)d->paranoid))) {
        vfs_free(img2);
        continue;
      }
      w2 = img2;
      n_nested++;
      recover(w2, r, d->paranoid, 0, &o2);
      dd.nest_t = t2;
      dd.nest_cls = c;
      if (o2.open_rc != LDB_OK) {
        snprintf(msg, sizeof(msg), "second crash at journal index %d of the recovery (%s image): reopening fails with status %d", t2, cls_name[c], o2.open_rc);
        report(r, &dd, "nested-open-failed", msg);
        if (d->cls == 1 && c == 1) report(r, &dd, "nested-process-crash", msg);
      } else if (o2.hash != first->hash || o2.bad) {
        snprintf(msg, sizeof(msg), "second crash at journal index %d of the recovery (%s image): contents differ from the first recovery (surviving %x vs %x; key vids [%d,%d,%d,%d] vs [%d,%d,%d,%d]) %s",
                 t2, cls_name[c], o2.U, first->U, o2.m.vid[0], o2.m.vid[1], o2.m.vid[2], o2.m.vid[3],
                 first->m.vid[0], first->m.vid[1], first->m.vid[2], first->m.vid[3], o2.err);
        report(r, &dd, "nested-differs", msg);
        if (d->cls == 1 && c == 1) report(r, &dd, "nested-process-crash", msg);
      }
      vfs_free(w2);
    }
  }
  free(W2); free(S2); free(lens);
  vfs_free(w);
}

/* ---------------- enumeration of crash points and images of one history ---------------- */

static void
explore_history(const hist_t *h) {
  rec_t r;
  int t, J, i;
  size_t *W, *S;
  {
    vh_buf_t b;
    char cfgtxt[300];
    vb_init(&b);
    khist_print(h->ops, h->n, &b);
    kcfg_print(&cfg, cfgtxt, sizeof(cfgtxt));
    drv_case("{\"history\":\"%s\",\"cfg\":\"%s\",\"starve\":%d}", b.p ? b.p : "", cfgtxt, bg_starve);
    vb_free(&b);
  }
  if (!record(&r, h)) {
    img_desc_t d;
    memset(&d, 0, sizeof(d));
    d.nest_t = -1;
    report(&r, &d, "open-failed", r.err);
    vfs_free(r.v);
    return;
  }
  if (drv.shard == 0) {
    n_hist++;
    n_journal += (uint64_t)r.v->njournal;
  }
  J = r.v->njournal;
  W = malloc(sizeof(size_t) * (size_t)(r.v->ninodes + 1));
  S = malloc(sizeof(size_t) * (size_t)(r.v->ninodes + 1));
  vs_free(&verdict_seen); vs_init(&verdict_seen);
  vs_free(&nested_seen); vs_init(&nested_seen);
  for (t = r.t0; t <= J; t++) {
    int nd = vfs_ndirops_before(r.v, t), wm = vfs_watermark(r.v, t), D;
    img_desc_t d;
    /* crash points (not histories) are dealt to the shards: histories differ a lot in cost */
    if (!drv_mine(point_counter++ / 8))
      continue;
    n_points++;
    vfs_lens_at(r.v, t, W, S);
    memset(&d, 0, sizeof(d));
    d.t = t; d.torn_ino = -1; d.nest_t = -1; d.nest_cls = -1;
    d.cls = 0; d.D = wm; d.others_written = 0; check_image(&r, &d, W, S, 0);
    d.cls = 1; d.D = nd; d.others_written = 1; check_image(&r, &d, W, S, 0);
    d.cls = 2; d.D = nd; d.others_written = 0; check_image(&r, &d, W, S, 0);
    d.cls = 3; d.D = wm; d.others_written = 1; check_image(&r, &d, W, S, 0);
    for (D = wm + 1; D < nd; D++) {
      d.cls = 4; d.D = D;
      d.others_written = 0; check_image(&r, &d, W, S, 0);
      d.others_written = 1; check_image(&r, &d, W, S, 0);
    }
    /* product: every way of keeping / losing the unsynced tail of each file separately (the crash model lets every
     * file choose its own length); all-kept and all-lost are the classes above.  At most 5 files with a tail. */
    {
      int ntail = 0;
      unsigned m;
      for (i = 0; i < r.v->ninodes; i++)
        if (!r.v->inodes[i]->is_dir && W[i] > S[i]) ntail++;
      if (ntail > 5) { n_product_capped++; ntail = 5; }
      if (ntail >= 2)
        for (m = 1; m + 1 < (1u << ntail); m++) {
          d.cls = 6; d.prod_mask = m; d.others_written = 0;
          d.D = nd; check_image(&r, &d, W, S, 0);
          d.D = wm; check_image(&r, &d, W, S, 0);
          n_product++;
        }
      d.prod_mask = 0;
    }
    /* torn tails: only the file whose tail grew by the journal entry just before t needs new
     * cuts at this t (the other files' tails were cut at the index where they grew) */
    for (i = 0; i < r.v->ninodes; i++) {
      size_t lo = S[i], hi = W[i], c;
      if (hi <= lo || r.v->inodes[i]->is_dir)
        continue;
      if (!(t > 0 && r.v->journal[t - 1].kind == J_WRITE && r.v->journal[t - 1].ino == i))
        continue;
      /* cuts strictly inside the last write */
      lo = r.v->journal[t - 1].off > S[i] ? r.v->journal[t - 1].off : S[i];
      for (c = lo + 1; c < hi; c++) {
        size_t rel = c - lo, span = hi - lo;
        if (span > 256 && !(rel == 1 || rel == 6 || rel == 7 || rel == 8 || c == hi - 1 || (c % 512) == 0))
          continue;
        n_torn++;
        d.cls = 5; d.torn_ino = i; d.torn_len = c;
        d.D = nd; d.others_written = 1; check_image(&r, &d, W, S, 0);
        d.D = wm; d.others_written = 0; check_image(&r, &d, W, S, 0);
      }
      d.torn_ino = -1;
    }
    if (drv_deadline_hit())
      break;
  }
  free(W); free(S);
  vfs_free(r.v);
}

/* ---------------- history sets ---------------- */

static kop_t alpha[32];
static int nalpha;

static void
add_op(const char *s) {
  if (!kop_parse(&alpha[nalpha], s, NULL))
    vh_die("bad op %s", s);
  nalpha++;
}

static const char *scripted[] = {
  /* log rotation with the old log still unflushed, flush, compaction, reopen */
  "P0.2! P1.2 P2.2 P0.2! P1.2 F P2.1!",
  "P0.1! F P0.1 F P1.1! F P0.1 F C P2.1!",
  "P0.2 P1.2 P2.2 P0.2 O P1.1! O P2.1",
  "B[P0.1,D1,P2.2]! P1.2 P1.2 P1.2 P1.2! O P0.1!",
  "P0.1! O O P1.1 O P2.1!",
  "M7! P0.1 F P1.1! C",
  "P0.1 P1.1 F D0! P2.2 P2.2 P2.2 P2.2 D1 O",
  NULL
};

static int stop_now;

static void
enumerate(int len, int with_scripted) {
  int idx[MAXOPS], depth, i;
  uint64_t caseno = 0;
  hist_t h;
  if (with_scripted)
    for (i = 0; scripted[i] && !stop_now; i++) {
      if (with_scripted < 2 && strchr(scripted[i], 'M'))
        continue; /* the 700-update batch is expensive: thorough tier only (--scripted 2) */
      caseno++;
      memset(&h, 0, sizeof(h));
      h.n = khist_parse(h.ops, MAXOPS, scripted[i]);
      if (h.n < 0)
        vh_die("bad scripted history %s", scripted[i]);
      explore_history(&h);
      if (drv_deadline_hit()) stop_now = 1;
    }
  for (depth = 1; depth <= len && !stop_now; depth++) {
    for (i = 0; i < depth; i++) idx[i] = 0;
    for (;;) {
      int writes = 0;
      memset(&h, 0, sizeof(h));
      h.n = depth;
      for (i = 0; i < depth; i++) {
        h.ops[i] = alpha[idx[i]];
        if (strchr("PDBM", h.ops[i].kind)) writes++;
      }
      /* a history without a write has nothing to lose: skip; first op must be a write */
      if (writes > 0 && strchr("PDBM", h.ops[0].kind) && ++caseno) {
        explore_history(&h);
        if (drv_deadline_hit()) { stop_now = 1; break; }
      }
      for (i = depth - 1; i >= 0; i--) {
        if (++idx[i] < nalpha) break;
        idx[i] = 0;
      }
      if (i < 0) break;
    }
  }
}

static long
json_long(const char *s, const char *key, long dflt) {
  char pat[64];
  const char *p;
  snprintf(pat, sizeof(pat), "\"%s\":", key);
  p = strstr(s, pat);
  return p ? strtol(p + strlen(pat), NULL, 10) : dflt;
}

static int
json_str(const char *s, const char *key, char *out, size_t n) {
  char pat[64];
  const char *p, *e;
  snprintf(pat, sizeof(pat), "\"%s\":\"", key);
  p = strstr(s, pat);
  if (!p) return 0;
  p += strlen(pat);
  e = strchr(p, '"');
  if (!e) return 0;
  snprintf(out, n, "%.*s", (int)(e - p), p);
  return 1;
}

int
main(int argc, char **argv) {
  const char *cfgs;
  char *copy, *save = NULL, *item;
  int len, with_scripted;
  drv_init(argc, argv);
  prop = drv_opt("prop", "C05");
  kv_set_universe((int)drv_opt_long("universe", 1));
  nested_mode = (int)drv_opt_long("nested", 1);
  bg_starve = (int)drv_opt_long("starve", 0);
  class_mask = (int)drv_opt_long("classes", 0x7f);
  len = (int)drv_opt_long("len", 2);
  with_scripted = (int)drv_opt_long("scripted", 1);
  cfgs = drv_opt("cfgs", "B1");
  if (drv_opt("base", NULL) && !drv.replay) {
    snprintf(base_text, sizeof(base_text), "%s", drv_opt("base", ""));
    nbase_ops = khist_parse(base_ops, MAXBASE, base_text);
    if (nbase_ops < 0) vh_die("bad --base history");
  }
  vs_init(&verdict_seen);
  vs_init(&nested_seen);
  vs_init(&outcome_set);
  add_op("P0.1!");
  add_op("P1.1");
  add_op("P0.2");
  add_op("B[P0.1,D1,P2.2]!");
  add_op("D0!");
  add_op("F");
  add_op("O");
  add_op("B[]!");   /* empty batch with sync: the "sync barrier" idiom; a 12-byte log record */
  if (drv_opt_long("wide", 0)) {
    add_op("C");
    add_op("M7");
    add_op("P2.2!");
    if (bg_starve) add_op("W");
  }

  if (drv.replay) {
    char hb[1024], cb[400];
    hist_t h;
    rec_t r;
    img_desc_t d;
    size_t *W, *S;
    if (!json_str(drv.replay, "history", hb, sizeof(hb)) || !json_str(drv.replay, "cfg", cb, sizeof(cb)))
      vh_die("bad replay payload");
    if (!kcfg_parse(&cfg, cb)) vh_die("bad cfg");
    if (cfg.universe >= 0) kv_set_universe(cfg.universe);
    if (json_str(drv.replay, "base", base_text, sizeof(base_text)) && base_text[0]) {
      nbase_ops = khist_parse(base_ops, MAXBASE, base_text);
      if (nbase_ops < 0) vh_die("bad base history in replay");
    }
    bg_starve = (int)json_long(drv.replay, "starve", 0);
    memset(&h, 0, sizeof(h));
    h.n = khist_parse(h.ops, MAXOPS, hb);
    if (h.n < 0) vh_die("bad history");
    memset(&d, 0, sizeof(d));
    d.t = (int)json_long(drv.replay, "t", -1);
    if (d.t < 0) {
      /* payload of a crashed case: re-run the whole history */
      explore_history(&h);
      drv_result("\"evaluations\":1");
      return 0;
    }
    d.D = (int)json_long(drv.replay, "D", 0);
    d.cls = (int)json_long(drv.replay, "cls", 0);
    d.torn_ino = (int)json_long(drv.replay, "torn_ino", -1);
    d.torn_len = (size_t)json_long(drv.replay, "torn_len", 0);
    d.others_written = (int)json_long(drv.replay, "others_written", 0);
    d.prod_mask = (unsigned)json_long(drv.replay, "prod_mask", 0);
    d.paranoid = (int)json_long(drv.replay, "paranoid", 0);
    d.nest_t = (int)json_long(drv.replay, "nest_t", -1);
    d.nest_cls = (int)json_long(drv.replay, "nest_cls", -1);
    if (!record(&r, &h)) vh_die("recording failed in replay: %s", r.err);
    W = malloc(sizeof(size_t) * (size_t)(r.v->ninodes + 1));
    S = malloc(sizeof(size_t) * (size_t)(r.v->ninodes + 1));
    vfs_lens_at(r.v, d.t, W, S);
    check_image(&r, &d, W, S, 1);
    if (!drv_nviol()) printf("REPLAY-OK\n");
    drv_result("\"evaluations\":1");
    return 0;
  }

  copy = strdup(cfgs);
  for (item = strtok_r(copy, ";", &save); item && !stop_now; item = strtok_r(NULL, ";", &save)) {
    if (!kcfg_parse(&cfg, item))
      vh_die("bad cfg %s", item);
    if (cfg.universe >= 0) kv_set_universe(cfg.universe);
    drv_note("cfg %s: all histories of length <= %d over %d operations%s, every journal index, image classes min/max/dir-ahead/data-ahead/intermediate/torn/per-file product, nested=%d", item, len, nalpha, with_scripted ? " + scripted histories" : "", nested_mode);
    enumerate(len, with_scripted);
  }
  free(copy);
  {
    char s[400];
    snprintf(s, sizeof(s), "{\"history\":\"%s\",\"crash_points\":\"every journal index 0..J\",\"images_per_point\":\"min,max,dir-ahead,data-ahead,each intermediate D x {synced,written}, every per-file choice of synced/written length, torn cuts of the last write\"}", scripted[0]);
    if (drv.shard == 0) drv_sample(s);
  }
  {
    char rj[700];
    snprintf(rj, sizeof(rj),
             "\"evaluations\":%llu,\"histories\":%llu,\"crash_points\":%llu,\"journal_entries\":%llu,\"images_generated\":%llu,"
             "\"distinct_images\":%llu,\"torn_cuts\":%llu,\"per_file_product_images\":%llu,\"product_points_capped_at_5_files\":%llu,\"recoveries\":%llu,\"followup_runs\":%llu,\"nested_recoveries\":%llu,\"exhaustive\":%s",
             (unsigned long long)n_recoveries, (unsigned long long)n_hist, (unsigned long long)n_points,
             (unsigned long long)n_journal, (unsigned long long)n_images, (unsigned long long)n_distinct_images,
             (unsigned long long)n_torn, (unsigned long long)n_product, (unsigned long long)n_product_capped, (unsigned long long)n_recoveries, (unsigned long long)n_followups,
             (unsigned long long)n_nested, stop_now ? "false" : "true");
    drv_result(rj);
  }
  return 0;
}
