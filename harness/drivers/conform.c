/* VH_LINK: kv
 * conform.c - binds the ENVIRONMENT MODEL (harness/vfs.c) to the real kernel.
 *
 * Every VFS-based check decides its property over the in-memory POSIX model of vfs.c.  This
 * driver replays behaviours on the model and on a real tmpfs directory (paths outside /vfs/ are
 * forwarded to the kernel with raw system calls) in lock-step and demands identical observations.
 *
 *  sys   ALL sequences (length <= n) over an alphabet of file-system calls on two file names, a
 *        second directory and one descriptor slot: after every call the return class and errno, after
 *        every sequence the directory tree (names, sizes, bytes) must be the same on both sides.
 *  hist  ALL lcdb histories (length <= n) over {put, put-1K, del, batch, flush, compact, reopen}:
 *        every API status, every read-back, and after the clean close the database directory (names
 *        and bytes of every file) must be identical on the model and on the kernel.
 *  lock  C20 on the REAL kernel: all sequences over {open, close, second open, refused opens,
 *        open attempt by a freshly exec'ed process}: the other process's ldb_open succeeds IFF this
 *        process holds no handle; the model's verdict (vfs_foreign_trylock) for the same sequence is
 *        compared as well.
 */
#define _GNU_SOURCE
#include <dirent.h>
#include <errno.h>
#include <fcntl.h>
#include <spawn.h>
#include <stdlib.h>
#include <string.h>
#include <sys/stat.h>
#include <sys/wait.h>
#include <unistd.h>
#include "kv.h"

extern char **environ;

#define MAXOPS 16
static kcfg_t cfg;
static char real_root[600];
static uint64_t n_sys, n_sys_calls, n_hist, n_hist_files, n_lock, n_helper, n_eval;
static int stop_now;

/* ---------------------------------------------------------------- tree observation */

typedef struct tree_s { int n; char name[64][96]; long size[64]; uint64_t hash[64]; int isdir[64]; } tree_t;

static uint64_t
fnv(uint64_t h, const void *p, size_t n) {
  const unsigned char *s = p;
  while (n--) { h ^= *s++; h *= 1099511628211ull; }
  return h;
}

static void
tree_walk(const char *root, const char *rel, tree_t *t) {
  char path[900];
  char names[64][64];
  int n = 0, i, a, b;
  DIR *d;
  struct dirent *e;
  snprintf(path, sizeof(path), "%s%s%s", root, rel[0] ? "/" : "", rel);
  d = opendir(path);
  if (!d) return;
  while ((e = readdir(d)) != NULL) {
    if (!strcmp(e->d_name, ".") || !strcmp(e->d_name, "..")) continue;
    if (n < 64) { snprintf(names[n], 64, "%s", e->d_name); n++; }
  }
  closedir(d);
  for (a = 1; a < n; a++)
    for (b = a; b > 0 && strcmp(names[b - 1], names[b]) > 0; b--) {
      char tmp[64];
      memcpy(tmp, names[b - 1], 64); memcpy(names[b - 1], names[b], 64); memcpy(names[b], tmp, 64);
    }
  for (i = 0; i < n && t->n < 64; i++) {
    struct stat st;
    char p2[1000], r2[200];
    int k = t->n;
    snprintf(r2, sizeof(r2), "%s%s%s", rel, rel[0] ? "/" : "", names[i]);
    snprintf(p2, sizeof(p2), "%s/%s", root, r2);
    if (stat(p2, &st) != 0) continue;
    snprintf(t->name[k], sizeof(t->name[k]), "%s", r2);
    t->isdir[k] = S_ISDIR(st.st_mode) ? 1 : 0;
    t->size[k] = t->isdir[k] ? 0 : (long)st.st_size;
    t->hash[k] = 14695981039346656037ull;
    t->n++;
    if (t->isdir[k]) {
      tree_walk(root, r2, t);
    } else {
      int fd = open(p2, O_RDONLY);
      if (fd >= 0) {
        unsigned char buf[4096];
        ssize_t r;
        while ((r = read(fd, buf, sizeof(buf))) > 0) t->hash[k] = fnv(t->hash[k], buf, (size_t)r);
        close(fd);
      }
    }
  }
}

static int
tree_diff(const tree_t *a, const tree_t *b, char *msg, size_t mn) {
  int i;
  if (a->n != b->n) {
    vh_buf_t s; vb_init(&s);
    vb_printf(&s, "model has %d entries [", a->n);
    for (i = 0; i < a->n; i++) vb_printf(&s, "%s ", a->name[i]);
    vb_printf(&s, "], kernel has %d [", b->n);
    for (i = 0; i < b->n; i++) vb_printf(&s, "%s ", b->name[i]);
    vb_printf(&s, "]");
    snprintf(msg, mn, "%s", s.p ? s.p : "");
    vb_free(&s);
    return 1;
  }
  for (i = 0; i < a->n; i++) {
    if (strcmp(a->name[i], b->name[i])) { snprintf(msg, mn, "entry %d: model '%s', kernel '%s'", i, a->name[i], b->name[i]); return 1; }
    if (a->isdir[i] != b->isdir[i]) { snprintf(msg, mn, "%s: directory on one side only", a->name[i]); return 1; }
    if (a->size[i] != b->size[i]) { snprintf(msg, mn, "%s: model size %ld, kernel size %ld", a->name[i], a->size[i], b->size[i]); return 1; }
    if (a->hash[i] != b->hash[i]) { snprintf(msg, mn, "%s: same size %ld, different bytes", a->name[i], a->size[i]); return 1; }
  }
  return 0;
}

static void
rm_rf(const char *path) {
  DIR *d = opendir(path);
  struct dirent *e;
  char names[64][64];
  int n = 0, i;
  if (!d) { unlink(path); return; }
  while ((e = readdir(d)) != NULL) {
    if (!strcmp(e->d_name, ".") || !strcmp(e->d_name, "..")) continue;
    if (n < 64) { snprintf(names[n], 64, "%s", e->d_name); n++; }
  }
  closedir(d);
  for (i = 0; i < n; i++) {
    char p[1000];
    struct stat st;
    snprintf(p, sizeof(p), "%s/%s", path, names[i]);
    if (stat(p, &st) == 0 && S_ISDIR(st.st_mode)) rm_rf(p); else unlink(p);
  }
  rmdir(path);
}

/* ---------------------------------------------------------------- part sys */

enum { Y_CREAT_A = 0, Y_CREAT_B, Y_EXCL_A, Y_TRUNC_A, Y_OPEN_RD_A, Y_WRITE, Y_READ, Y_FSYNC, Y_CLOSE, Y_REN_AB, Y_REN_BA, Y_UNLINK_A, Y_UNLINK_B,
       Y_LINK_AB, Y_MKDIR, Y_RMDIR, Y_REN_A_DIR, Y_ACCESS_A, Y_STAT_A, Y_STAT_B, Y_LSEEK0, Y_OPEN_DIR_A, Y_NCALLS };
static const char *yname[] = {"open(a,CREAT|WR|APPEND)", "open(b,CREAT|WR|APPEND)", "open(a,CREAT|EXCL|WR)", "open(a,CREAT|TRUNC|WR)", "open(a,RDONLY)", "write(fd,5)", "read(fd,3)", "fsync(fd)", "close(fd)",
                              "rename(a,b)", "rename(b,a)", "unlink(a)", "unlink(b)", "link(a,b)", "mkdir(d)", "rmdir(d)", "rename(a,d/a)", "access(a)", "stat(a)", "stat(b)", "lseek(fd,0)", "open(d/a,CREAT|WR)"};

typedef struct side_s { char root[700]; int fd; int nwr; } side_t;

/* one call on one side; returns an observation word: (ret class, errno, extra) */
static long
ycall(side_t *s, int c) {
  char a[800], b[800], d[800], da[800];
  long r = 0, extra = 0;
  struct stat st;
  snprintf(a, sizeof(a), "%s/a", s->root);
  snprintf(b, sizeof(b), "%s/b", s->root);
  snprintf(d, sizeof(d), "%s/d", s->root);
  snprintf(da, sizeof(da), "%s/d/a", s->root);
  errno = 0;
  switch (c) {
    case Y_CREAT_A: case Y_CREAT_B: case Y_EXCL_A: case Y_TRUNC_A: case Y_OPEN_RD_A: case Y_OPEN_DIR_A: {
      /* every writing descriptor appends: the model supports append-only files (all lcdb ever writes) */
      int fl = c == Y_EXCL_A ? (O_CREAT | O_EXCL | O_WRONLY | O_APPEND) : c == Y_TRUNC_A ? (O_CREAT | O_TRUNC | O_WRONLY | O_APPEND) : c == Y_OPEN_RD_A ? O_RDONLY : (O_CREAT | O_WRONLY | O_APPEND);
      int fd;
      if (s->fd >= 0) return -1000; /* slot busy: the call is skipped on both sides */
      /* stated abstraction of the model: O_TRUNC replaces the NAME by a fresh file (so that every file is
         append-only in the journal); truncating a file that has a second hard link would be seen through the
         other link on a real kernel.  lcdb never does that (it links only immutable tables); skipped here. */
      if (c == Y_TRUNC_A && stat(a, &st) == 0 && st.st_nlink > 1) return -1000;
      fd = open(c == Y_CREAT_B ? b : c == Y_OPEN_DIR_A ? da : a, fl, 0644);
      if (fd >= 0) { s->fd = fd; r = 0; } else r = -1;
      break;
    }
    case Y_WRITE: {
      char buf[5];
      if (s->fd < 0) return -1000;
      memset(buf, 'A' + (s->nwr++ % 26), 5);
      r = write(s->fd, buf, 5);
      break;
    }
    case Y_READ: {
      char buf[3] = {0, 0, 0};
      if (s->fd < 0) return -1000;
      r = read(s->fd, buf, 3);
      if (r > 0) extra = (long)fnv(7, buf, (size_t)r) & 0xffff;
      break;
    }
    case Y_FSYNC: if (s->fd < 0) return -1000; r = fsync(s->fd); break;
    case Y_LSEEK0: if (s->fd < 0) return -1000; r = (long)lseek(s->fd, 0, SEEK_SET); break;
    case Y_CLOSE: if (s->fd < 0) return -1000; r = close(s->fd); s->fd = -1; break;
    case Y_REN_AB: r = rename(a, b); break;
    case Y_REN_BA: r = rename(b, a); break;
    case Y_REN_A_DIR: r = rename(a, da); break;
    case Y_UNLINK_A: r = unlink(a); break;
    case Y_UNLINK_B: r = unlink(b); break;
    case Y_LINK_AB: r = link(a, b); break;
    case Y_MKDIR: r = mkdir(d, 0755); break;
    case Y_RMDIR: r = rmdir(d); break;
    case Y_ACCESS_A: r = access(a, F_OK); break;
    case Y_STAT_A: r = stat(a, &st); if (r == 0) extra = (long)st.st_size + 1000 * (long)st.st_nlink; break;
    case Y_STAT_B: r = stat(b, &st); if (r == 0) extra = (long)st.st_size + 1000 * (long)st.st_nlink; break;
  }
  return (r < 0 ? -1 : r) * 1000000L + (r < 0 ? errno : 0) * 10000L + extra % 10000;
}

static void
sys_seq(const int *ops, int n, int is_replay) {
  side_t m, k;
  vfs_t *v = vfs_new();
  int i;
  char msg[900];
  tree_t tm, tk;
  vh_buf_t rp;
  vfs_use(v);
  snprintf(m.root, sizeof(m.root), "/vfs/c");
  snprintf(k.root, sizeof(k.root), "%s/c", real_root);
  m.fd = k.fd = -1; m.nwr = k.nwr = 0;
  rm_rf(k.root);
  if (mkdir(m.root, 0755) != 0 || mkdir(k.root, 0755) != 0) vh_die("conform: cannot create roots (%s)", k.root);
  vb_init(&rp);
  vb_printf(&rp, "{\"part\":\"sys\",\"seq\":[");
  for (i = 0; i < n; i++) vb_printf(&rp, "%s%d", i ? "," : "", ops[i]);
  vb_printf(&rp, "]}");
  if (!is_replay) drv_case("%s", rp.p);
  msg[0] = 0;
  for (i = 0; i < n && !msg[0]; i++) {
    long om = ycall(&m, ops[i]), ok = ycall(&k, ops[i]);
    n_sys_calls++;
    if (om != ok)
      snprintf(msg, sizeof(msg), "call %d %s: model answers %ld (ret*1e6 + errno*1e4 + extra), kernel answers %ld", i, yname[ops[i]], om, ok);
  }
  if (m.fd >= 0) close(m.fd);
  if (k.fd >= 0) close(k.fd);
  if (!msg[0]) {
    memset(&tm, 0, sizeof(tm)); memset(&tk, 0, sizeof(tk));
    tree_walk(m.root, "", &tm);
    tree_walk(k.root, "", &tk);
    if (tree_diff(&tm, &tk, msg + 0, sizeof(msg)))
      ;
    else msg[0] = 0;
  }
  n_sys++; n_eval++;
  if (msg[0]) {
    vh_buf_t s; vb_init(&s);
    vb_printf(&s, "file-system model and kernel disagree after:");
    for (i = 0; i < n; i++) vb_printf(&s, " %s;", yname[ops[i]]);
    vb_printf(&s, " -> %s", msg);
    drv_viol("vfs-model-differs-from-kernel:sys", s.p, rp.p);
    vb_free(&s);
  }
  vb_free(&rp);
  rm_rf(k.root);
  vfs_free(v);
}

static void
sys_sequences(int maxlen) {
  int ops[MAXOPS], len;
  uint64_t idx = 0;
  for (len = 1; len <= maxlen && !stop_now; len++) {
    long total = 1, t;
    int i;
    for (i = 0; i < len; i++) total *= Y_NCALLS;
    for (t = 0; t < total; t++) {
      long x = t;
      if (!drv_mine(idx++)) continue;
      if ((t & 255) == 0 && drv_deadline_hit()) { stop_now = 1; break; }
      for (i = 0; i < len; i++) { ops[i] = (int)(x % Y_NCALLS); x /= Y_NCALLS; }
      sys_seq(ops, len, 0);
    }
  }
}

/* ---------------------------------------------------------------- part hist */

static kop_t halpha[16];
static int nhalpha;
static void add_h(const char *s) { if (!kop_parse(&halpha[nhalpha], s, NULL)) vh_die("bad op"); nhalpha++; }

typedef struct hrun_s { const kop_t *ops; int n; const char *db; int st[MAXOPS + 2]; int reads_ok; char err[300]; int done; } hrun_t;

static void
hist_body(void *arg) {
  hrun_t *r = arg;
  khist_t h;
  int i;
  kh_init(&h, &cfg, r->db);
  h.auto_drain = 1;
  r->st[0] = kh_open(&h);
  r->reads_ok = 1;
  for (i = 0; i < r->n && r->st[0] == LDB_OK; i++) {
    r->st[i + 1] = kh_apply(&h, &r->ops[i]);
    sch_drain();
    if (h.db && (!ko_gets(&h, &h.model, NULL, 1) || !ko_scan(&h, &h.model, NULL, NULL, 1))) {
      if (r->reads_ok) snprintf(r->err, sizeof(r->err), "after op %d: %s", i, h.err);
      r->reads_ok = 0;
    }
  }
  kh_close(&h);
  kh_clear(&h);
  r->done = 1;
}

static void
hist_one(const kop_t *ops, int n, int is_replay) {
  hrun_t rm, rk;
  sch_cfg_t sc;
  vfs_t *v = vfs_new();
  tree_t tm, tk;
  char kdb[800], msg[900], cb[200];
  vh_buf_t hb, rp;
  int i;
  memset(&sc, 0, sizeof(sc));
  sc.hook_points = 1;
  sc.step_max = 8000000;
  vfs_use(v);
  snprintf(kdb, sizeof(kdb), "%s/db", real_root);
  rm_rf(kdb);
  vb_init(&hb); vb_init(&rp);
  khist_print(ops, n, &hb);
  kcfg_print(&cfg, cb, sizeof(cb));
  vb_printf(&rp, "{\"part\":\"hist\",\"cfg\":\"%s\",\"history\":\"%s\"}", cb, hb.p ? hb.p : "");
  if (!is_replay) drv_case("%s", rp.p);
  memset(&rm, 0, sizeof(rm)); memset(&rk, 0, sizeof(rk));
  rm.ops = rk.ops = ops; rm.n = rk.n = n;
  rm.db = "/vfs/db"; rk.db = kdb;
  msg[0] = 0;
  if (sch_run(hist_body, &rm, &sc) != SCH_OK) snprintf(msg, sizeof(msg), "the run on the model did not complete: %s", sch_describe_block());
  else if (sch_run(hist_body, &rk, &sc) != SCH_OK) snprintf(msg, sizeof(msg), "the run on the kernel did not complete: %s", sch_describe_block());
  if (!msg[0]) {
    for (i = 0; i <= n; i++)
      if (rm.st[i] != rk.st[i]) { snprintf(msg, sizeof(msg), "status of step %d: %d on the model, %d on the kernel", i, rm.st[i], rk.st[i]); break; }
  }
  if (!msg[0] && rm.reads_ok != rk.reads_ok)
    snprintf(msg, sizeof(msg), "read-back differs: model side %s, kernel side %s", rm.reads_ok ? "right" : rm.err, rk.reads_ok ? "right" : rk.err);
  if (!msg[0] && !rk.reads_ok)
    snprintf(msg, sizeof(msg), "wrong read on BOTH sides: %s", rk.err);
  if (!msg[0]) {
    memset(&tm, 0, sizeof(tm)); memset(&tk, 0, sizeof(tk));
    tree_walk("/vfs/db", "", &tm);
    tree_walk(kdb, "", &tk);
    n_hist_files += (uint64_t)tk.n;
    if (!tree_diff(&tm, &tk, msg, sizeof(msg))) msg[0] = 0;
  }
  n_hist++; n_eval++;
  if (msg[0]) {
    vh_buf_t s; vb_init(&s);
    vb_printf(&s, "history '%s' (cfg %s) behaves differently on the file-system model and on the kernel: %s", hb.p ? hb.p : "", cb, msg);
    drv_viol("vfs-model-differs-from-kernel:hist", s.p, rp.p);
    vb_free(&s);
  }
  vb_free(&hb); vb_free(&rp);
  rm_rf(kdb);
  vfs_free(v);
}

/* longer scripted histories: log rotation, flushes, multi-level layouts, compactions, reopen chains, a backup-free mix */
static const char *conform_scripted[] = {
  "P0.2 P1.2 P2.2 P0.2 P1.2 F P2.1",
  "P0.1 F P0.1 F P1.1 F P0.1 F C P2.1",
  "P0.2 P1.2 P2.2 P0.2 O P1.1 O P2.1",
  "B[P0.1,D1,P2.2] P1.2 P1.2 P1.2 P1.2 O P0.1",
  "P0.1 P1.1 F R0:-:- R1:-:- P1.1 F D0 C O",
  "P0.2 P1.2 P2.2 P0.2 P1.2 P2.2 F P0.2 P1.2 P2.2 F R0:-:- O",
  NULL
};

static void
hist_all(int maxlen) {
  kop_t ops[MAXOPS];
  int len;
  uint64_t idx = 0;
  {
    int i;
    for (i = 0; conform_scripted[i] && !stop_now; i++) {
      kop_t sops[MAXOPS];
      int n = khist_parse(sops, MAXOPS, conform_scripted[i]);
      if (n < 0) vh_die("bad scripted history");
      if (!drv_mine(idx++)) continue;
      hist_one(sops, n, 0);
    }
  }
  for (len = 0; len <= maxlen && !stop_now; len++) {
    long total = 1, t;
    int i;
    for (i = 0; i < len; i++) total *= nhalpha;
    for (t = 0; t < total; t++) {
      long x = t;
      if (!drv_mine(idx++)) continue;
      if (drv_deadline_hit()) { stop_now = 1; break; }
      for (i = 0; i < len; i++) { ops[i] = halpha[x % nhalpha]; x /= nhalpha; }
      hist_one(ops, len, 0);
    }
  }
}

/* ---------------------------------------------------------------- part lock (real kernel, real second process) */

enum { L_OPEN = 0, L_CLOSE, L_OPEN2, L_FAIL_EXISTS, L_FAIL_CMP, L_FOREIGN, L_NKINDS };
static const char *lname[] = {"open", "close", "second-open", "open(error_if_exists)", "open(other comparator)", "open-by-another-process"};
static const char *self_exe;

static int
other_compare(const ldb_comparator_t *c, const ldb_slice_t *x, const ldb_slice_t *y) {
  size_t n = x->size < y->size ? x->size : y->size;
  int r = n ? memcmp(x->data, y->data, n) : 0;
  (void)c;
  if (r == 0) r = (x->size < y->size) ? -1 : (x->size > y->size);
  return r;
}

/* exec a fresh process that tries a real ldb_open of `db`; 1 = it opened the database, 0 = refused */
static int
helper_open(const char *db) {
  pid_t pid;
  int st = 0;
  char cb[200];
  char *argv[8];
  kcfg_print(&cfg, cb, sizeof(cb));
  argv[0] = (char *)self_exe; argv[1] = "--helper-open"; argv[2] = (char *)db; argv[3] = "--cfg"; argv[4] = cb; argv[5] = NULL;
  if (posix_spawn(&pid, self_exe, NULL, NULL, argv, environ) != 0) vh_die("conform: cannot spawn the helper process");
  while (waitpid(pid, &st, 0) < 0 && errno == EINTR) ;
  n_helper++;
  if (WIFEXITED(st) && WEXITSTATUS(st) == 0) return 1;
  if (WIFEXITED(st) && WEXITSTATUS(st) == 3) return 0;
  vh_die("conform: helper process ended abnormally (status 0x%x)", st);
  return 0;
}

typedef struct lockjob_s { int n; int ops[8]; const char *db; int real; int ok; char sig[64]; char err[400]; int foreign_got[8]; } lockjob_t;

static void
lfail(lockjob_t *j, const char *sig, const char *msg) {
  if (!j->ok) return;
  j->ok = 0;
  snprintf(j->sig, sizeof(j->sig), "%s", sig);
  snprintf(j->err, sizeof(j->err), "%s", msg);
}

static void
lock_body(void *arg) {
  lockjob_t *j = arg;
  kopt_t o;
  ldb_t *a = NULL;
  int i;
  char m[400];
  static ldb_comparator_t other;
  j->ok = 1;
  kopt_init(&o, &cfg);
  ldb_comparator_init(&other, "verif.OtherComparator", other_compare, NULL);
  {
    /* create the database */
    khist_t h; kop_t op;
    kh_init(&h, &cfg, j->db);
    if (kh_open(&h) != LDB_OK) vh_die("conform: create failed on %s", j->db);
    kop_parse(&op, "P0.1", NULL);
    kh_apply(&h, &op);
    kh_close(&h);
    kh_clear(&h);
  }
  for (i = 0; i < j->n && j->ok; i++) {
    int rc;
    ldb_t *b = NULL;
    j->foreign_got[i] = -1;
    switch (j->ops[i]) {
      case L_OPEN:
        if (a) break;
        rc = ldb_open(j->db, &o.opt, &a);
        if (rc != LDB_OK) {
          snprintf(m, sizeof(m), "step %d: open of a database nobody holds failed with %d (%s)", i, rc, ldb_strerror(rc));
          lfail(j, "lock-not-released", m);
          a = NULL;
        }
        sch_drain();
        break;
      case L_CLOSE:
        if (a) { ldb_close(a); a = NULL; }
        break;
      case L_OPEN2:
        rc = ldb_open(j->db, &o.opt, &b);
        if (a && rc == LDB_OK) { lfail(j, "second-handle-opened", "a second ldb_open of the same directory succeeded while a handle is open"); ldb_close(b); }
        else if (!a && rc == LDB_OK) { sch_drain(); ldb_close(b); }
        break;
      case L_FAIL_EXISTS: {
        ldb_dbopt_t o2 = o.opt;
        o2.error_if_exists = 1;
        rc = ldb_open(j->db, &o2, &b);
        if (rc == LDB_OK) { lfail(j, "error-if-exists-ignored", "open with error_if_exists succeeded on an existing database"); ldb_close(b); }
        break;
      }
      case L_FAIL_CMP: {
        ldb_dbopt_t o2 = o.opt;
        o2.comparator = &other;
        rc = ldb_open(j->db, &o2, &b);
        if (rc == LDB_OK) { lfail(j, "comparator-mismatch-accepted", "open with a different comparator succeeded"); ldb_close(b); }
        break;
      }
      case L_FOREIGN: {
        int got;
        if (j->real) got = helper_open(j->db);
        else {
          char lp[900];
          snprintf(lp, sizeof(lp), "%s/LOCK", j->db);
          got = vfs_foreign_trylock(vfs_cur, lp);
          if (got) vfs_foreign_unlock(vfs_cur, lp);
        }
        j->foreign_got[i] = got;
        if (a && got) {
          snprintf(m, sizeof(m), "step %d: another process %s while this process still holds an open handle", i, j->real ? "opened the database (real ldb_open in a freshly exec'ed process, real kernel)" : "obtained the lock");
          lfail(j, "lock-lost-while-open", m);
        }
        if (!a && !got) {
          snprintf(m, sizeof(m), "step %d: another process cannot open the database although this process holds no handle", i);
          lfail(j, "lock-not-released", m);
        }
        break;
      }
    }
  }
  if (a) ldb_close(a);
  kopt_clear(&o);
}

static void
lock_seq(const int *ops, int n, int is_replay) {
  lockjob_t jm, jk;
  sch_cfg_t sc;
  vfs_t *v = vfs_new();
  char kdb[800];
  vh_buf_t rp, s;
  int i;
  memset(&sc, 0, sizeof(sc));
  sc.step_max = 4000000;
  vfs_use(v);
  snprintf(kdb, sizeof(kdb), "%s/lockdb", real_root);
  rm_rf(kdb);
  vb_init(&rp); vb_init(&s);
  vb_printf(&rp, "{\"part\":\"lock\",\"seq\":[");
  for (i = 0; i < n; i++) vb_printf(&rp, "%s%d", i ? "," : "", ops[i]);
  vb_printf(&rp, "]}");
  if (!is_replay) drv_case("%s", rp.p);
  memset(&jm, 0, sizeof(jm)); memset(&jk, 0, sizeof(jk));
  jm.n = jk.n = n;
  memcpy(jm.ops, ops, sizeof(int) * (size_t)n); memcpy(jk.ops, ops, sizeof(int) * (size_t)n);
  jm.db = "/vfs/lockdb"; jm.real = 0;
  jk.db = kdb; jk.real = 1;
  for (i = 0; i < n; i++) vb_printf(&s, "%s%s", i ? " ; " : "", lname[ops[i]]);
  if (sch_run(lock_body, &jk, &sc) != SCH_OK) { jk.ok = 1; lfail(&jk, "lifecycle-hang", sch_describe_block()); }
  if (sch_run(lock_body, &jm, &sc) != SCH_OK) { jm.ok = 1; lfail(&jm, "lifecycle-hang", sch_describe_block()); }
  n_lock++; n_eval++;
  if (!jk.ok) {
    vh_buf_t d; vb_init(&d);
    vb_printf(&d, "[real kernel] sequence '%s': %s", s.p, jk.err);
    drv_viol(jk.sig, d.p, rp.p);
    vb_free(&d);
  } else if (!jm.ok) {
    vh_buf_t d; vb_init(&d);
    vb_printf(&d, "sequence '%s': the property holds on the real kernel but fails on the file-system model (%s): the model's fcntl semantics differ from the kernel's", s.p, jm.err);
    drv_viol("vfs-model-differs-from-kernel:lock", d.p, rp.p);
    vb_free(&d);
  } else {
    for (i = 0; i < n; i++)
      if (jm.foreign_got[i] != jk.foreign_got[i]) {
        vh_buf_t d; vb_init(&d);
        vb_printf(&d, "sequence '%s', step %d: the other process gets the database on the %s only", s.p, i, jm.foreign_got[i] ? "model" : "kernel");
        drv_viol("vfs-model-differs-from-kernel:lock", d.p, rp.p);
        vb_free(&d);
        break;
      }
  }
  vb_free(&rp); vb_free(&s);
  rm_rf(kdb);
  vfs_free(v);
}

static void
lock_sequences(int maxlen) {
  int ops[8], len;
  uint64_t idx = 0;
  for (len = 1; len <= maxlen && !stop_now; len++) {
    long total = 1, t;
    int i;
    for (i = 0; i < len; i++) total *= L_NKINDS;
    for (t = 0; t < total; t++) {
      long x = t;
      int has_foreign = 0;
      for (i = 0; i < len; i++) { ops[i] = (int)(x % L_NKINDS); x /= L_NKINDS; if (ops[i] == L_FOREIGN) has_foreign = 1; }
      if (!has_foreign) continue; /* nothing observable by another process */
      if (ops[len - 1] != L_FOREIGN) continue; /* a sequence is judged by its observations: it ends with one */
      if (!drv_mine(idx++)) continue;
      if (drv_deadline_hit()) { stop_now = 1; break; }
      lock_seq(ops, len, 0);
    }
  }
}

/* ---------------------------------------------------------------- helper process */

typedef struct hopen_s { const char *db; int rc; } hopen_t;

static void
helper_body(void *arg) {
  hopen_t *h = arg;
  kopt_t o;
  ldb_t *db = NULL;
  kopt_init(&o, &cfg);
  o.opt.create_if_missing = 0;
  h->rc = ldb_open(h->db, &o.opt, &db);
  if (h->rc == LDB_OK) { sch_drain(); ldb_close(db); }
  kopt_clear(&o);
}

static int
parse_seq(const char *rp, int *ops, int max) {
  const char *p = strstr(rp, "\"seq\":[");
  int n = 0;
  if (!p) vh_die("bad replay");
  p += 7;
  while (*p && *p != ']' && n < max) { ops[n++] = (int)strtol(p, (char **)&p, 10); if (*p == ',') p++; }
  return n;
}

int
main(int argc, char **argv) {
  const char *parts, *cfgs;
  int syslen, histlen, locklen;
  char cwd[500];
  if (argc >= 3 && !strcmp(argv[1], "--helper-open")) {
    hopen_t h;
    sch_cfg_t sc;
    const char *c = "B1";
    int i;
    for (i = 3; i + 1 < argc; i++) if (!strcmp(argv[i], "--cfg")) c = argv[i + 1];
    kv_set_universe(1);
    if (!kcfg_parse(&cfg, c)) return 9;
    memset(&sc, 0, sizeof(sc));
    sc.step_max = 4000000;
    h.db = argv[2]; h.rc = -1;
    if (sch_run(helper_body, &h, &sc) != SCH_OK) return 8;
    return h.rc == LDB_OK ? 0 : 3;
  }
  drv_init(argc, argv);
  kv_set_universe(1);
  self_exe = "/proc/self/exe";
  {
    static char exe[900];
    ssize_t n = readlink("/proc/self/exe", exe, sizeof(exe) - 1);
    if (n > 0) { exe[n] = 0; self_exe = exe; }
  }
  parts = drv_opt("parts", "sys,hist,lock");
  cfgs = drv_opt("cfgs", "B1");
  syslen = (int)drv_opt_long("syslen", 3);
  histlen = (int)drv_opt_long("len", 2);
  locklen = (int)drv_opt_long("locklen", 3);
  if (!getcwd(cwd, sizeof(cwd))) vh_die("getcwd");
  snprintf(real_root, sizeof(real_root), "%s/conform_real_%d_%d", cwd, drv.shard, (int)getpid());
  rm_rf(real_root);
  if (mkdir(real_root, 0755) != 0) vh_die("conform: cannot create %s", real_root);
  add_h("P0.1"); add_h("P1.2"); add_h("D0"); add_h("B[P0.1,D1,P2.1]"); add_h("F"); add_h("R0:-:-"); add_h("O");

  if (drv.replay) {
    int ops[MAXOPS], n;
    const char *p;
    char cb[200] = "B1";
    if ((p = strstr(drv.replay, "\"cfg\":\"")) != NULL) sscanf(p + 7, "%199[^\"]", cb);
    if (!kcfg_parse(&cfg, cb)) vh_die("cfg");
    if (strstr(drv.replay, "\"part\":\"sys\"")) { n = parse_seq(drv.replay, ops, MAXOPS); sys_seq(ops, n, 1); }
    else if (strstr(drv.replay, "\"part\":\"lock\"")) { n = parse_seq(drv.replay, ops, 8); lock_seq(ops, n, 1); }
    else {
      char hb[600] = "";
      kop_t kops[MAXOPS];
      p = strstr(drv.replay, "\"history\":\"");
      if (!p) vh_die("bad replay");
      sscanf(p + 11, "%599[^\"]", hb);
      n = khist_parse(kops, MAXOPS, hb);
      if (n < 0) vh_die("bad history");
      hist_one(kops, n, 1);
    }
    if (!drv_nviol()) printf("REPLAY-OK\n");
    drv_result("\"evaluations\":1");
    rm_rf(real_root);
    return 0;
  }

  if (!kcfg_parse(&cfg, "B1")) vh_die("cfg");
  if (strstr(parts, "sys")) sys_sequences(syslen);
  {
    char *copy = strdup(cfgs), *save = NULL, *item;
    for (item = strtok_r(copy, ";", &save); item && !stop_now; item = strtok_r(NULL, ";", &save)) {
      if (!kcfg_parse(&cfg, item)) vh_die("bad cfg");
      if (strstr(parts, "hist")) hist_all(histlen);
      if (strstr(parts, "lock")) lock_sequences(locklen);
    }
    free(copy);
  }
  drv_note("environment-model conformance: file-system call sequences <= %d over %d calls, lcdb histories <= %d over %d ops (cfgs %s), lock sequences <= %d over 6 steps ending in an open attempt by a freshly exec'ed process; every observation compared between harness/vfs.c and the kernel (tmpfs)", syslen, (int)Y_NCALLS, histlen, nhalpha, cfgs, locklen);
  if (drv.shard == 0) {
    drv_sample("{\"conformance\":\"sys\",\"sequence\":\"open(a,CREAT|WR|APPEND); write(fd,5); link(a,b); unlink(a); stat(b)\",\"compared\":\"return value, errno, size/nlink, final tree bytes\"}");
    drv_sample("{\"conformance\":\"lock\",\"sequence\":\"open ; second-open ; open-by-another-process\",\"invariant\":\"the other process's ldb_open succeeds iff no handle is open (real kernel fcntl)\"}");
  }
  {
    char r[500];
    snprintf(r, sizeof(r), "\"evaluations\":%llu,\"states\":%llu,\"transitions\":%llu,\"traces_validated_against_impl\":%llu,\"conform_sys_sequences\":%llu,\"conform_sys_calls\":%llu,\"conform_histories\":%llu,\"conform_files_compared\":%llu,\"conform_lock_sequences\":%llu,\"helper_processes\":%llu,\"exhaustive\":%s",
             (unsigned long long)n_eval, (unsigned long long)n_eval, (unsigned long long)(n_sys_calls + n_hist + n_lock), (unsigned long long)n_eval,
             (unsigned long long)n_sys, (unsigned long long)n_sys_calls, (unsigned long long)n_hist, (unsigned long long)n_hist_files,
             (unsigned long long)n_lock, (unsigned long long)n_helper, stop_now ? "false" : "true");
    drv_result(r);
  }
  rm_rf(real_root);
  return 0;
}
