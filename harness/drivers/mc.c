/* VH_LINK: kv layout ref_codecs rm_manifest
 * mc.c - E1: stateless schedule exploration of small closed multi-threaded
 * scenarios on the real lcdb, with iterative deviation (preemption) bounding.
 *
 * One execution = fresh copy of the scenario's initial file-system image, fresh
 * ldb_open, 2-3 foreground threads run under ONE choice sequence to completion,
 * join, final scan, ldb_close.  The explorer replays a choice prefix and takes
 * option 0 afterwards (base scheduler), then recurses on every alternative of
 * every later choice point whose cost stays within the bound: switching away
 * from a thread that could continue, or not taking the base scheduler's pick
 * at a blocking point, costs one deviation.  Two base schedulers are explored
 * (lowest-id-first, highest-id-first = background thread first).
 *
 * Oracles: linearizability (brute force over the <= 12 recorded operations
 * against a sorted-map model, incl. snapshot reads, iterator scans and the
 * final state), deadlock / step-limit (C09), sanitizer reports (C10: the tsan
 * flavour of this same driver).
 *
 *   --scenarios "D1,D2,..."   --bound <k>   --io 0|1   --spurious 0|1   --prop C08|C09|C10|C04
 */
#define _GNU_SOURCE
#include <errno.h>
#include <stdlib.h>
#include <string.h>
#include "kv.h"
#include "layout.h"

int ldb_repair(const char *dbname, const ldb_dbopt_t *options);

#define MAXTHR 4
#define MAXTOPS 6
#define MAXREC 24
static const char *DB = "/vfs/db";

typedef struct top_s {
  char kind;        /* 'W' write, g n t C F R y x */
  kop_t w;
  int k1, k2;
} top_t;

typedef struct scen_s {
  const char *name;
  const char *cfg;
  int universe;
  const char *init;      /* history that builds the initial image (sequential, then closed) */
  const char *pre;       /* history run by thread 0 after open, before the threads start (not explored) */
  const char *thr[MAXTHR];
  int close_early;       /* do not drain background work before ldb_close */
  const char *what;
  int flags;             /* 1: lose the metadata and ldb_repair the image (all tables end up in level 0);
                            2: do not drain background work after ldb_open */
} scen_t;

static const scen_t scenarios[] = {
  {"D1", "B1", 4, "", "", {"P0.1 P0.1", "P0.1 P0.1", "g0 g0"}, 0,
   "two writers x 2 puts on one key + reader x 2 gets"},
  {"D1f", "B1,reuse=1", 4, "P0.2 P1.2 P0.2", "", {"P0.2 P0.1", "P0.1 g0", "g0 g0"}, 0,
   "as D1 but the memtable is nearly full: first write switches memtables, background flush in flight"},
  {"D2", "B1", 4, "", "", {"B[P0.1,P1.1]", "B[P0.1,P1.1]", "B[P0.1,P1.1]", "n01 n01"}, 0,
   "three writers x one 2-key batch (group commit) + snapshot reader of both keys"},
  {"D3", "B1", 4, "P0.1 F P1.1 F P0.1 F P1.1", "", {"P0.1 B[P0.1,P1.1]", "t t", "C"}, 0,
   "writer + iterator scanner + manual compaction over a 3-level layout"},
  {"D4", "B1", 4, "", "", {"P0.1! P1.1!", "P0.1 P1.1", "g0 g1 g0"}, 0,
   "sync writer + non-sync writer (sync must not be merged into non-sync group) + reader"},
  {"D4b", "B1", 4, "", "", {"P0.1", "P1.1", "P0.1!"}, 0,
   "three writers, the last one sync: a non-sync writer can become group leader with the sync writer queued behind it"},
  {"D4c", "B1", 4, "", "", {"P0.1!", "P1.1", "P1.1! g0"}, 0,
   "sync leader, non-sync follower, sync follower + read"},
  {"D14", "B1", 4, "P0.1 F P0.1 F P0.1 F P0.1 F", "", {"P0.2 P1.2 P0.2 P1.2 P0.1 P1.1", "R0"}, 0,
   "a writer fills and switches the memtable (5th put) while a manual level-0 compaction is in its unlocked tail"},
  {"D15", "B1", 4, "P0.1 F P1.1 F P0.1 F", "", {"C", "P0.2 F", "y"}, 0,
   "ldb_compact (level scan + manual compactions) while another thread flushes and installs new versions, plus property reads"},
  {"D5", "B1", 4, "P0.1 F P0.1 F", "", {"P0.2 P1.2", "y x y", "x n01"}, 0,
   "writer + property/approximate-sizes + snapshot churn"},
  {"D6", "B1,reuse=1", 4, "P0.2 P1.2 P0.2", "", {"P0.2 P0.2", "P1.2", "P0.1", "g0"}, 0,
   "three writers queue behind a head writer stalled on a full write buffer"},
  {"D8", "B1", 4, "P0.1 F P0.1 F P0.1 F P0.1", "", {"P0.2 P0.2 P0.2 P0.2", "F"}, 1,
   "close races a scheduled/running background compaction and the thread-pool handshake"},
  {"D9", "B1", 4, "P0.1 F P1.1 F P0.1 F", "", {"R0", "P0.2 P1.2", "R1"}, 0,
   "two manual range compactions wait on the background signal while a writer runs"},
  {"D10", "B1", 4, "P0.1 F P0.1", "", {"x x", "n01 g0", "P0.1 D0"}, 0,
   "snapshot/release churn x readers x writer"},
  {"D11", "B1", 4, "P0.1 F P1.1", "", {"t", "P0.2 P1.2 F", "t"}, 0,
   "iterators created and walked while a flush replaces the memtable and retires files"},
  {"D12", "B1", 4, "P0.1 F P1.1 F P0.1", "", {"P0.2 B[P0.1,P1.1]", "K", "P1.2 F"}, 0,
   "ldb_backup concurrent with a batch writer and with a writer that forces a flush/compaction"},
  {"D13", "B1,reuse=1", 4, "P0.2 P1.2 P0.2", "", {"B[P0.1,P1.1] B[D0,D1]", "K", "P0.2"}, 0,
   "ldb_backup while the memtable is being switched and flushed in the background"},
  {"D7", "B1", 0, "P0.1 F P1.1 F P2.1 F P3.1 F P0.1 F P1.1 F P2.1 F P3.1 F P0.1 F P1.1 F P2.1 F P3.1", "",
   {"P0.2 P1.2 P0.2 P1.2 P0.2 P1.2", "P2.1", "g0 g1"}, 0,
   "12 level-0 files (repaired image): a writer that fills the write buffer stalls on the level-0 stop trigger until the compaction started at open completes", 3},
  {"D16", "B1", 1, "", "", {"P2.1", "P2.1", "B[P0.3,P1.3]"}, 0,
   "three writers, the last batch (140 KB) exceeds the group-commit size limit behind a small leader"},
  {"D17", "B1", 4, "P0.1 F", "", {"g0 g0", "P0.1 C", "g0"}, 0,
   "readers of a key that always exists while a writer overwrites it and a full compaction merges the two versions (the shadowed one is dropped)"},
  {"D2c", "B1", 0, "", "", {"P0.1 P0.1", "P1.1", "B[P2.1,P3.1]", "n23 n23"}, 0,
   "group commit over DISJOINT keys: a leader with two queued followers (one a 2-key batch), a later small write by the first writer, and a snapshot reader of the batch's keys: every merged batch stays visible as a whole and in order"},
  {"D18", "B1", 4, "P0.1 P1.1 F", "", {"B[P0.1,D1] P1.1", "h01 h01", "C"}, 0,
   "a snapshot taken while a batch (overwrite + delete) is in flight is HELD and re-read (lookups + iterator) after the write and a full compaction completed: its view never moves"},
  {"D19", "B1", 4, "P0.1 P1.1 F", "", {"h01", "P0.1 H P0.1 C"}, 0,
   "two live snapshots of different age: an older one held by a reader, a newer one taken between two overwrites by the thread that then runs a full (merging) compaction: the older snapshot still sees its version"},
  {"D20", "B1", 4, "", "", {"o c", "o c", "q q"}, 0,
   "two threads open and close the SAME second directory through handles of their own while another process probes its lock: never two handles at once, the lock is never lost while a handle is open"},
  {"D18f", "B1,reuse=1", 4, "P0.2 P1.2 P0.2", "", {"B[P0.1,D1] P1.2", "h01 h01"}, 0,
   "as D18 with a nearly full memtable: the in-flight write switches memtables and a background flush runs while the snapshot is held"},
  {"D2e", "B1", 0, "", "", {"P0.1 P2.1", "P1.1", "B[P2.1,P3.1]"}, 0,
   "group commit (leader + two queued followers), then the first writer overwrites a key of a follower's batch: sequence numbers stay unique and increasing (C14: checked on the flushed tables)"},
  {"D2b", "B1", 4, "", "", {"B[P0.1,P1.1]", "B[D0,D1]", "t t"}, 0,
   "batch writer + batch deleter + iterator scanner (both keys or none)"},
};
#define NSCEN ((int)(sizeof(scenarios) / sizeof(scenarios[0])))

static const scen_t *sc;
static kcfg_t cfg;
static top_t prog[MAXTHR][MAXTOPS];
static int nprog[MAXTHR], nthr_fg;
static vfs_t *image;          /* initial image template */
static kmodel_t init_model;
static const char *prop = "C08";
static int use_io, use_spurious, bound = 2, base_sched, hook_mask = 3, do_crash;
static uint64_t n_crash_images, n_crash_recoveries, n_crash_points, n_exec_switch, n_exec_table;
static vh_set_t crash_seen;
static sch_point_t *main_trace;
static int main_trace_len, main_trace_cap;
/* --faults "fsync:MANIFEST,write:MANIFEST,..." x --fault-ords N: every explored schedule is also run with ONE injected
 * failure: the n-th call of that kind on a file whose name contains the pattern, counted from the moment the
 * threads start (a site name that does not depend on the schedule).  Oracle (C12): no hang; after the fault has
 * cleared, kill + reopen and close + reopen succeed and contain every batch whose write returned OK. */
static int fault_kind, fault_ord;
static char fault_name[16];
static int fault_j_join;        /* journal length when the foreground threads had joined */
static uint64_t n_fault_fired, n_fault_runs;
static int crash_nodedup;   /* replays must re-judge images already seen */

/* per-execution records (each thread writes only its own slot range) */
typedef struct oprec_s {
  int thread, idx;
  char kind;
  uint64_t inv, ret;
  int j_begin, j_end;     /* journal length when the call began / returned (crash stage) */
  int status;
  int vids[KV_MAXKEYS];   /* observed values (0 = absent), -1 n/a */
  kop_t w;
  int k1, k2;
} oprec_t;

static oprec_t recs[MAXTHR][MAXTOPS];
static int nrecs[MAXTHR];
static int final_vids[KV_MAXKEYS];
static char held_err[600];
static uint64_t n_layout_checks;
static const ldb_snapshot_t *kept_snap[8];
#define DB2 "/vfs/db2"
static ldb_t *own_db[8];
static kopt_t own_opt[8];
static int own_open_count;
static int final_ok;
static char exec_err[500];
static ldb_t *gdb;
static unsigned char *tbuf[MAXTHR + 1];

static uint64_t n_exec, n_points, n_choicepoints, n_lin_orders;
static int max_dev_done = -1;
static vh_set_t outcome_set;

/* ---------------- scenario parsing ---------------- */

static void
parse_prog(int t, const char *s) {
  nprog[t] = 0;
  while (*s) {
    top_t *o;
    while (*s == ' ') s++;
    if (!*s) break;
    if (nprog[t] >= MAXTOPS) vh_die("thread program too long");
    o = &prog[t][nprog[t]];
    memset(o, 0, sizeof(*o));
    if (strchr("PDBM", *s)) {
      o->kind = 'W';
      if (!kop_parse(&o->w, s, &s)) vh_die("bad write op in scenario");
    } else if (*s == 'g') { o->kind = 'g'; o->k1 = s[1] - '0'; s += 2; }
    else if (*s == 'n') { o->kind = 'n'; o->k1 = s[1] - '0'; o->k2 = s[2] - '0'; s += 3; }
    else if (*s == 'h') { o->kind = 'h'; o->k1 = s[1] - '0'; o->k2 = s[2] - '0'; s += 3; }
    else if (*s == 'R') { o->kind = 'R'; o->k1 = s[1] - '0'; s += 2; }
    else if (strchr("tCFyxKHocq", *s)) { o->kind = *s; s++; }
    else vh_die("bad op '%c' in scenario", *s);
    nprog[t]++;
  }
}

static int thread_vid(int t, int j, int u) { return (t + 1) * 1000 + j * 8 + u; }

/* ---------------- thread bodies ---------------- */

static int
read_vid(const ldb_slice_t *v, int t) {
  int vid, sz;
  if (!kv_vparse(v->data, v->size, &vid, &sz, tbuf[t]))
    return -2; /* alien bytes */
  return vid;
}

static void
do_get(int t, int k, const ldb_snapshot_t *snap, int *out, int *status) {
  ldb_readopt_t ro = *ldb_readopt_default;
  ldb_slice_t key = ldb_slice(kv_keys[k], kv_keylen[k]), val;
  int rc;
  ro.snapshot = snap;
  rc = ldb_get(gdb, &key, &val, &ro);
  *status = rc;
  if (rc == LDB_OK) {
    *out = read_vid(&val, t);
    ldb_free(val.data);
  } else {
    *out = 0;
  }
}

static void
do_scan(int t, ldb_iter_t *it, int *vids, int *status) {
  int k;
  for (k = 0; k < KV_MAXKEYS; k++) vids[k] = 0;
  for (ldb_iter_first(it); ldb_iter_valid(it); ldb_iter_next(it)) {
    ldb_slice_t key = ldb_iter_key(it), val = ldb_iter_value(it);
    int found = 0;
    for (k = 0; k < kv_nkeys; k++)
      if (key.size == kv_keylen[k] && (key.size == 0 || memcmp(key.data, kv_keys[k], key.size) == 0)) {
        vids[k] = read_vid(&val, t);
        found = 1;
      }
    if (!found && !((do_crash || fault_kind) && key.size == 3 && ((const char *)key.data)[0] == 'm')) vids[0] = -3; /* alien key */
  }
  *status = ldb_iter_status(it);
}

static void
thread_body(void *arg) {
  int t = (int)(long)arg, j, u;
  for (j = 0; j < nprog[t]; j++) {
    const top_t *o = &prog[t][j];
    oprec_t *r = &recs[t][j];
    int k;
    memset(r, 0, sizeof(*r));
    r->thread = t; r->idx = j; r->kind = o->kind; r->w = o->w; r->k1 = o->k1; r->k2 = o->k2;
    for (k = 0; k < KV_MAXKEYS; k++) r->vids[k] = -1;
    switch (o->kind) {
      case 'W': {
        ldb_batch_t b;
        ldb_writeopt_t wo = *ldb_writeopt_default;
        wo.sync = o->w.sync;
        ldb_batch_init(&b);
        if (do_crash || fault_kind) {
          /* marker key of this batch: m<thread><op> */
          char mk[4];
          ldb_slice_t key, val;
          mk[0] = 'm'; mk[1] = (char)('0' + t); mk[2] = (char)('0' + j); mk[3] = 0;
          kv_vgen(tbuf[t], thread_vid(t, j, 7), VS_SHORT);
          key = ldb_slice(mk, 3);
          val = ldb_slice(tbuf[t], kv_vlen(VS_SHORT));
          ldb_batch_put(&b, &key, &val);
        }
        for (u = 0; u < o->w.n; u++) {
          ldb_slice_t key = ldb_slice(kv_keys[o->w.u[u].key], kv_keylen[o->w.u[u].key]);
          if (o->w.u[u].del) {
            ldb_batch_del(&b, &key);
          } else {
            ldb_slice_t val;
            kv_vgen(tbuf[t], thread_vid(t, j, u), o->w.u[u].sz);
            val = ldb_slice(tbuf[t], kv_vlen(o->w.u[u].sz));
            ldb_batch_put(&b, &key, &val);
          }
        }
        r->inv = sch_event();
        r->j_begin = vfs_jlen(vfs_cur);
        r->status = ldb_write(gdb, &b, &wo);
        r->j_end = vfs_jlen(vfs_cur);
        r->ret = sch_event();
        ldb_batch_clear(&b);
        break;
      }
      case 'g':
        r->inv = sch_event();
        do_get(t, o->k1, NULL, &r->vids[0], &r->status);
        r->ret = sch_event();
        if (r->status == LDB_NOTFOUND) r->status = LDB_OK;
        break;
      case 'n': {
        const ldb_snapshot_t *s;
        int st2;
        r->inv = sch_event();
        s = ldb_snapshot(gdb);
        r->ret = sch_event();
        do_get(t, o->k1, s, &r->vids[0], &r->status);
        do_get(t, o->k2, s, &r->vids[1], &st2);
        if (r->status == LDB_NOTFOUND) r->status = LDB_OK;
        if (st2 != LDB_OK && st2 != LDB_NOTFOUND) r->status = st2;
        ldb_release(gdb, s);
        break;
      }
      case 'h': {
        /* a HELD snapshot: both keys are read through it, the thread then makes an unrelated call (so that any
         * other thread can run to completion in between), and both keys and a full scan are read through the
         * SAME snapshot again: the view must not have moved (C06), and it is one point of the order (C08) */
        const ldb_snapshot_t *s;
        int st2, again[2], scan[KV_MAXKEYS], stx;
        ldb_readopt_t ro = *ldb_readopt_default;
        ldb_iter_t *it;
        char *pv = NULL;
        r->inv = sch_event();
        s = ldb_snapshot(gdb);
        r->ret = sch_event();
        do_get(t, o->k1, s, &r->vids[0], &r->status);
        do_get(t, o->k2, s, &r->vids[1], &st2);
        if (r->status == LDB_NOTFOUND) r->status = LDB_OK;
        if (st2 != LDB_OK && st2 != LDB_NOTFOUND) r->status = st2;
        if (ldb_property(gdb, "leveldb.num-files-at-level0", &pv)) ldb_free(pv);
        do_get(t, o->k1, s, &again[0], &stx);
        do_get(t, o->k2, s, &again[1], &stx);
        ro.snapshot = s;
        it = ldb_iterator(gdb, &ro);
        do_scan(t, it, scan, &stx);
        ldb_iter_destroy(it);
        if (!held_err[0] && (again[0] != r->vids[0] || again[1] != r->vids[1] || scan[o->k1] != r->vids[0] || scan[o->k2] != r->vids[1]))
          snprintf(held_err, sizeof(held_err), "thread %d: a held snapshot first showed key#%d=v%d key#%d=v%d, later lookups through the SAME snapshot show v%d / v%d and its iterator v%d / v%d",
                   t, o->k1, r->vids[0], o->k2, r->vids[1], again[0], again[1], scan[o->k1], scan[o->k2]);
        ldb_release(gdb, s);
        break;
      }
      case 't': {
        ldb_iter_t *it;
        r->inv = sch_event();
        it = ldb_iterator(gdb, NULL);
        r->ret = sch_event();
        do_scan(t, it, r->vids, &r->status);
        ldb_iter_destroy(it);
        break;
      }
      case 'C':
        r->inv = sch_event();
        ldb_compact(gdb, NULL, NULL);
        r->ret = sch_event();
        break;
      case 'F':
        r->inv = sch_event();
        r->status = ldb_test_compact_memtable(gdb);
        r->ret = sch_event();
        break;
      case 'R':
        r->inv = sch_event();
        ldb_test_compact_range(gdb, o->k1, NULL, NULL);
        r->ret = sch_event();
        break;
      case 'y': {
        char *v = NULL;
        ldb_range_t rg;
        uint64_t sz;
        r->inv = sch_event();
        if (ldb_property(gdb, "leveldb.sstables", &v)) ldb_free(v);
        if (ldb_property(gdb, "leveldb.stats", &v)) ldb_free(v);
        if (ldb_property(gdb, "leveldb.num-files-at-level0", &v)) ldb_free(v);
        if (ldb_property(gdb, "leveldb.approximate-memory-usage", &v)) ldb_free(v);
        rg.start = ldb_slice(kv_keys[0], kv_keylen[0]);
        rg.limit = ldb_slice("zz", 2);
        ldb_approximate_sizes(gdb, &rg, 1, &sz);
        r->ret = sch_event();
        break;
      }
      case 'x': {
        const ldb_snapshot_t *s;
        r->inv = sch_event();
        s = ldb_snapshot(gdb);
        ldb_release(gdb, s);
        r->ret = sch_event();
        break;
      }
      case 'o': {
        /* lifecycle under concurrency (C20): this thread opens a SECOND database directory through its own handle */
        kopt_t ko;
        int rc;
        kopt_init(&ko, &cfg);
        r->inv = sch_event();
        rc = ldb_open(DB2, &ko.opt, &own_db[t]);
        r->ret = sch_event();
        r->status = LDB_OK;
        if (getenv("VH_DEBUG_LIFE")) fprintf(stderr, "t%d open rc=%d count=%d\n", t, rc, own_open_count);
        if (rc != LDB_OK) own_db[t] = NULL;
        else {
          own_opt[t] = ko;
          if (++own_open_count > 1 && !held_err[0])
            snprintf(held_err, sizeof(held_err), "thread %d: ldb_open of %s succeeded while another thread holds an open handle of the same directory", t, DB2);
        }
        if (rc != LDB_OK) kopt_clear(&ko);
        break;
      }
      case 'c':
        sch_yield_point();   /* a scheduling point while the handle is fully open (before the bookkeeping below) */
        r->inv = sch_event();
        if (own_db[t]) {
          own_open_count--;
          ldb_close(own_db[t]);
          own_db[t] = NULL;
          kopt_clear(&own_opt[t]);
        }
        r->ret = sch_event();
        break;
      case 'q': {
        /* another PROCESS probes the lock (model's fcntl semantics, compared with the kernel's by the conform driver):
           it must not get it while a handle is fully open */
        int got, before = own_open_count;
        r->inv = sch_event();
        got = vfs_foreign_trylock(vfs_cur, DB2 "/LOCK");
        if (got) vfs_foreign_unlock(vfs_cur, DB2 "/LOCK");
        if (getenv("VH_DEBUG_LIFE")) fprintf(stderr, "t%d probe got=%d before=%d now=%d\n", t, got, before, own_open_count);
        if (got && before > 0 && own_open_count > 0 && !held_err[0])
          snprintf(held_err, sizeof(held_err), "thread %d: another process obtains the lock of %s while a thread of this process holds an open handle (a concurrent refused open dropped the lock)", t, DB2);
        r->ret = sch_event();
        break;
      }
      case 'H':
        /* take a snapshot and keep it until this thread's program ends (a second, newer live snapshot) */
        r->inv = sch_event();
        if (!kept_snap[t]) kept_snap[t] = ldb_snapshot(gdb);
        r->ret = sch_event();
        break;
      case 'K': {
        /* backup taken concurrently: read back by thread 0 after the join; it must equal the
         * database at ONE point inside this call (every batch wholly in or out) */
        char bak[64];
        snprintf(bak, sizeof(bak), "/vfs/bak%d", t);
        r->inv = sch_event();
        r->status = ldb_backup(gdb, bak);
        r->ret = sch_event();
        break;
      }
    }
    nrecs[t] = j + 1;
  }
  if (kept_snap[t]) { ldb_release(gdb, kept_snap[t]); kept_snap[t] = NULL; }
  if (own_db[t]) { own_open_count--; ldb_close(own_db[t]); own_db[t] = NULL; kopt_clear(&own_opt[t]); }
}

static void
exec_body(void *arg) {
  khist_t h;
  kop_t pre[16];
  int npre, i, t, tids[MAXTHR], st;
  ldb_iter_t *it;
  (void)arg;
  exec_err[0] = 0;
  held_err[0] = 0;
  memset(kept_snap, 0, sizeof(kept_snap));
  memset(own_db, 0, sizeof(own_db));
  own_open_count = 0;
  final_ok = 0;
  sch_quiet(1);
  kh_init(&h, &cfg, DB);
  h.auto_drain = 1;
  if (sc->flags & 2)
    h.auto_drain = 0;
  if (kh_open(&h) != LDB_OK) {
    snprintf(exec_err, sizeof(exec_err), "open failed: %d", h.open_status);
    kh_clear(&h);
    return;
  }
  h.auto_drain = 1;
  npre = khist_parse(pre, 16, sc->pre);
  for (i = 0; i < npre; i++)
    kh_apply(&h, &pre[i]);
  gdb = h.db;
  if (fault_kind) {
    vfs_fault_clear(vfs_cur);
    vfs_cur->fault.sel_kind = fault_kind;
    vfs_cur->fault.sel_ord = fault_ord;
    vfs_cur->fault.err = EIO;
    snprintf(vfs_cur->fault.sel_name, sizeof(vfs_cur->fault.sel_name), "%s", fault_name);
  }
  sch_quiet(0);
  for (t = 0; t < nthr_fg; t++)
    tids[t] = sch_spawn(thread_body, (void *)(long)t);
  for (t = 0; t < nthr_fg; t++)
    sch_join(tids[t]);
  fault_j_join = vfs_jlen(vfs_cur);
  /* read every backup back through an independent handle */
  for (t = 0; t < nthr_fg; t++)
    for (i = 0; i < nrecs[t]; i++)
      if (recs[t][i].kind == 'K' && recs[t][i].status == LDB_OK) {
        khist_t b;
        char bak[64];
        int bst;
        snprintf(bak, sizeof(bak), "/vfs/bak%d", t);
        kh_init(&b, &cfg, bak);
        if (kh_open(&b) != LDB_OK) {
          snprintf(exec_err, sizeof(exec_err), "the backup taken by thread %d does not open (status %d)", t, b.open_status);
        } else {
          ldb_iter_t *bi = ldb_iterator(b.db, NULL);
          do_scan(MAXTHR, bi, recs[t][i].vids, &bst);
          ldb_iter_destroy(bi);
          if (bst != LDB_OK)
            snprintf(exec_err, sizeof(exec_err), "scan of the backup taken by thread %d ends with status %d", t, bst);
        }
        kh_clear(&b);
      }
  if (!strcmp(prop, "C14")) {
    /* C14 after a concurrent execution: flush what the threads wrote and check the reported level structure with the
       independent decoders (duplicate-free sorted runs, shallower = strictly newer, MANIFEST fold == reported) */
    lay_stats_t ls;
    char le[500];
    memset(&ls, 0, sizeof(ls));
    ldb_test_compact_memtable(gdb);
    sch_drain();
    if (!lay_check(gdb, DB, &cfg, &ls, le, sizeof(le)) && !held_err[0])
      snprintf(held_err, sizeof(held_err), "layout after the concurrent execution and a flush: %s", le);
    n_layout_checks++;
  }
  /* final state */
  it = ldb_iterator(gdb, NULL);
  do_scan(MAXTHR, it, final_vids, &st);
  ldb_iter_destroy(it);
  final_ok = (st == LDB_OK);
  if (!sc->close_early)
    sch_drain();
  h.db = gdb;
  kh_clear(&h);   /* ldb_close under the explored schedule */
  gdb = NULL;
}

/* ---------------- linearizability ---------------- */

typedef struct lin_s {
  oprec_t *ops[MAXREC];
  int n;
} lin_t;

static vh_set_t lin_memo;

static int
lin_apply(const oprec_t *o, kmodel_t *m) {
  /* returns 1 if o's observed result is what the model gives at this point (and applies writes) */
  int u, k;
  switch (o->kind) {
    case 'W':
      for (u = 0; u < o->w.n; u++) {
        if (o->w.u[u].del) m->vid[o->w.u[u].key] = 0;
        else m->vid[o->w.u[u].key] = thread_vid(o->thread, o->idx, u);
      }
      return 1;
    case 'g': return o->vids[0] == m->vid[o->k1];
    case 'n': case 'h': return o->vids[0] == m->vid[o->k1] && o->vids[1] == m->vid[o->k2];
    case 't':
    case 'K':
    case 'Z':
      for (k = 0; k < kv_nkeys; k++)
        if (o->vids[k] != m->vid[k]) return 0;
      return 1;
    default: return 1;
  }
}

static int
lin_search(lin_t *L, unsigned done, const kmodel_t *m) {
  int i, j;
  uint64_t key;
  if (done == (1u << L->n) - 1)
    return 1;
  key = vh_mix(kmodel_hash(m), done);
  if (!vs_add(&lin_memo, key))
    return 0;
  n_lin_orders++;
  for (i = 0; i < L->n; i++) {
    kmodel_t m2;
    int minimal = 1;
    if (done & (1u << i)) continue;
    for (j = 0; j < L->n; j++)
      if (j != i && !(done & (1u << j)) && L->ops[j]->ret < L->ops[i]->inv) { minimal = 0; break; }
    if (!minimal) continue;
    m2 = *m;
    if (!lin_apply(L->ops[i], &m2)) continue;
    if (lin_search(L, done | (1u << i), &m2)) return 1;
  }
  return 0;
}

static int
check_linearizable(char *err, size_t en) {
  lin_t L;
  oprec_t fin;
  int t, j, k;
  L.n = 0;
  for (t = 0; t < nthr_fg; t++)
    for (j = 0; j < nrecs[t]; j++) {
      oprec_t *o = &recs[t][j];
      if (o->status != LDB_OK) {
        snprintf(err, en, "thread %d op %d (%c) returned status %d (%s)", t, j, o->kind, o->status, ldb_strerror(o->status));
        return 0;
      }
      for (k = 0; k < KV_MAXKEYS; k++)
        if (o->vids[k] < -1) {
          snprintf(err, en, "thread %d op %d (%c) observed bytes/keys that no write produced", t, j, o->kind);
          return 0;
        }
      if (strchr("WgntK", o->kind))
        L.ops[L.n++] = o;
    }
  memset(&fin, 0, sizeof(fin));
  fin.kind = 'Z';
  fin.inv = fin.ret = ~(uint64_t)0;
  for (k = 0; k < KV_MAXKEYS; k++) fin.vids[k] = final_vids[k];
  L.ops[L.n++] = &fin;
  vs_free(&lin_memo);
  vs_init(&lin_memo);
  if (lin_search(&L, 0, &init_model))
    return 1;
  {
    int p = 0;
    p += snprintf(err + p, en - (size_t)p, "no sequential order of the operations respecting real time explains the results:");
    for (j = 0; j < L.n && p < (int)en - 80; j++) {
      oprec_t *o = L.ops[j];
      if (o->kind == 'W') {
        vh_buf_t b; vb_init(&b); kop_print(&o->w, &b);
        p += snprintf(err + p, en - (size_t)p, " T%d:%s=v%d[%llu,%llu]", o->thread, b.p, thread_vid(o->thread, o->idx, 0),
                      (unsigned long long)o->inv, (unsigned long long)o->ret);
        vb_free(&b);
      } else if (o->kind == 'Z') {
        p += snprintf(err + p, en - (size_t)p, " final=[%d,%d,%d,%d]", o->vids[0], o->vids[1], o->vids[2], o->vids[3]);
      } else {
        p += snprintf(err + p, en - (size_t)p, " T%d:%c->[%d,%d,%d,%d][%llu,%llu]", o->thread, o->kind, o->vids[0], o->vids[1],
                      o->vids[2], o->vids[3], (unsigned long long)o->inv, (unsigned long long)o->ret);
      }
    }
  }
  return 0;
}

/* ---------------- one execution ---------------- */

typedef struct xres_s {
  int status;             /* SCH_* */
  int ok;
  char sig[48];
  char err[700];
  uint64_t outcome;
} xres_t;

static void crash_stage(vfs_t *v, xres_t *x);

static void
run_one(const int *prefix, int nprefix, xres_t *x) {
  sch_cfg_t c;
  vfs_t *v = vfs_clone(image);
  int t, j, k;
  memset(x, 0, sizeof(*x));
  memset(nrecs, 0, sizeof(nrecs));
  memset(&c, 0, sizeof(c));
  c.prefix = prefix;
  c.nprefix = nprefix;
  c.io_points = use_io;
  c.hook_points = hook_mask;
  c.step_max = 300000;
  c.allow_spurious = use_spurious;
  c.starve_default = base_sched;
  vfs_use(v);
  x->status = sch_run(exec_body, NULL, &c);
  /* keep the choice points of THIS execution: the crash stage below runs further (recovery)
   * executions that overwrite the scheduler's trace */
  if (sch_trace_len > main_trace_cap) {
    main_trace_cap = sch_trace_len * 2 + 64;
    main_trace = realloc(main_trace, sizeof(sch_point_t) * (size_t)main_trace_cap);
  }
  main_trace_len = sch_trace_len;
  if (sch_trace_len)
    memcpy(main_trace, sch_trace, sizeof(sch_point_t) * (size_t)sch_trace_len);
  n_exec++;
  n_points += (uint64_t)sch_steps;
  n_choicepoints += (uint64_t)sch_trace_len;
  x->ok = 1;
  if (x->status == SCH_DEADLOCK) {
    x->ok = 0;
    snprintf(x->sig, sizeof(x->sig), "deadlock");
    snprintf(x->err, sizeof(x->err), "deadlock: %s", sch_describe_block());
  } else if (x->status == SCH_STEPMAX) {
    x->ok = 0;
    snprintf(x->sig, sizeof(x->sig), "stuck");
    snprintf(x->err, sizeof(x->err), "execution exceeded the step limit (livelock or unbounded wait): %s", sch_describe_block());
  } else if (x->status == SCH_BADCHOICE) {
    vh_die("choice prefix diverged (nondeterminism)");
  } else if (fault_kind) {
    /* operations may fail under the injected fault: only the durability of acknowledged writes is judged (crash_stage) */
    n_fault_runs++;
    if (v->fault.fired) n_fault_fired++;
  } else if (exec_err[0]) {
    x->ok = 0;
    snprintf(x->sig, sizeof(x->sig), "exec-error");
    snprintf(x->err, sizeof(x->err), "%s", exec_err);
  } else if (held_err[0] && strcmp(prop, "C09") != 0) {
    x->ok = 0;
    snprintf(x->sig, sizeof(x->sig), "%s", strstr(held_err, "ldb_open of") || strstr(held_err, "obtains the lock") ? "lock-exclusivity-broken-concurrently" : strstr(held_err, "layout after") ? "layout-malformed-concurrent" : "held-snapshot-changed");
    snprintf(x->err, sizeof(x->err), "%s", held_err);
  } else if (strcmp(prop, "C09") != 0 && strcmp(prop, "C14") != 0) {   /* C14 is judged by the layout oracle only */
    char e[600];
    if (!final_ok) {
      x->ok = 0;
      snprintf(x->sig, sizeof(x->sig), "final-scan-status");
      snprintf(x->err, sizeof(x->err), "final scan ended with an error status");
    } else if (!check_linearizable(e, sizeof(e))) {
      x->ok = 0;
      snprintf(x->sig, sizeof(x->sig), "not-linearizable");
      snprintf(x->err, sizeof(x->err), "%s", e);
    }
  }
  /* outcome = all observed results */
  x->outcome = 7;
  for (t = 0; t < nthr_fg; t++)
    for (j = 0; j < nrecs[t]; j++)
      for (k = 0; k < 4; k++)
        x->outcome = vh_mix(x->outcome, (uint64_t)(recs[t][j].vids[k] + 5));
  for (k = 0; k < 4; k++)
    x->outcome = vh_mix(x->outcome, (uint64_t)(final_vids[k] + 5));
  x->outcome = vh_mix(x->outcome, (uint64_t)x->status);
  {
    /* anti-vacuity: did this execution switch memtables / produce a table in the background? */
    int q, sw = 0, tb = 0;
    for (q = 0; q < v->njournal; q++) {
      const vjent_t *e = &v->journal[q];
      if (e->kind == J_CREATE && e->tid != 0) {
        size_t l = strlen(e->path);
        if (l > 4 && strcmp(e->path + l - 4, ".log") == 0) sw = 1;
        if (l > 4 && strcmp(e->path + l - 4, ".ldb") == 0) tb = 1;
      }
    }
    n_exec_switch += (uint64_t)sw;
    n_exec_table += (uint64_t)tb;
  }
  if (getenv("VH_DEBUG_JOURNAL")) {
    int q, tq, kq;
    fprintf(stderr, "EXEC base=%d status=%d ok=%d J=%d acks:", base_sched, x->status, x->ok, v->njournal);
    for (tq = 0; tq < nthr_fg; tq++) for (kq = 0; kq < nrecs[tq]; kq++) if (recs[tq][kq].kind == 'W') fprintf(stderr, " T%d.%d[%d,%d]", tq, kq, recs[tq][kq].j_begin, recs[tq][kq].j_end);
    fprintf(stderr, " |");
    for (q = 0; q < v->njournal; q++) {
      const vjent_t *e = &v->journal[q];
      if (e->kind == J_UNLINK || e->kind == J_CREATE) fprintf(stderr, " j%d:t%d:%s:%s", q, e->tid, vfs_jkind(e->kind), strrchr(e->path, '/') + 1);
    }
    fprintf(stderr, "\n");
  }
  if ((do_crash || fault_kind) && x->ok && x->status == SCH_OK && strcmp(prop, "C09") != 0)
    crash_stage(v, x);
  vfs_free(v);
}


/* ---------------- crash stage (C02/C03 under concurrency) ---------------- */
/* The journal of an explored execution is an interleaved I/O trace of several writers and the
 * background thread.  Every journal index is a crash point; images min / max / dir-ahead /
 * data-ahead are recovered by the real ldb_open and the marker keys tell which batches survive:
 * a batch acknowledged with sync before the crash must survive every image (C02), every
 * acknowledged batch must survive the max image = process crash (C03). */

typedef struct cjob_s { uint32_t present; int open_rc; } cjob_t;

static void
crash_recover_body(void *arg) {
  cjob_t *j = arg;
  khist_t h;
  int t, k;
  kh_init(&h, &cfg, DB);
  j->present = 0;
  j->open_rc = kh_open(&h);
  if (j->open_rc == LDB_OK)
    for (t = 0; t < nthr_fg; t++)
      for (k = 0; k < nprog[t]; k++)
        if (prog[t][k].kind == 'W') {
          char mk[4];
          ldb_slice_t key;
          mk[0] = 'm'; mk[1] = (char)('0' + t); mk[2] = (char)('0' + k); mk[3] = 0;
          key = ldb_slice(mk, 3);
          if (ldb_has(h.db, &key, NULL) == LDB_OK)
            j->present |= 1u << (t * MAXTOPS + k);
        }
  kh_clear(&h);
}

static void
crash_stage(vfs_t *v, xres_t *x) {
  int J = v->njournal, tt, cls, t, k;
  size_t *W = malloc(sizeof(size_t) * (size_t)(v->ninodes + 1));
  size_t *S = malloc(sizeof(size_t) * (size_t)(v->ninodes + 1));
  size_t *lens = malloc(sizeof(size_t) * (size_t)(v->ninodes + 1));
  sch_cfg_t c;
  memset(&c, 0, sizeof(c));
  c.step_max = 2000000;
  vfs_fault_clear(v);   /* recoveries run after the fault has cleared */
  for (tt = 1; tt <= J && x->ok; tt++) {
    int nd = vfs_ndirops_before(v, tt), wm = vfs_watermark(v, tt);
    uint32_t acked = 0, must = 0;
    if (fault_kind && tt != J && tt != fault_j_join)
      continue;   /* fault mode: kill when the calls have returned, and after the clean close */
    n_crash_points++;
    vfs_lens_at(v, tt, W, S);
    for (t = 0; t < nthr_fg; t++)
      for (k = 0; k < nrecs[t]; k++)
        if (recs[t][k].kind == 'W' && recs[t][k].status == LDB_OK && recs[t][k].j_end <= tt) {
          acked |= 1u << (t * MAXTOPS + k);
          if (recs[t][k].w.sync) must |= 1u << (t * MAXTOPS + k);
        }
    for (cls = 0; cls < 4 && x->ok; cls++) {
      /* 0 min, 1 max, 2 dir-ahead, 3 data-ahead */
      if (fault_kind && cls != 1)
        continue;
      int D = (cls == 0 || cls == 3) ? wm : nd, i;
      vfs_t *img;
      cjob_t j;
      uint64_t key;
      for (i = 0; i < v->ninodes; i++) lens[i] = (cls == 1 || cls == 3) ? W[i] : S[i];
      img = vfs_image(v, tt, D, lens);
      n_crash_images++;
      key = vh_mix(vh_mix(vfs_hash(img, DB, 1), acked), vh_mix(must, (uint64_t)(cls == 1)));
      if (!vs_add(&crash_seen, key) && !crash_nodedup) { vfs_free(img); continue; }
      vfs_use(img);
      if (sch_run(crash_recover_body, &j, &c) != SCH_OK) { j.open_rc = -1; j.present = 0; }
      n_crash_recoveries++;
      if (j.open_rc == LDB_OK && !fault_kind) {
        char ce[300];
        if (kv_recovery_number_clash(img, DB, ce, sizeof(ce))) {
          x->ok = 0;
          snprintf(x->sig, sizeof(x->sig), "log-number-reused-by-recovery");
          snprintf(x->err, sizeof(x->err), "crash at journal index %d of %d of this interleaved execution (image class %d): %s", tt, J, cls, ce);
        }
      }
      if (!x->ok) {
        /* reported above */
      } else if (j.open_rc != LDB_OK) {
        x->ok = 0;
        snprintf(x->sig, sizeof(x->sig), fault_kind ? "open-fails-after-fault-cleared-concurrent" : "crash-open-failed");
        snprintf(x->err, sizeof(x->err), "crash at journal index %d of %d of this interleaved execution (image class %d): ldb_open fails with %d", tt, J, cls, j.open_rc);
      } else if (must & ~j.present) {
        x->ok = 0;
        snprintf(x->sig, sizeof(x->sig), "lost-synced-write-concurrent");
        snprintf(x->err, sizeof(x->err), "crash at journal index %d of %d of this interleaved execution, image class %d (0 min,1 max,2 dir-ahead,3 data-ahead): batches %x (bit = thread*%d+op) were acknowledged WITH sync before the crash but are missing after recovery (present %x)",
                 tt, J, cls, must & ~j.present, MAXTOPS, j.present);
      } else if (cls == 1 && (acked & ~j.present)) {
        x->ok = 0;
        snprintf(x->sig, sizeof(x->sig), fault_kind ? "acknowledged-write-lost-concurrent" : "process-crash-lost-ack-concurrent");
        snprintf(x->err, sizeof(x->err), "process crash at journal index %d of %d of this interleaved execution: acknowledged batches %x are missing after reopen (present %x)", tt, J, acked & ~j.present, j.present);
      }
      vfs_free(img);
    }
  }
  free(W); free(S); free(lens);
}

static void
report(const int *choices, int n, const xres_t *x) {
  vh_buf_t rp, dt;
  xres_t y;
  int i;
  crash_nodedup = 1;
  run_one(choices, n, &y);
  crash_nodedup = 0;
  if (y.ok)
    vh_die("violation did not reproduce on replay: %s", x->err);
  vb_init(&rp); vb_init(&dt);
  vb_printf(&rp, "{\"scenario\":\"%s\",\"io\":%d,\"spurious\":%d,\"base\":%d,\"hooks\":%d,\"crash\":%d,\"fkind\":%d,\"ford\":%d,\"fname\":\"%s\",\"choices\":[", sc->name, use_io, use_spurious, base_sched, hook_mask, do_crash, fault_kind, fault_ord, fault_name);
  for (i = 0; i < n; i++) vb_printf(&rp, "%s%d", i ? "," : "", choices[i]);
  vb_printf(&rp, "]}");
  vb_printf(&dt, "scenario %s (%s), schedule of %d choices: %s", sc->name, sc->what, n, x->err);
  drv_viol(x->sig, dt.p, rp.p);
  vb_free(&rp); vb_free(&dt);
}

/* ---------------- explorer ---------------- */

static int stop_now;
static uint64_t top_counter;
static int n_samples_emitted;

static void
announce(const int *choices, int n) {
  char buf[2000];
  int p = 0, i;
  p += snprintf(buf + p, sizeof(buf) - (size_t)p, "{\"scenario\":\"%s\",\"io\":%d,\"spurious\":%d,\"base\":%d,\"hooks\":%d,\"crash\":%d,\"fkind\":%d,\"ford\":%d,\"fname\":\"%s\",\"choices\":[", sc->name, use_io, use_spurious, base_sched, hook_mask, do_crash, fault_kind, fault_ord, fault_name);
  for (i = 0; i < n && p < 1900; i++) p += snprintf(buf + p, sizeof(buf) - (size_t)p, "%s%d", i ? "," : "", choices[i]);
  snprintf(buf + p, sizeof(buf) - (size_t)p, "]}");
  drv_case("%s", buf);
}

static void
explore(const int *prefix, int nprefix, int used, int maxdev, int top) {
  xres_t x;
  sch_point_t *tr;
  int n, i, alt;
  int *choices;
  if (stop_now) return;
  announce(prefix, nprefix);
  run_one(prefix, nprefix, &x);
  n = main_trace_len;
  tr = malloc(sizeof(sch_point_t) * (size_t)(n + 1));
  if (n)
    memcpy(tr, main_trace, sizeof(sch_point_t) * (size_t)n);
  choices = malloc(sizeof(int) * (size_t)(n + 2));
  for (i = 0; i < n; i++) choices[i] = tr[i].chosen;
  drv_set("outcomes", x.outcome);
  if (nprefix > 0 && n_samples_emitted < 2 && drv.shard == 0) {
    /* an actually explored schedule, written out */
    vh_buf_t sb;
    vb_init(&sb);
    vb_printf(&sb, "{\"scenario\":\"%s\",\"base_scheduler\":%d,\"deviations\":%d,\"choice_points\":%d,\"choices\":[", sc->name, base_sched, used, n);
    for (i = 0; i < n && i < 200; i++) vb_printf(&sb, "%s%d", i ? "," : "", choices[i]);
    vb_printf(&sb, "],\"status\":%d}", x.status);
    drv_sample(sb.p);
    vb_free(&sb);
    n_samples_emitted++;
  }
  if (!x.ok) {
    report(choices, n, &x);
    free(tr); free(choices);
    return;
  }
  if ((n_exec & 127) == 0) {
    xres_t y;
    run_one(choices, n, &y);
    n_exec--;
    if (y.outcome != x.outcome)
      vh_die("nondeterministic replay of a schedule");
  }
  if (drv_deadline_hit()) { stop_now = 1; free(tr); free(choices); return; }
  if (used < maxdev) {
    for (i = nprefix; i < n && !stop_now; i++) {
      for (alt = 1; alt < tr[i].nopt && !stop_now; alt++) {
        int saved = choices[i];
        if (top && !drv_mine(top_counter++))
          continue;
        choices[i] = alt;
        explore(choices, i + 1, used + 1, maxdev, 0);
        choices[i] = saved;
      }
    }
  }
  free(tr);
  free(choices);
}

/* ---------------- setup ---------------- */

static void
build_image_body(void *arg) {
  khist_t h;
  kop_t ops[32];
  int n, i;
  (void)arg;
  kh_init(&h, &cfg, DB);
  if (kh_open(&h) != LDB_OK) vh_die("scenario init: open failed");
  n = khist_parse(ops, 32, sc->init);
  if (n < 0) vh_die("bad init history");
  for (i = 0; i < n; i++)
    if (kh_apply(&h, &ops[i]) != LDB_OK) vh_die("scenario init: op failed");
  init_model = h.model;
  /* the pre history also changes the model (thread 0 applies it again in every execution) */
  {
    kop_t pre[16];
    int np = khist_parse(pre, 16, sc->pre);
    for (i = 0; i < np; i++) kh_model_apply(&init_model, &pre[i], n + i);
  }
  kh_close(&h);
  if (sc->flags & 1) {
    char names[256][64], p[300];
    int nn = vfs_list(vfs_cur, DB, names, 256);
    for (i = 0; i < nn; i++)
      if (strncmp(names[i], "MANIFEST-", 9) == 0 || strcmp(names[i], "CURRENT") == 0) {
        snprintf(p, sizeof(p), "%s/%s", DB, names[i]);
        vfs_remove(vfs_cur, p);
      }
    if (ldb_repair(DB, &h.o.opt) != LDB_OK) vh_die("scenario init: repair failed");
  }
  kh_clear(&h);
}

static void
setup_scenario(const scen_t *s) {
  sch_cfg_t c;
  vfs_t *v;
  int t;
  sc = s;
  if (!kcfg_parse(&cfg, s->cfg)) vh_die("bad scenario cfg");
  kv_set_universe(s->universe);
  nthr_fg = 0;
  for (t = 0; t < MAXTHR && s->thr[t]; t++) {
    parse_prog(t, s->thr[t]);
    nthr_fg++;
  }
  if (image) vfs_free(image);
  v = vfs_new();
  vfs_use(v);
  memset(&c, 0, sizeof(c));
  c.step_max = 4000000;
  if (sch_run(build_image_body, NULL, &c) != SCH_OK) vh_die("scenario init did not complete");
  image = vfs_clone(v);
  vfs_free(v);
}

int
main(int argc, char **argv) {
  const char *list;
  char *copy, *save = NULL, *item;
  int i, t, fi, fo, nfspecs = 1, fault_ords;
  struct { int kind; char name[16]; } fspecs[12];
  drv_init(argc, argv);
  memset(fspecs, 0, sizeof(fspecs));
  prop = drv_opt("prop", "C08");
  bound = (int)drv_opt_long("bound", 2);
  use_io = (int)drv_opt_long("io", 0);
  use_spurious = (int)drv_opt_long("spurious", 0);
  hook_mask = (int)drv_opt_long("hooks", 3);
  do_crash = (int)drv_opt_long("crash", 0);
  vs_init(&crash_seen);
  fault_ords = (int)drv_opt_long("fault-ords", 4);
  if (drv_opt("faults", NULL)) {
    char *fc = strdup(drv_opt("faults", "")), *fs = NULL, *it2;
    nfspecs = 0;
    for (it2 = strtok_r(fc, ",", &fs); it2 && nfspecs < 12; it2 = strtok_r(NULL, ",", &fs)) {
      char *colon = strchr(it2, ':');
      if (!colon) vh_die("bad --faults item %s", it2);
      *colon = 0;
      fspecs[nfspecs].kind = !strcmp(it2, "fsync") ? C_FSYNC : !strcmp(it2, "write") ? C_WRITE : !strcmp(it2, "open") ? C_OPEN :
                             !strcmp(it2, "rename") ? C_RENAME : !strcmp(it2, "unlink") ? C_UNLINK : !strcmp(it2, "close") ? C_CLOSE : 0;
      if (!fspecs[nfspecs].kind) vh_die("bad --faults kind %s", it2);
      snprintf(fspecs[nfspecs].name, sizeof(fspecs[nfspecs].name), "%s", colon + 1);
      nfspecs++;
    }
    free(fc);
  }
  list = drv_opt("scenarios", "D1");
  vs_init(&outcome_set);
  vs_init(&lin_memo);
  for (t = 0; t <= MAXTHR; t++)
    tbuf[t] = malloc(kv_vlen(VS_70K));

  if (drv.replay) {
    char name[32] = "";
    const char *p = strstr(drv.replay, "\"scenario\":\"");
    int choices[4096], n = 0;
    xres_t x;
    if (!p) vh_die("bad replay payload");
    sscanf(p + 12, "%31[^\"]", name);
    for (i = 0; i < NSCEN; i++)
      if (strcmp(scenarios[i].name, name) == 0) break;
    if (i == NSCEN) vh_die("unknown scenario %s", name);
    p = strstr(drv.replay, "\"io\":"); if (p) use_io = atoi(p + 5);
    p = strstr(drv.replay, "\"spurious\":"); if (p) use_spurious = atoi(p + 11);
    p = strstr(drv.replay, "\"base\":"); if (p) base_sched = atoi(p + 7);
    p = strstr(drv.replay, "\"hooks\":"); if (p) hook_mask = atoi(p + 8);
    p = strstr(drv.replay, "\"crash\":"); if (p) do_crash = atoi(p + 8);
    p = strstr(drv.replay, "\"fkind\":"); if (p) fault_kind = atoi(p + 8);
    p = strstr(drv.replay, "\"ford\":"); if (p) fault_ord = atoi(p + 7);
    p = strstr(drv.replay, "\"fname\":\""); if (p) sscanf(p + 9, "%15[^\"]", fault_name);
    setup_scenario(&scenarios[i]);
    p = strstr(drv.replay, "\"choices\":[");
    if (p) {
      p += 11;
      while (*p && *p != ']') {
        choices[n++] = (int)strtol(p, (char **)&p, 10);
        if (*p == ',') p++;
      }
    }
    crash_nodedup = 1;
    run_one(choices, n, &x);
    if (!x.ok) report(choices, n, &x);
    else printf("REPLAY-OK\n");
    drv_result("\"evaluations\":1");
    return 0;
  }

  copy = strdup(list);
  for (item = strtok_r(copy, ",", &save); item && !stop_now; item = strtok_r(NULL, ",", &save)) {
    int b;
    for (i = 0; i < NSCEN; i++)
      if (strcmp(scenarios[i].name, item) == 0) break;
    if (i == NSCEN) vh_die("unknown scenario %s", item);
    setup_scenario(&scenarios[i]);
    for (fi = 0; fi < nfspecs && !stop_now; fi++)
    for (fo = 1; fo <= (fspecs[fi].kind ? fault_ords : 1) && !stop_now; fo++)
    for (base_sched = 0; base_sched < 2 && !stop_now; base_sched++) {
      fault_kind = fspecs[fi].kind;
      fault_ord = fo;
      snprintf(fault_name, sizeof(fault_name), "%s", fspecs[fi].name);
      vs_free(&crash_seen); vs_init(&crash_seen);
      /* iterative bounding: finish bound b completely before b+1 */
      for (b = 0; b <= bound && !stop_now; b++) {
        top_counter = 0;
        if (b == 0) {
          if (drv.shard == 0) explore(NULL, 0, 0, 0, 0);
        } else {
          /* all schedules with exactly <= b deviations; the subtrees of the first deviation are dealt to shards.
           * (bounds < b are re-run as prefixes of deeper ones: accepted cost of stateless search) */
          if (b == bound || drv.nshards == 1) explore(NULL, 0, 0, b, 1);
        }
        if (!stop_now && b > max_dev_done && (b == 0 || b == bound)) max_dev_done = b;
      }
    }
    drv_note("scenario %s: %s; threads=%d bound=%d io=%d spurious=%d", sc->name, sc->what, nthr_fg, bound, use_io, use_spurious);
  }
  free(copy);
  {
    char s[600];
    snprintf(s, sizeof(s), "{\"scenario\":\"%s\",\"threads\":[\"%s\",\"%s\",\"%s\"],\"schedule\":\"choice sequence: prefix replayed, then base scheduler; <= %d deviations\"}",
             sc->name, sc->thr[0] ? sc->thr[0] : "", sc->thr[1] ? sc->thr[1] : "", sc->thr[2] ? sc->thr[2] : "", bound);
    if (drv.shard == 0) drv_sample(s);
  }
  {
    char r[1200];
    snprintf(r, sizeof(r),
             "\"evaluations\":%llu,\"states\":%llu,\"transitions\":%llu,\"traces_validated_against_impl\":%llu,\"choice_points\":%llu,"
             "\"linearization_nodes\":%llu,\"executions_with_memtable_switch\":%llu,\"executions_with_background_table\":%llu,\"crash_points\":%llu,\"crash_images\":%llu,\"crash_recoveries\":%llu,\"max_deviation_bound_completed\":%d,\"fault_runs\":%llu,\"fault_runs_where_fault_fired\":%llu,\"exhaustive\":%s",
             (unsigned long long)n_exec, (unsigned long long)n_exec, (unsigned long long)n_points, (unsigned long long)n_exec,
             (unsigned long long)n_choicepoints, (unsigned long long)n_lin_orders, (unsigned long long)n_exec_switch, (unsigned long long)n_exec_table, (unsigned long long)n_crash_points, (unsigned long long)n_crash_images, (unsigned long long)n_crash_recoveries, max_dev_done, (unsigned long long)n_fault_runs, (unsigned long long)n_fault_fired, stop_now ? "false" : "true");
    drv_result(r);
  }
  return 0;
}
