/* c18_decoders.c - C18 (direct decoder entry points), explorer E5.
 *
 * Oracle: every call returns (iterator walks and record loops carry a step cap:
 * exceeding it is the violation "nonterminating"), no ASan/UBSan report, no abort().
 * A sanitizer report kills this process; the orchestrator attributes it to the case
 * last announced with drv_case().  Every input is handed to lcdb in a heap block of
 * EXACTLY its length so that a one-byte over- or under-read is visible.
 *
 * Entry points (case text "ep=<name> hex=<input bytes>", also the --replay payload):
 *   blk    ldb_block_init + ldb_blockiter_create (bytewise comparator): first/next..., last/prev...,
 *          seek (from invalid and from valid positions), zig-zag; key()/value() bytes are all read
 *   blki   same with the internal-key comparator (as table.c uses for data/index blocks)
 *   foot   ldb_footer_import
 *   footp  ldb_footer_import of [input, zero padded to 40 bytes][table magic]
 *   hand   ldb_handle_import
 *   filt   ldb_filter_init + ldb_filter_matches (built-in bloom policy) at boundary block offsets
 *   snap   snappy_decode_size + malloc(min(declared size, 64*n+64)) + snappy_decode (ldb_read_block's sequence)
 *   edit   ldb_edit_import (+ ldb_edit_export and ldb_edit_debug of what was accepted)
 *   bat    write batch whose rep is the input: ldb_batch_iterate; if >= 12 bytes also
 *          ldb_batch_set_contents + ldb_batch_insert_into(memtable) as log recovery does
 *   bath   [12-byte header seq=0x0102030405060708 count=1][input] through set_contents/iterate/insert_into
 *   log    file with the input bytes on the harness VFS: ldb_seqfile_create + ldb_reader_init(checksum=1)
 *          + ldb_reader_read_record loop (as db_impl.c / version_set.c)
 *   lognc  same with checksum=0 (as repair.c)
 *   logp   input = [len_lo][len_hi][type][payload...]: file = that physical record with a CORRECT
 *          crc (when the declared length fits) followed by a valid FULL record; checksum=1
 *   pkey   ldb_pkey_import
 *   fname  ldb_parse_filename (input NUL-terminated)
 *
 * Domains: D1 all byte strings of length <= 2 (quick) / <= 3 (thorough) per entry point;
 * D1b all strings of length 3 (quick) / 3..5 (thorough) over a 24-value alphabet; D2 all strings of length <= 6 over
 * {00,01,07,7F,80,FF}; D3 per seed encoding: every single-offset substitution by
 * {00,01,02,07,08,7F,80,81,FE,FF}, every truncation, double-offset substitution by {00,FF} at
 * offsets <= 16 apart (quick) / by {00,7F,80,FF} at every offset pair (thorough); D4 (thorough) splices prefix(A)+suffix(B) of every ordered seed pair of an entry point;
 * D5 field-aware substitution: seeds parsed into numeric fields, each field and pairs of
 * fields (quick: same entry/record; thorough: all pairs) set to boundary values and
 * re-encoded at natural length (see the D5 section below).
 */
#include <inttypes.h>
#include <signal.h>
#include <sys/stat.h>
#include <sys/syscall.h>
#include <sys/time.h>
#include <unistd.h>
#include "drv.h"
#include "rm_manifest.h" /* own varint codec, used by the D5 seed parsers */

#include "util/bloom.h"
#include "util/buffer.h"
#include "util/coding.h"
#include "util/comparator.h"
#include "util/crc32c.h"
#include "util/env.h"
#include "util/options.h"
#include "util/slice.h"
#include "util/snappy.h"
#include "util/status.h"
#include "table/block.h"
#include "table/block_builder.h"
#include "table/filter_block.h"
#include "table/format.h"
#include "table/iterator.h"
#include "dbformat.h"
#include "filename.h"
#include "log_format.h"
#include "log_reader.h"
#include "log_writer.h"
#include "memtable.h"
#include "version_edit.h"
#include "write_batch.h"
#include "db_impl.h"

/* Page faults are very expensive on the verification host and ASan's default 256 MiB
 * quarantine plus periodic release-to-OS keeps touching fresh pages; a 16 MiB quarantine
 * still catches a use-after-free within the same and the following cases.  The
 * environment (ASAN_OPTIONS) can override this. */
const char *__asan_default_options(void);
const char *
__asan_default_options(void) {
  return "quarantine_size_mb=16:allocator_release_to_os_interval_ms=-1";
}

#define ALLOC_CAP ((size_t)256 << 20) /* allocation seam: a single request above this is answered NULL */

enum { EP_BLK, EP_BLKI, EP_FOOT, EP_FOOTP, EP_HAND, EP_FILT, EP_SNAP, EP_EDIT, EP_BAT, EP_BATH,
       EP_LOG, EP_LOGNC, EP_LOGP, EP_PKEY, EP_FNAME, EP_EDITDB, NEP };

static const char *EPN[NEP] = {"blk", "blki", "foot", "footp", "hand", "filt", "snap", "edit", "bat", "bath",
                               "log", "lognc", "logp", "pkey", "fname", "editdb"};

static uint64_t n_cases[NEP], n_accept[NEP], n_items[NEP];
static uint64_t n_seed_rejected;
static uint64_t n_eval, n_d1, n_d1b, n_d2, n_single, n_trunc, n_double, n_splice, n_enomem;
static int exhaustive = 1;
static const char *ep_viol; /* set by an entry point: "nonterminating" ... */
static char ep_viol_detail[200];
static volatile uint32_t sink;

static ldb_comparator_t ikc;

/* ------------------------------------------------------------------ */

/* Watchdog for a loop that never returns INSIDE lcdb (the step caps only guard this
 * driver's own loops): a 1 s interval timer; when the case counter has not moved for
 * WATCHDOG_S consecutive ticks the process reports and dies with exit code 94, which the
 * orchestrator attributes to the case announced last. */
#define WATCHDOG_S 30
static volatile uint64_t wd_progress;
static uint64_t wd_seen;
static int wd_stalled;

static void
wd_tick(int sig) {
  static const char msg[] = "runtime error: nonterminating: no case completed for 30 s (loop inside lcdb)\n";
  (void)sig;
  if (wd_progress != wd_seen) {
    wd_seen = wd_progress;
    wd_stalled = 0;
    return;
  }
  if (++wd_stalled >= WATCHDOG_S) {
    syscall(SYS_write, 2, msg, sizeof(msg) - 1);
    syscall(SYS_exit_group, 94);
  }
}

static void
wd_start(void) {
  struct sigaction sa;
  struct itimerval it;
  memset(&sa, 0, sizeof(sa));
  sa.sa_handler = wd_tick;
  sa.sa_flags = SA_RESTART;
  sigaction(SIGALRM, &sa, NULL);
  it.it_interval.tv_sec = 1;
  it.it_interval.tv_usec = 0;
  it.it_value = it.it_interval;
  setitimer(ITIMER_REAL, &it, NULL);
}

static uint32_t
touch(const ldb_slice_t *s) {
  uint32_t h = 0;
  size_t i;
  for (i = 0; i < s->size; i++)
    h = h * 31 + s->data[i];
  return h;
}

static void
nonterm(const char *where, long steps) {
  ep_viol = "nonterminating";
  snprintf(ep_viol_detail, sizeof(ep_viol_detail), "%s exceeded the step cap (%ld steps)", where, steps);
}

/* ---- block ---------------------------------------------------------- */

#define NSAVE 3

static int
ep_block(const uint8_t *p, size_t n, const ldb_comparator_t *cmp, int internal, uint64_t *items) {
  static const uint8_t zeros[8] = {0, 0, 0, 0, 0, 0, 0, 0};
  static const uint8_t ffs[9] = {255, 255, 255, 255, 255, 255, 255, 255, 255};
  static const uint8_t mid[9] = {'k', 0x80, 0, 0, 0, 0, 0, 0, 1};
  ldb_contents_t contents;
  ldb_block_t block;
  ldb_iter_t *it;
  ldb_buffer_t saved[NSAVE];
  ldb_slice_t targets[NSAVE + 5];
  int nt = 0, ns = 0, i;
  long cap = 10 * (long)n + 100, steps = 0;
  uint32_t h = 0;
  int fwd = 0, bwd = 0, st1, st2, st3 = 0, seek_valid = 0;

  for (i = 0; i < NSAVE; i++)
    ldb_buffer_init(&saved[i]);

  contents.data = ldb_slice(p, n);
  contents.cachable = 0;
  contents.heap_allocated = 0;
  ldb_block_init(&block, &contents);
  it = ldb_blockiter_create(&block, cmp);

  /* a fresh iterator is not positioned */
  if (ldb_iter_valid(it)) {
    ep_viol = "fresh-iterator-valid";
    snprintf(ep_viol_detail, sizeof(ep_viol_detail), "block iterator valid before any positioning call");
  }

  /* forward */
  ldb_iter_first(it);
  while (ldb_iter_valid(it)) {
    ldb_slice_t k, v;
    if (++steps > cap) {
      nonterm("forward walk", steps);
      break;
    }
    k = ldb_iter_key(it);
    v = ldb_iter_value(it);
    h += touch(&k) + touch(&v);
    if (ns < NSAVE && (fwd == 0 || fwd == 2 || fwd == 5))
      ldb_buffer_copy(&saved[ns++], &k);
    fwd++;
    ldb_iter_next(it);
  }
  st1 = ldb_iter_status(it);

  /* backward */
  steps = 0;
  ldb_iter_last(it);
  while (ldb_iter_valid(it)) {
    ldb_slice_t k, v;
    if (++steps > cap) {
      nonterm("backward walk", steps);
      break;
    }
    k = ldb_iter_key(it);
    v = ldb_iter_value(it);
    h += touch(&k) + touch(&v);
    bwd++;
    ldb_iter_prev(it);
  }
  st2 = ldb_iter_status(it);

  /* seek targets */
  for (i = 0; i < ns; i++)
    targets[nt++] = saved[i];
  targets[nt++] = ldb_slice(zeros, 8);
  targets[nt++] = ldb_slice(ffs, 9);
  targets[nt++] = ldb_slice(mid, 9);
  targets[nt++] = ldb_slice(zeros, internal ? 3 : 0); /* internal: too short, must be refused cleanly */
  targets[nt++] = ldb_slice(ffs, 1);                  /* internal: too short */

  for (i = 0; i < nt; i++) {
    int pos;
    /* pos 0: seek from an unpositioned iterator; 1: from the first entry; 2: from the last entry */
    for (pos = 0; pos < 3; pos++) {
      if (pos == 1)
        ldb_iter_first(it);
      else if (pos == 2)
        ldb_iter_last(it);
      if (pos && !ldb_iter_valid(it))
        continue;
      ldb_iter_seek(it, &targets[i]);
      if (ldb_iter_valid(it)) {
        ldb_slice_t k = ldb_iter_key(it), v = ldb_iter_value(it);
        h += touch(&k) + touch(&v);
        seek_valid++;
        ldb_iter_next(it);
        if (ldb_iter_valid(it)) {
          k = ldb_iter_key(it);
          h += touch(&k);
          ldb_iter_prev(it);
          if (ldb_iter_valid(it)) {
            k = ldb_iter_key(it);
            v = ldb_iter_value(it);
            h += touch(&k) + touch(&v);
          }
        }
      }
      st3 |= ldb_iter_status(it) != LDB_OK;
      if (pos == 0 && !ldb_iter_valid(it)) {
        /* seek past the end / refused: prev() from there is not allowed; re-position instead */
        ldb_iter_last(it);
        if (ldb_iter_valid(it)) {
          ldb_slice_t k = ldb_iter_key(it);
          h += touch(&k);
        }
      }
    }
  }

  /* zig-zag: first, then (next, next, prev)* */
  steps = 0;
  ldb_iter_first(it);
  while (ldb_iter_valid(it)) {
    ldb_slice_t k;
    if (++steps > cap) {
      nonterm("zig-zag walk", steps);
      break;
    }
    ldb_iter_next(it);
    if (!ldb_iter_valid(it))
      break;
    ldb_iter_next(it);
    if (!ldb_iter_valid(it))
      break;
    k = ldb_iter_key(it);
    h += touch(&k);
    ldb_iter_prev(it);
    if (!ldb_iter_valid(it))
      break;
    k = ldb_iter_key(it);
    h += touch(&k);
    ldb_iter_next(it);
  }

  ldb_iter_destroy(it);
  ldb_block_clear(&block);
  for (i = 0; i < NSAVE; i++)
    ldb_buffer_clear(&saved[i]);
  sink ^= h;
  *items = (uint64_t)fwd;
  return (fwd > 0) | (bwd > 0) << 1 | (st1 != LDB_OK) << 2 | (st2 != LDB_OK) << 3 | st3 << 4 |
         (fwd != bwd) << 5 | (seek_valid > 0) << 6 | (fwd > 15 ? 15 : fwd) << 8;
}

/* ---- footer / handle ------------------------------------------------ */

static int
ep_foot(const uint8_t *p, size_t n, uint64_t *items) {
  ldb_footer_t f;
  ldb_slice_t in = ldb_slice(p, n);
  int ok = ldb_footer_import(&f, &in);
  if (ok) {
    sink ^= (uint32_t)(f.metaindex_handle.offset + f.metaindex_handle.size + f.index_handle.offset + f.index_handle.size);
    *items = 1;
  }
  return ok;
}

static int
ep_footp(const uint8_t *p, size_t n, uint64_t *items) {
  uint8_t *b = malloc(LDB_FOOTER_SIZE);
  int r;
  if (n > LDB_FOOTER_SIZE - 8)
    n = LDB_FOOTER_SIZE - 8;
  memset(b, 0, LDB_FOOTER_SIZE);
  memcpy(b, p, n);
  ldb_fixed64_write(b + LDB_FOOTER_SIZE - 8, LDB_TABLE_MAGIC);
  r = ep_foot(b, LDB_FOOTER_SIZE, items);
  free(b);
  return r;
}

static int
ep_hand(const uint8_t *p, size_t n, uint64_t *items) {
  ldb_handle_t hd;
  ldb_slice_t in = ldb_slice(p, n);
  int ok = ldb_handle_import(&hd, &in);
  if (ok) {
    sink ^= (uint32_t)(hd.offset ^ hd.size);
    *items = 1;
  }
  return ok;
}

/* ---- filter --------------------------------------------------------- */

static int
ep_filt(const uint8_t *p, size_t n, uint64_t *items) {
  static const uint64_t OFFS[] = {0, 1, 2047, 2048, 4095, 4096, 6144, 1u << 20, 0xffffffffu, UINT64_C(1) << 32,
                                  UINT64_C(1) << 63, UINT64_MAX};
  static const uint8_t k8[8] = {1, 2, 3, 4, 5, 6, 7, 8};
  ldb_filter_t fr;
  ldb_slice_t in = ldb_slice(p, n), keys[3];
  int i, j, m = 0;
  keys[0] = ldb_slice(k8, 0);
  keys[1] = ldb_slice((const uint8_t *)"foo", 3);
  keys[2] = ldb_slice(k8, 8);
  ldb_filter_init(&fr, ldb_bloom_default, &in);
  for (i = 0; i < (int)(sizeof(OFFS) / sizeof(OFFS[0])); i++)
    for (j = 0; j < 3; j++)
      m += ldb_filter_matches(&fr, OFFS[i], &keys[j]);
  *items = fr.num;
  return (fr.num > 0) | (m == 36) << 1 | (m == 0) << 2 | (fr.num > 15 ? 15 : (int)fr.num) << 4;
}

/* ---- snappy --------------------------------------------------------- */

static int
ep_snap(const uint8_t *p, size_t n, uint64_t *items) {
  size_t ulen = 0;
  uint8_t *ubuf;
  int ok;
  size_t alloc;
  if (!snappy_decode_size(&ulen, p, n))
    return 0;
  /* ldb_read_block does malloc(ulen) (and returns LDB_ENOMEM when that fails; it never
   * reaches ldb_malloc).  Allocating the declared size for every input costs ~100 us per
   * MiB under ASan, so the output block is min(ulen, 64*n+64) bytes instead: an n-byte
   * stream has at most n/2 elements of at most 64 output bytes each, written
   * contiguously from the start, so a correct decoder never needs more, and an
   * incorrect one that writes past min(...) is still caught by the red zone.  Whenever
   * ulen <= 64*n+64 (every accepted stream) the block has exactly the declared size. */
  alloc = ulen;
  if (alloc > 64 * n + 64)
    alloc = 64 * n + 64;
  if (ulen > ALLOC_CAP)
    n_enomem++; /* statistic: ldb_read_block's malloc would be refused by the allocation seam */
  ubuf = malloc(alloc);
  if (ubuf == NULL)
    vh_die("c18: malloc(%zu) failed", alloc);
  ok = snappy_decode(ubuf, p, n);
  if (ok) {
    ldb_slice_t out = ldb_slice(ubuf, ulen);
    sink ^= touch(&out);
    *items = ulen;
  }
  free(ubuf);
  return 1 | (ok ? 2 : 0);
}

/* ---- version edit --------------------------------------------------- */

static int
ep_edit(const uint8_t *p, size_t n, uint64_t *items) {
  ldb_edit_t e;
  ldb_slice_t in = ldb_slice(p, n);
  int ok, shape = 0;
  ldb_edit_init(&e);
  ok = ldb_edit_import(&e, &in);
  if (ok) {
    ldb_buffer_t out;
    ldb_buffer_init(&out);
    ldb_edit_export(&out, &e);
    sink ^= touch(&out);
    ldb_buffer_reset(&out);
    ldb_edit_debug(&out, &e);
    sink ^= touch(&out);
    ldb_buffer_clear(&out);
    *items = e.compact_pointers.length + e.new_files.length;
    shape = (e.has_comparator | e.has_log_number << 1 | e.has_prev_log_number << 2 | e.has_next_file_number << 3 |
             e.has_last_sequence << 4) << 1 |
            (e.compact_pointers.length > 0) << 6 | (e.new_files.length > 0) << 7;
  }
  ldb_edit_clear(&e);
  return ok | shape;
}

/* ---- write batch ---------------------------------------------------- */

typedef struct bstate_s {
  uint32_t h;
  int puts, dels;
} bstate_t;

static void
h_put(ldb_handler_t *h, const ldb_slice_t *k, const ldb_slice_t *v) {
  bstate_t *s = h->state;
  s->h += touch(k) + touch(v);
  s->puts++;
}

static void
h_del(ldb_handler_t *h, const ldb_slice_t *k) {
  bstate_t *s = h->state;
  s->h += touch(k);
  s->dels++;
}

static int
ep_bat(const uint8_t *p, size_t n, uint64_t *items) {
  ldb_batch_t raw;
  ldb_handler_t h;
  bstate_t s;
  int rc, rc2 = -1;
  memset(&s, 0, sizeof(s));
  h.state = &s;
  h.number = 0;
  h.put = h_put;
  h.del = h_del;
  raw.rep = ldb_slice(p, n); /* not owned: alloc = 0 */
  rc = ldb_batch_iterate(&raw, &h);
  if (n >= 12) { /* precondition of set_contents, checked by db_impl.c before the call */
    ldb_batch_t b;
    ldb_slice_t in = ldb_slice(p, n);
    ldb_memtable_t *mt = ldb_memtable_create(&ikc);
    ldb_memtable_ref(mt);
    ldb_batch_init(&b);
    ldb_batch_set_contents(&b, &in);
    rc2 = ldb_batch_insert_into(&b, mt);
    sink ^= (uint32_t)(ldb_batch_sequence(&b) + (uint64_t)ldb_batch_count(&b) + ldb_memtable_usage(mt));
    ldb_batch_clear(&b);
    ldb_memtable_unref(mt);
    if (rc2 != rc) {
      ep_viol = "batch-iterate-vs-insert";
      snprintf(ep_viol_detail, sizeof(ep_viol_detail), "ldb_batch_iterate gave %d but ldb_batch_insert_into gave %d", rc, rc2);
    }
  }
  sink ^= s.h;
  *items = (uint64_t)(s.puts + s.dels);
  return (rc == LDB_OK) | (rc != LDB_OK && rc != LDB_CORRUPTION) << 1 | (s.puts > 0) << 2 | (s.dels > 0) << 3;
}

static int
ep_bath(const uint8_t *p, size_t n, uint64_t *items) {
  static const uint8_t hdr[12] = {8, 7, 6, 5, 4, 3, 2, 1, 1, 0, 0, 0};
  uint8_t *b = malloc(12 + n);
  int r;
  memcpy(b, hdr, 12);
  if (n)
    memcpy(b + 12, p, n);
  r = ep_bat(b, 12 + n, items);
  free(b);
  return r;
}

/* ---- log reader ----------------------------------------------------- */

static vfs_t *the_vfs;
static long vfs_uses;

static void
fresh_vfs(void) {
  if (the_vfs) {
    vfs_use(NULL);
    vfs_free(the_vfs);
  }
  the_vfs = vfs_new();
  vfs_use(the_vfs);
  if (mkdir("/vfs/x", 0755) != 0)
    vh_die("c18: mkdir /vfs/x failed");
  vfs_uses = 0;
}

typedef struct rstate_s {
  size_t drops;
  size_t bytes;
} rstate_t;

static rstate_t rstate;

static void
r_corruption(ldb_reporter_t *r, size_t bytes, int status) {
  (void)r;
  (void)status;
  rstate.drops++;
  rstate.bytes += bytes;
}

static int
ep_log_common(const uint8_t *p, size_t n, int checksum, uint64_t *items) {
  ldb_reporter_t rep;
  ldb_reader_t rd;
  ldb_rfile_t *file;
  ldb_buffer_t scratch;
  ldb_slice_t rec;
  long cap = (long)(n / 7) + 10, steps = 0;
  int rc, nrec = 0, st = LDB_OK;
  uint32_t h = 0;
  if (!the_vfs || ++vfs_uses > 2000)
    fresh_vfs();
  vfs_put_file(the_vfs, "/vfs/x/000001.log", p, n);
  rc = ldb_seqfile_create("/vfs/x/000001.log", &file);
  if (rc != LDB_OK)
    vh_die("c18: ldb_seqfile_create failed: %d", rc);
  memset(&rep, 0, sizeof(rep));
  memset(&rstate, 0, sizeof(rstate));
  rep.fname = "/vfs/x/000001.log";
  rep.status = &st;
  rep.corruption = r_corruption;
  ldb_reader_init(&rd, file, &rep, checksum, 0);
  ldb_buffer_init(&scratch);
  while (ldb_reader_read_record(&rd, &rec, &scratch)) {
    if (++steps > cap) {
      nonterm("log record loop", steps);
      break;
    }
    h += touch(&rec);
    nrec++;
  }
  ldb_buffer_clear(&scratch);
  ldb_reader_clear(&rd);
  ldb_rfile_destroy(file);
  if (rstate.bytes > n + 2 * LDB_BLOCK_SIZE) {
    /* not a memory-safety matter; recorded only */
    drv_set("log_overreported_drop", 1);
  }
  sink ^= h;
  *items = (uint64_t)nrec;
  return (nrec > 0) | (rstate.drops > 0) << 1 | (nrec > 7 ? 7 : nrec) << 2;
}

static int ep_log(const uint8_t *p, size_t n, uint64_t *items) { return ep_log_common(p, n, 1, items); }
static int ep_lognc(const uint8_t *p, size_t n, uint64_t *items) { return ep_log_common(p, n, 0, items); }

static void
put_phys(uint8_t *dst, int type, const uint8_t *payload, size_t declared, size_t avail) {
  uint8_t tb = (uint8_t)type;
  uint32_t crc = 0;
  dst[4] = (uint8_t)(declared & 0xff);
  dst[5] = (uint8_t)(declared >> 8);
  dst[6] = tb;
  if (avail)
    memcpy(dst + 7, payload, avail);
  if (declared <= avail) {
    crc = ldb_crc32c_extend(0, &tb, 1);
    crc = ldb_crc32c_extend(crc, dst + 7, declared);
    crc = ldb_crc32c_mask(crc);
  }
  ldb_fixed32_write(dst, crc);
}

static int
ep_logp(const uint8_t *p, size_t n, uint64_t *items) {
  static const uint8_t tail[5] = {'t', 'a', 'i', 'l', '!'};
  uint8_t *b;
  size_t avail, declared, tot;
  int r;
  if (n < 3)
    return 0; /* domain: at least the three header bytes */
  avail = n - 3;
  declared = (size_t)p[0] | (size_t)p[1] << 8;
  tot = 7 + avail + 7 + 5;
  b = malloc(tot);
  put_phys(b, p[2], p + 3, declared, avail);
  put_phys(b + 7 + avail, LDB_TYPE_FULL, tail, 5, 5);
  r = ep_log_common(b, tot, 1, items);
  free(b);
  return r;
}

/* ---- internal key / file name --------------------------------------- */

static int
ep_pkey(const uint8_t *p, size_t n, uint64_t *items) {
  ldb_pkey_t k;
  ldb_slice_t in = ldb_slice(p, n);
  int ok = ldb_pkey_import(&k, &in);
  if (ok) {
    sink ^= touch(&k.user_key) + (uint32_t)k.sequence + (uint32_t)k.type;
    *items = 1;
  }
  return ok | (ok ? (int)k.type << 1 : 0);
}

static int
ep_fname(const uint8_t *p, size_t n, uint64_t *items) {
  char *s = malloc(n + 1);
  ldb_filetype_t type = 0;
  uint64_t num = 0;
  int ok;
  if (n)
    memcpy(s, p, n);
  s[n] = 0;
  ok = ldb_parse_filename(&type, &num, s);
  free(s);
  if (ok) {
    sink ^= (uint32_t)num;
    *items = 1;
  }
  return ok | (ok ? ((int)type + 1) << 1 : 0);
}

/* ---- a version edit as the database meets it: appended (with valid log framing) to the live MANIFEST of a
 * small real database, then ldb_open replays it into the version set (decode AND apply) ---------------- */

static vfs_t *edb_tmpl;
static char edb_manifest[300];
static size_t edb_len;
static const uint8_t *edb_p;
static size_t edb_n;
static int edb_rc;

static void
edb_build_body(void *arg) {
  ldb_dbopt_t o = *ldb_dbopt_default;
  ldb_t *db = NULL;
  ldb_slice_t k, v;
  (void)arg;
  o.create_if_missing = 1;
  o.info_log = ldb_logger_create(NULL, NULL);
  if (ldb_open("/vfs/e", &o, &db) != LDB_OK) vh_die("c18: editdb template: open failed");
  k = ldb_slice("apple", 5); v = ldb_slice("1", 1);
  if (ldb_put(db, &k, &v, NULL) != LDB_OK) vh_die("c18: editdb template: put failed");
  ldb_test_compact_memtable(db);
  k = ldb_slice("pear", 4);
  ldb_put(db, &k, &v, NULL);
  ldb_close(db);
  ldb_logger_destroy(o.info_log);
}

static void
edb_open_body(void *arg) {
  ldb_dbopt_t o = *ldb_dbopt_default;
  ldb_t *db = NULL;
  ldb_wfile_t *wf = NULL;
  ldb_writer_t lw;
  ldb_slice_t rec = ldb_slice(edb_p, edb_n);
  (void)arg;
  o.info_log = ldb_logger_create(NULL, NULL);
  if (ldb_appendfile_create(edb_manifest, &wf) != LDB_OK) vh_die("c18: editdb: cannot append to the MANIFEST");
  ldb_writer_init(&lw, wf, edb_len);
  ldb_writer_add_record(&lw, &rec);
  ldb_wfile_close(wf);
  ldb_wfile_destroy(wf);
  o.paranoid_checks = 1;
  edb_rc = ldb_open("/vfs/e", &o, &db);
  if (edb_rc == LDB_OK) {
    ldb_iter_t *it = ldb_iterator(db, NULL);
    int c = 0;
    for (ldb_iter_first(it); ldb_iter_valid(it) && c < 100; ldb_iter_next(it)) c++;
    ldb_iter_destroy(it);
    ldb_close(db);
  }
  ldb_logger_destroy(o.info_log);
}

static int
ep_editdb(const uint8_t *p, size_t n, uint64_t *items) {
  sch_cfg_t c;
  vfs_t *v, *prev = vfs_cur;
  memset(&c, 0, sizeof(c));
  c.step_max = 4000000;
  if (!edb_tmpl) {
    char names[64][64];
    int nn, i;
    edb_tmpl = vfs_new();
    vfs_use(edb_tmpl);
    if (sch_run(edb_build_body, NULL, &c) != SCH_OK) vh_die("c18: editdb template did not complete");
    nn = vfs_list(edb_tmpl, "/vfs/e", names, 64);
    for (i = 0; i < nn; i++)
      if (strncmp(names[i], "MANIFEST-", 9) == 0) {
        snprintf(edb_manifest, sizeof(edb_manifest), "/vfs/e/%s", names[i]);
        edb_len = vfs_inode(edb_tmpl, vfs_lookup(edb_tmpl, edb_manifest))->len;
      }
    if (!edb_manifest[0]) vh_die("c18: editdb template has no MANIFEST");
    vfs_base_snapshot(edb_tmpl);
  }
  v = vfs_clone(edb_tmpl);
  vfs_use(v);
  edb_p = p;
  edb_n = n;
  edb_rc = -1;
  if (sch_run(edb_open_body, NULL, &c) != SCH_OK)
    nonterm("ldb_open on a MANIFEST with this edit appended", 0);
  vfs_use(prev);
  vfs_free(v);
  *items = 1;
  return (edb_rc == LDB_OK) | ((edb_rc & 0xff) << 1);
}

static int ep_blk(const uint8_t *p, size_t n, uint64_t *items) { return ep_block(p, n, ldb_bytewise_comparator, 0, items); }
static int ep_blki(const uint8_t *p, size_t n, uint64_t *items) { return ep_block(p, n, &ikc, 1, items); }

typedef int ep_fn(const uint8_t *p, size_t n, uint64_t *items);
static ep_fn *const EPF[NEP] = {ep_blk, ep_blki, ep_foot, ep_footp, ep_hand, ep_filt, ep_snap, ep_edit, ep_bat, ep_bath,
                                ep_log, ep_lognc, ep_logp, ep_pkey, ep_fname, ep_editdb};

/* "accepted" bit of an outcome, per entry point (for the counters and the seed self-test) */
static int
accepted(int e, int outcome) {
  switch (e) {
    case EP_SNAP: return (outcome & 2) != 0;
    default: return outcome & 1;
  }
}

/* run one entry point on an exact-size heap copy of s[0..n) */
static int
exec_ep(int e, const uint8_t *s, size_t n, uint64_t *items) {
  uint8_t *blk = malloc(n ? n : 1);
  int out;
  *items = 0;
  if (n) {
    memcpy(blk, s, n);
    out = EPF[e](blk, n, items);
  } else {
    out = EPF[e](blk + 1, 0, items); /* one past a 1-byte block: every byte is out of bounds */
  }
  free(blk);
  return out;
}

/* ------------------------------------------------------------------ */
/* case execution                                                     */
/* ------------------------------------------------------------------ */

static uint64_t gidx;
static char *textbuf;
static size_t textcap;
static int want_sample;

static void
format_case(int e, const uint8_t *s, size_t n) {
  static const char hx[] = "0123456789abcdef";
  size_t need = 32 + 2 * n, l, i;
  if (need > textcap) {
    textcap = need * 2;
    textbuf = realloc(textbuf, textcap);
  }
  l = (size_t)sprintf(textbuf, "ep=%s hex=", EPN[e]);
  for (i = 0; i < n; i++) {
    textbuf[l++] = hx[s[i] >> 4];
    textbuf[l++] = hx[s[i] & 15];
  }
  textbuf[l] = 0;
}

static void
report_viol(int e, const char *text) {
  vh_buf_t b, sg;
  vb_init(&b);
  vb_init(&sg);
  vb_json_str(&b, text, strlen(text));
  vb_printf(&sg, "c18:%s:%s", EPN[e], ep_viol);
  drv_viol(sg.p, ep_viol_detail, b.p);
  vb_free(&b);
  vb_free(&sg);
}

static int
run_case(int e, const uint8_t *s, size_t n) {
  uint64_t items;
  char setname[24];
  int out;
  if (!drv_mine(gidx++))
    return -1;
  format_case(e, s, n);
  if (2 * n + 32 < 8000)
    drv_case("%s", textbuf);
  else
    drv_case("ep=%s (input of %zu bytes too long for the case page)", EPN[e], n);
  ep_viol = NULL;
  out = exec_ep(e, s, n, &items);
  n_eval++;
  wd_progress++;
  n_cases[e]++;
  n_items[e] += items;
  if (accepted(e, out))
    n_accept[e]++;
  snprintf(setname, sizeof(setname), "out_%s", EPN[e]);
  drv_set(setname, (uint64_t)out);
  if (ep_viol) {
    const char *first = ep_viol;
    ep_viol = NULL;
    exec_ep(e, s, n, &items);
    if (!ep_viol || strcmp(ep_viol, first) != 0)
      vh_die("c18_decoders: violation %s did not reproduce on immediate re-execution of: %s", first, textbuf);
    report_viol(e, textbuf);
  }
  if (want_sample) {
    vh_buf_t b;
    vb_init(&b);
    vb_printf(&b, "{\"case\":\"%.300s\",\"outcome\":%d,\"items_decoded\":%" PRIu64 "}", textbuf, out, items);
    drv_sample(b.p);
    vb_free(&b);
    want_sample = 0;
  }
  return out;
}

static int
stop_now(void) {
  if (!exhaustive)
    return 1;
  if (drv_deadline_hit()) {
    exhaustive = 0;
    return 1;
  }
  return 0;
}

/* ------------------------------------------------------------------ */
/* seeds                                                              */
/* ------------------------------------------------------------------ */

typedef struct seed_s {
  int ep;
  uint8_t *p;
  size_t n;
  const char *what;
} seed_t;

#define MAXSEEDS 96
static seed_t seeds[MAXSEEDS];
static int nseeds;

static void
add_seed(int ep, const uint8_t *p, size_t n, const char *what) {
  if (nseeds == MAXSEEDS)
    vh_die("c18: too many seeds");
  seeds[nseeds].ep = ep;
  seeds[nseeds].p = malloc(n ? n : 1);
  if (n)
    memcpy(seeds[nseeds].p, p, n);
  seeds[nseeds].n = n;
  seeds[nseeds].what = what;
  nseeds++;
}

static void
mk_ikey(ldb_buffer_t *out, const char *user, uint64_t seq, int type) {
  ldb_slice_t u = ldb_slice((const uint8_t *)user, strlen(user));
  ldb_ikey_set(out, &u, seq, (ldb_valtype_t)type);
}

static void
seed_block(int interval, int nent, int style, int internal, const char *what) {
  ldb_dbopt_t opt = *ldb_dbopt_default;
  ldb_blockgen_t bb;
  ldb_slice_t fin;
  ldb_buffer_t k, v;
  int i;
  opt.block_restart_interval = interval;
  opt.comparator = internal ? &ikc : ldb_bytewise_comparator;
  ldb_blockgen_init(&bb, &opt);
  ldb_buffer_init(&k);
  ldb_buffer_init(&v);
  for (i = 0; i < nent; i++) {
    char user[200];
    size_t vl, j;
    if (style == 0)
      sprintf(user, "key%02d", i);
    else if (style == 1)
      sprintf(user, "a-long-shared-prefix/with/more/shared/bytes/%03d", i);
    else { /* 140-byte keys: two-byte varints in the entry header */
      memset(user, 'p', 140);
      sprintf(user + 136, "%03d", i);
    }
    if (internal)
      mk_ikey(&k, user, 100 + (uint64_t)i, (i % 3) != 0);
    else
      ldb_buffer_set_str(&k, user);
    vl = style == 2 ? 150 + (size_t)i : (size_t)(i * 3 % 11);
    ldb_buffer_resize(&v, vl);
    for (j = 0; j < vl; j++)
      v.data[j] = (uint8_t)('v' + i + (int)j);
    ldb_blockgen_add(&bb, &k, &v);
  }
  fin = ldb_blockgen_finish(&bb);
  add_seed(internal ? EP_BLKI : EP_BLK, fin.data, fin.size, what);
  ldb_blockgen_clear(&bb);
  ldb_buffer_clear(&k);
  ldb_buffer_clear(&v);
}

static void
seed_footer(uint64_t a, uint64_t b, uint64_t c, uint64_t d, const char *what) {
  ldb_footer_t f;
  ldb_buffer_t out;
  f.metaindex_handle.offset = a;
  f.metaindex_handle.size = b;
  f.index_handle.offset = c;
  f.index_handle.size = d;
  ldb_buffer_init(&out);
  ldb_footer_export(&out, &f);
  add_seed(EP_FOOT, out.data, out.size, what);
  ldb_buffer_clear(&out);
  ldb_buffer_init(&out);
  ldb_handle_export(&out, &f.metaindex_handle);
  add_seed(EP_HAND, out.data, out.size, what);
  ldb_buffer_clear(&out);
}

static void
seed_filter(int variant, const char *what) {
  ldb_filtergen_t fb;
  ldb_slice_t fin, key;
  char kb[32];
  int i;
  ldb_filtergen_init(&fb, ldb_bloom_default);
  if (variant == 1) {
    ldb_filtergen_start_block(&fb, 0);
    key = ldb_string("only");
    ldb_filtergen_add_key(&fb, &key);
  } else if (variant == 2) {
    ldb_filtergen_start_block(&fb, 100);
    for (i = 0; i < 3; i++) {
      sprintf(kb, "k%d", i);
      key = ldb_string(kb);
      ldb_filtergen_add_key(&fb, &key);
    }
    ldb_filtergen_start_block(&fb, 200);
    key = ldb_string("box");
    ldb_filtergen_add_key(&fb, &key);
  } else if (variant == 3) { /* several filters with empty ones in between */
    ldb_filtergen_start_block(&fb, 0);
    key = ldb_string("foo");
    ldb_filtergen_add_key(&fb, &key);
    ldb_filtergen_start_block(&fb, 2000);
    key = ldb_string("bar");
    ldb_filtergen_add_key(&fb, &key);
    ldb_filtergen_start_block(&fb, 3100);
    key = ldb_string("box");
    ldb_filtergen_add_key(&fb, &key);
    ldb_filtergen_start_block(&fb, 9000);
    key = ldb_string("hello");
    ldb_filtergen_add_key(&fb, &key);
  } else if (variant == 4) {
    ldb_filtergen_start_block(&fb, 0);
    for (i = 0; i < 40; i++) {
      sprintf(kb, "key-%04d", i * 7);
      key = ldb_string(kb);
      ldb_filtergen_add_key(&fb, &key);
    }
  }
  fin = ldb_filtergen_finish(&fb);
  add_seed(EP_FILT, fin.data, fin.size, what);
  ldb_filtergen_clear(&fb);
}

static void
seed_snappy(const uint8_t *raw, size_t n, const char *what) {
  size_t cap = 0, en;
  uint8_t *enc;
  if (!snappy_encode_size(&cap, n))
    vh_die("c18: snappy_encode_size");
  enc = malloc(cap);
  en = snappy_encode(enc, raw, n);
  add_seed(EP_SNAP, enc, en, what);
  free(enc);
}

static void
seed_edit(int variant, const char *what) {
  ldb_edit_t e;
  ldb_buffer_t out, k1, k2;
  int i;
  ldb_edit_init(&e);
  ldb_buffer_init(&out);
  ldb_buffer_init(&k1);
  ldb_buffer_init(&k2);
  if (variant == 0) { /* what a fresh database writes */
    ldb_edit_set_comparator_name(&e, "leveldb.BytewiseComparator");
    ldb_edit_set_log_number(&e, 0);
    ldb_edit_set_next_file(&e, 2);
    ldb_edit_set_last_sequence(&e, 0);
  } else if (variant == 1) { /* a flush */
    ldb_edit_set_log_number(&e, 7);
    ldb_edit_set_prev_log_number(&e, 0);
    ldb_edit_set_next_file(&e, 9);
    ldb_edit_set_last_sequence(&e, 1234567);
    mk_ikey(&k1, "apple", 100, 1);
    mk_ikey(&k2, "pear", 1200000, 0);
    ldb_edit_add_file(&e, 0, 8, 2123, &k1, &k2);
  } else if (variant == 2) { /* a compaction */
    ldb_edit_set_log_number(&e, 300);
    ldb_edit_set_next_file(&e, UINT64_C(1) << 33);
    ldb_edit_set_last_sequence(&e, (UINT64_C(1) << 56) - 1);
    for (i = 0; i < 4; i++)
      ldb_edit_remove_file(&e, i % 2, 20 + (uint64_t)i);
    for (i = 0; i < 3; i++) {
      char u[16];
      sprintf(u, "user%d", i);
      mk_ikey(&k1, u, 500 + (uint64_t)i, 1);
      sprintf(u, "user%d~", i);
      mk_ikey(&k2, u, 400, 1);
      ldb_edit_add_file(&e, 2, 40 + (uint64_t)i, 2097152 + (uint64_t)i, &k1, &k2);
    }
    mk_ikey(&k1, "user1", 77, 1);
    ldb_edit_set_compact_pointer(&e, 1, &k1);
  } else if (variant == 3) { /* only pointers and deletions at every level */
    for (i = 0; i < 7; i++) {
      mk_ikey(&k1, "", (uint64_t)i, i & 1);
      ldb_edit_set_compact_pointer(&e, i, &k1);
      ldb_edit_remove_file(&e, i, UINT64_MAX - (uint64_t)i);
    }
  } else { /* long keys: two-byte length prefixes */
    char u[200];
    memset(u, 'x', 150);
    u[150] = 0;
    mk_ikey(&k1, u, 1, 1);
    u[149] = 'z';
    mk_ikey(&k2, u, 2, 1);
    ldb_edit_set_comparator_name(&e, "some.other.Comparator");
    ldb_edit_add_file(&e, 6, 16384, 127, &k1, &k2);
  }
  ldb_edit_export(&out, &e);
  add_seed(EP_EDIT, out.data, out.size, what);
  add_seed(EP_EDITDB, out.data, out.size, what);
  ldb_buffer_clear(&out);
  ldb_buffer_clear(&k1);
  ldb_buffer_clear(&k2);
  ldb_edit_clear(&e);
}

static void
seed_batch(int variant, const char *what) {
  ldb_batch_t b;
  ldb_slice_t k, v, c;
  uint8_t big[300];
  int i;
  ldb_batch_init(&b);
  ldb_batch_set_sequence(&b, 100 + (uint64_t)variant);
  for (i = 0; i < 300; i++)
    big[i] = (uint8_t)(i * 5);
  if (variant == 1) {
    k = ldb_string("foo");
    v = ldb_string("bar");
    ldb_batch_put(&b, &k, &v);
  } else if (variant == 2) {
    k = ldb_string("foo");
    v = ldb_string("bar");
    ldb_batch_put(&b, &k, &v);
    k = ldb_string("box");
    ldb_batch_del(&b, &k);
    k = ldb_string("baz");
    v = ldb_string("");
    ldb_batch_put(&b, &k, &v);
  } else if (variant == 3) {
    k = ldb_slice(big, 130);
    v = ldb_slice(big, 300);
    ldb_batch_put(&b, &k, &v);
    k = ldb_slice(big + 1, 128);
    ldb_batch_del(&b, &k);
  } else if (variant == 4) {
    for (i = 0; i < 10; i++) {
      char kb[16];
      sprintf(kb, "key%d", i);
      k = ldb_string(kb);
      v = ldb_slice(big, (size_t)i);
      if (i % 3 == 2)
        ldb_batch_del(&b, &k);
      else
        ldb_batch_put(&b, &k, &v);
    }
  }
  c = ldb_batch_contents(&b);
  add_seed(EP_BAT, c.data, c.size, what);
  ldb_batch_clear(&b);
}

static void
seed_log_written(const size_t *lens, int nrec, const char *what) {
  ldb_wfile_t *wf;
  ldb_writer_t *lw;
  const vinode_t *ino;
  int i, id;
  if (!the_vfs)
    fresh_vfs();
  if (ldb_truncfile_create("/vfs/x/seed.log", &wf) != LDB_OK)
    vh_die("c18: cannot create seed log");
  lw = ldb_writer_create(wf, 0);
  for (i = 0; i < nrec; i++) {
    uint8_t *r = malloc(lens[i] ? lens[i] : 1);
    ldb_slice_t s;
    size_t j;
    for (j = 0; j < lens[i]; j++)
      r[j] = (uint8_t)('a' + i + (int)(j % 23));
    s = ldb_slice(r, lens[i]);
    if (ldb_writer_add_record(lw, &s) != LDB_OK)
      vh_die("c18: add_record failed");
    free(r);
  }
  ldb_wfile_close(wf);
  ldb_writer_destroy(lw);
  ldb_wfile_destroy(wf);
  id = vfs_lookup(the_vfs, "/vfs/x/seed.log");
  if (id < 0)
    vh_die("c18: seed log missing");
  ino = vfs_inode(the_vfs, id);
  add_seed(EP_LOG, ino->data, ino->len, what);
  add_seed(EP_LOGNC, ino->data, ino->len, what);
}

static void
seed_log_fragments(void) {
  /* FIRST + MIDDLE + LAST + FULL inside one block, hand-framed with correct checksums */
  uint8_t b[4 * 7 + 10 + 4 + 6 + 3];
  size_t o = 0;
  put_phys(b + o, LDB_TYPE_FIRST, (const uint8_t *)"first-part", 10, 10);
  o += 7 + 10;
  put_phys(b + o, LDB_TYPE_MIDDLE, (const uint8_t *)"mid-", 4, 4);
  o += 7 + 4;
  put_phys(b + o, LDB_TYPE_LAST, (const uint8_t *)"ending", 6, 6);
  o += 7 + 6;
  put_phys(b + o, LDB_TYPE_FULL, (const uint8_t *)"end", 3, 3);
  o += 7 + 3;
  add_seed(EP_LOG, b, o, "log: FIRST+MIDDLE+LAST+FULL fragments");
  add_seed(EP_LOGNC, b, o, "log: FIRST+MIDDLE+LAST+FULL fragments");
}

static void
build_seeds(void) {
  static const size_t L3[3] = {5, 0, 40}, L1[1] = {300}, L3b[3] = {100, 100, 100}, L2[2] = {1, 12};
  uint8_t raw[400];
  ldb_buffer_t k;
  int i;

  seed_block(4, 12, 0, 0, "block: 12 entries, restart interval 4");
  seed_block(1, 5, 0, 0, "block: 5 entries, restart interval 1");
  seed_block(16, 8, 1, 0, "block: 8 entries sharing a long prefix");
  seed_block(16, 0, 0, 0, "block: empty (restart array only)");
  seed_block(2, 2, 2, 0, "block: 140-byte keys, 150-byte values (multi-byte varints)");
  seed_block(3, 10, 0, 1, "iblock: 10 internal keys, restart interval 3");
  seed_block(1, 4, 0, 1, "iblock: 4 internal keys, restart interval 1");
  seed_block(16, 6, 1, 1, "iblock: 6 internal keys sharing a long prefix");
  seed_block(16, 0, 0, 1, "iblock: empty");
  seed_block(2, 2, 2, 1, "iblock: long internal keys");

  seed_footer(0, 0, 0, 0, "footer/handle: zeros");
  seed_footer(127, 128, 16383, 16384, "footer/handle: varint boundaries");
  seed_footer(1234, 567, 1806, 89, "footer/handle: typical");
  seed_footer(UINT64_C(0xffffffff), UINT64_C(1) << 32, UINT64_C(1) << 35, (UINT64_C(1) << 56) - 1, "footer/handle: large");
  seed_footer(UINT64_C(1) << 63, UINT64_MAX - 1, UINT64_MAX - 1, UINT64_C(1) << 63, "footer/handle: ten-byte varints");

  seed_filter(0, "filter: empty builder");
  seed_filter(1, "filter: one key");
  seed_filter(2, "filter: single chunk");
  seed_filter(3, "filter: multi chunk with gaps");
  seed_filter(4, "filter: 40 keys");

  memset(raw, 'a', 100);
  seed_snappy(raw, 100, "snappy: 100 x 'a' (copies)");
  for (i = 0; i < 200; i++)
    raw[i] = (uint8_t)"the quick brown fox jumps over the lazy dog and "[i % 48];
  seed_snappy(raw, 200, "snappy: repeating text");
  for (i = 0; i < 16; i++)
    raw[i] = (uint8_t)(i * 37 + 11);
  seed_snappy(raw, 16, "snappy: 16 bytes, literal only");
  for (i = 0; i < 300; i++)
    raw[i] = (uint8_t)((i * i * 31 + i * 7) >> 3);
  seed_snappy(raw, 300, "snappy: 300 mostly incompressible bytes (long literal)");
  {
    /* hand-made: 3-byte literal length (tag 62), copy4, copy2 and a 4-byte literal length (tag 63) */
    static const uint8_t hand[] = {20,
                                   0xf8, 0x07, 0x00, 0x00, 'a', 'b', 'c', 'd', 'e', 'f', 'g', 'h',
                                   0x0f, 0x04, 0x00, 0x00, 0x00,          /* copy4 len 4 off 4 */
                                   0x0e, 0x08, 0x00,                      /* copy2 len 4 off 8 */
                                   0xfc, 0x03, 0x00, 0x00, 0x00, 'w', 'x', 'y', 'z'};
    add_seed(EP_SNAP, hand, sizeof(hand), "snappy: hand-made long-form tags");
  }

  seed_edit(0, "edit: new database");
  seed_edit(1, "edit: flush");
  seed_edit(2, "edit: compaction");
  seed_edit(3, "edit: pointers and deletions at every level");
  seed_edit(4, "edit: long keys");

  seed_batch(0, "batch: empty");
  seed_batch(1, "batch: one put");
  seed_batch(2, "batch: put, delete, put");
  seed_batch(3, "batch: long key and value");
  seed_batch(4, "batch: ten operations");

  seed_log_written(L3, 3, "log: 3 records (5, 0, 40 bytes)");
  seed_log_written(L1, 1, "log: one 300-byte record");
  seed_log_written(L3b, 3, "log: three 100-byte records");
  seed_log_written(L2, 2, "log: 1-byte and 12-byte records");
  seed_log_fragments();

  ldb_buffer_init(&k);
  mk_ikey(&k, "", 0, 0);
  add_seed(EP_PKEY, k.data, k.size, "pkey: empty user key");
  mk_ikey(&k, "foo", 100, 1);
  add_seed(EP_PKEY, k.data, k.size, "pkey: foo@100");
  mk_ikey(&k, "k", (UINT64_C(1) << 56) - 1, 1);
  add_seed(EP_PKEY, k.data, k.size, "pkey: max sequence");
  mk_ikey(&k, "a-rather-longer-user-key-with-\xff-bytes", 77, 0);
  add_seed(EP_PKEY, k.data, k.size, "pkey: long deletion");
  mk_ikey(&k, "z", 1, 1);
  add_seed(EP_PKEY, k.data, k.size, "pkey: z@1");
  ldb_buffer_clear(&k);

  {
    static const char *names[] = {"CURRENT", "LOCK", "LOG", "LOG.old", "MANIFEST-000005", "000123.log", "000007.ldb",
                                  "000008.sst", "000009.dbtmp", "18446744073709551615.log"};
    for (i = 0; i < 10; i++)
      add_seed(EP_FNAME, (const uint8_t *)names[i], strlen(names[i]), "file name");
  }
}

/* ------------------------------------------------------------------ */
/* domains                                                            */
/* ------------------------------------------------------------------ */

static const uint8_t AL6[6] = {0x00, 0x01, 0x07, 0x7f, 0x80, 0xff};
static const uint8_t BV10[10] = {0x00, 0x01, 0x02, 0x07, 0x08, 0x7f, 0x80, 0x81, 0xfe, 0xff};
static const uint8_t BV4[4] = {0x00, 0x7f, 0x80, 0xff};

static void
dom_all_strings(int e, int maxlen) {
  uint8_t s[4];
  int len, i;
  uint32_t x, lim;
  for (len = 0; len <= maxlen; len++) {
    lim = 1u << (8 * len);
    for (x = 0; x < lim; x++) {
      for (i = 0; i < len; i++)
        s[i] = (uint8_t)(x >> (8 * (len - 1 - i)));
      if (run_case(e, s, (size_t)len) >= 0)
        n_d1++;
      if ((x & 0x3fff) == 0x3fff && stop_now())
        return;
    }
  }
}

static void
dom_alphabet(int e) {
  uint8_t s[6];
  int len, i;
  uint32_t x, lim;
  for (len = 1; len <= 6; len++) {
    lim = 1;
    for (i = 0; i < len; i++)
      lim *= 6;
    for (x = 0; x < lim; x++) {
      uint32_t y = x;
      for (i = 0; i < len; i++) {
        s[i] = AL6[y % 6];
        y /= 6;
      }
      if (run_case(e, s, (size_t)len) >= 0)
        n_d2++;
      if ((x & 0x3fff) == 0x3fff && stop_now())
        return;
    }
  }
}

/* D1b: all strings of length 3 (thorough: 3..5) over a 24-value alphabet (small counts/tags + boundaries) */
static const uint8_t AL24[24] = {0x00, 0x01, 0x02, 0x03, 0x04, 0x05, 0x06, 0x07, 0x08, 0x09, 0x0a, 0x0f,
                                 0x10, 0x3f, 0x40, 0x7e, 0x7f, 0x80, 0x81, 0xbf, 0xc0, 0xfd, 0xfe, 0xff};

static void
dom_alphabet24(int e) {
  uint8_t s[5];
  int len, i;
  uint32_t x, lim;
  for (len = 3; len <= (drv.thorough ? 5 : 3); len++) {
    lim = 1;
    for (i = 0; i < len; i++)
      lim *= 24;
    for (x = 0; x < lim; x++) {
      uint32_t y = x;
      for (i = 0; i < len; i++) {
        s[i] = AL24[y % 24];
        y /= 24;
      }
      if (run_case(e, s, (size_t)len) >= 0)
        n_d1b++;
      if ((x & 0x3fff) == 0x3fff && stop_now())
        return;
    }
  }
}

static void
dom_seed(const seed_t *sd, int idx) {
  uint8_t *b = malloc(sd->n ? sd->n : 1);
  size_t o1, o2, len;
  int i, j, out;
  uint64_t items;
  /* anti-vacuity: the unmutated seed should be accepted by its decoder (a decoder that
   * rejects valid encodings is the business of C15-C17, here it is only recorded) */
  format_case(sd->ep, sd->p, sd->n);
  drv_case("%s", textbuf);
  ep_viol = NULL;
  out = exec_ep(sd->ep, sd->p, sd->n, &items);
  if (!accepted(sd->ep, out) && !(sd->n && strstr(sd->what, "empty"))) {
    n_seed_rejected++;
    if (drv.shard == 0)
      drv_note("seed %d (%s, ep %s) is NOT accepted by its own decoder (outcome %d)", idx, sd->what, EPN[sd->ep], out);
  }
  if (ep_viol && drv.shard == 0)
    report_viol(sd->ep, textbuf);
  want_sample = drv_mine(gidx);
  run_case(sd->ep, sd->p, sd->n);
  for (o1 = 0; o1 < sd->n; o1++) {
    for (i = 0; i < 10; i++) {
      memcpy(b, sd->p, sd->n);
      b[o1] = BV10[i];
      if (run_case(sd->ep, b, sd->n) >= 0)
        n_single++;
    }
    if ((o1 & 15) == 15 && stop_now())
      goto out;
  }
  for (len = 0; len < sd->n; len++) {
    if (run_case(sd->ep, sd->p, len) >= 0)
      n_trunc++;
  }
  {
    /* thorough: {00,7F,80,FF}^2 at every offset pair; quick: {00,FF}^2 at pairs at most 16 apart */
    int step = drv.thorough ? 1 : 3;
    size_t maxdist = drv.thorough ? (size_t)-1 : 16;
    for (o1 = 0; o1 < sd->n; o1++) {
      for (o2 = o1 + 1; o2 < sd->n && o2 - o1 <= maxdist; o2++)
        for (i = 0; i < 4; i += step)
          for (j = 0; j < 4; j += step) {
            memcpy(b, sd->p, sd->n);
            b[o1] = BV4[i];
            b[o2] = BV4[j];
            if (run_case(sd->ep, b, sd->n) >= 0)
              n_double++;
          }
      if (stop_now())
        goto out;
    }
  }
out:
  free(b);
}

static void
dom_splice(const seed_t *a, const seed_t *c) {
  uint8_t *b = malloc(a->n + c->n + 1);
  size_t i, j;
  for (i = 0; i <= a->n; i++) {
    for (j = 0; j <= c->n; j++) {
      memcpy(b, a->p, i);
      memcpy(b + i, c->p + j, c->n - j);
      if (run_case(a->ep, b, i + c->n - j) >= 0)
        n_splice++;
    }
    if (stop_now())
      break;
  }
  free(b);
}


/* ------------------------------------------------------------------ */
/* D5: field-aware substitution                                       */
/* ------------------------------------------------------------------ */
/* Each seed is parsed by the small parsers below (own code: rm_varint*_get and plain
 * little-endian loads, no lcdb decoder) into a token list: raw byte runs and numeric
 * FIELDS.  A variant re-encodes the token list with one field, or a pair of fields, set
 * to a value of a boundary list; a changed varint is written at its natural length, so
 * the variant changes size and everything behind it shifts; an unchanged field keeps its
 * original bytes.  Length fields "lie": the bytes they used to describe stay in place.
 *
 * Fields: block = shared/non_shared/value_length of every entry (group = entry), every
 * restart offset and num_restarts (global); footer = the four handle varint64s (padding
 * re-sized so the footer stays 48 bytes); handle = offset, size; filter block = every
 * offset-array word, the array offset, base_lg; snappy = preamble and per element literal
 * length / copy length / copy offset (group = element; copy fields are masked to the bit
 * width of their element form); version edit = every tag, level, number and length field
 * (group = record); write batch = sequence, count (global) and per record tag, key length,
 * value length; log file = per physical record length and type (CRC recomputed over the
 * variant so that the record is reachable, and again with the stale CRC); internal key =
 * the 8-byte trailer. */

enum { T_RAW, T_V32, T_V64, T_F32, T_F64, T_U8, T_U16, T_CRC, T_PADTO, T_SLIT, T_SC1, T_SC2, T_SC4 };

typedef struct tok_s {
  int kind;
  uint64_t val, val2;   /* current values (val2: copy offset of a snappy copy element) */
  uint64_t oval, oval2; /* values in the seed */
  const uint8_t *raw;   /* the seed's own bytes for this token */
  size_t rawlen;
} tok_t;

typedef struct fld_s {
  int tok, sub; /* sub 0 = val, 1 = val2 */
  int bits;     /* 8, 16, 32, 64: which boundary list */
  int group;    /* entry / record / element index, -1 = none */
  int global;   /* count / array / header field */
  size_t end;   /* offset in the seed just past the field */
} fld_t;

typedef struct model_s {
  tok_t *t;
  int nt, capt;
  fld_t *f;
  int nf, capf;
  size_t n; /* seed length */
} model_t;

static uint64_t n_d5_single, n_d5_pairs, n_d5_fields, n_d5_unparsed;

static int
m_tok(model_t *m, int kind, uint64_t val, uint64_t val2, const uint8_t *raw, size_t rawlen) {
  tok_t *t;
  if (m->nt == m->capt) {
    m->capt = m->capt ? m->capt * 2 : 64;
    m->t = realloc(m->t, (size_t)m->capt * sizeof(*m->t));
  }
  t = &m->t[m->nt];
  t->kind = kind;
  t->val = t->oval = val;
  t->val2 = t->oval2 = val2;
  t->raw = raw;
  t->rawlen = rawlen;
  return m->nt++;
}

static void
m_fld(model_t *m, int tok, int sub, int bits, int group, int global, size_t end) {
  fld_t *f;
  if (m->nf == m->capf) {
    m->capf = m->capf ? m->capf * 2 : 64;
    m->f = realloc(m->f, (size_t)m->capf * sizeof(*m->f));
  }
  f = &m->f[m->nf++];
  f->tok = tok;
  f->sub = sub;
  f->bits = bits;
  f->group = group;
  f->global = global;
  f->end = end;
}

static void
m_free(model_t *m) {
  free(m->t);
  free(m->f);
  memset(m, 0, sizeof(*m));
}

static uint32_t le32(const uint8_t *p) { return (uint32_t)p[0] | (uint32_t)p[1] << 8 | (uint32_t)p[2] << 16 | (uint32_t)p[3] << 24; }
static uint64_t le64(const uint8_t *p) { return (uint64_t)le32(p) | (uint64_t)le32(p + 4) << 32; }
static void st32(uint8_t *p, uint32_t v) { p[0] = (uint8_t)v; p[1] = (uint8_t)(v >> 8); p[2] = (uint8_t)(v >> 16); p[3] = (uint8_t)(v >> 24); }

/* numeric field helpers: add token + field, advance *off; 0 on malformed seed */
static int
m_v32(model_t *m, const uint8_t *p, size_t lim, size_t *off, int group, int global) {
  uint32_t v;
  size_t r = rm_varint32_get(p + *off, lim - *off, &v);
  if (!r)
    return 0;
  m_fld(m, m_tok(m, T_V32, v, 0, p + *off, r), 0, 32, group, global, *off + r);
  *off += r;
  return 1;
}

static int
m_v64(model_t *m, const uint8_t *p, size_t lim, size_t *off, int group, int global) {
  uint64_t v;
  size_t r = rm_varint64_get(p + *off, lim - *off, &v);
  if (!r)
    return 0;
  m_fld(m, m_tok(m, T_V64, v, 0, p + *off, r), 0, 64, group, global, *off + r);
  *off += r;
  return 1;
}

static void
m_f32(model_t *m, const uint8_t *p, size_t *off, int group, int global) {
  m_fld(m, m_tok(m, T_F32, le32(p + *off), 0, p + *off, 4), 0, 32, group, global, *off + 4);
  *off += 4;
}

static void
m_raw(model_t *m, const uint8_t *p, size_t *off, size_t len) {
  if (len)
    m_tok(m, T_RAW, 0, 0, p + *off, len);
  *off += len;
}

/* length-prefixed string: length field + the bytes it describes */
static int
m_lps(model_t *m, const uint8_t *p, size_t lim, size_t *off, int group) {
  uint32_t len;
  size_t r = rm_varint32_get(p + *off, lim - *off, &len);
  if (!r || len > lim - *off - r)
    return 0;
  m_fld(m, m_tok(m, T_V32, len, 0, p + *off, r), 0, 32, group, 0, *off + r);
  *off += r;
  m_raw(m, p, off, len);
  return 1;
}

static int
parse_block(model_t *m, const uint8_t *p, size_t n) {
  size_t nr, ro, off = 0, i;
  int entry = 0;
  if (n < 4)
    return 0;
  nr = le32(p + n - 4);
  if (nr > (n - 4) / 4)
    return 0;
  ro = n - 4 - 4 * nr;
  while (off < ro) {
    uint64_t body;
    if (!m_v32(m, p, ro, &off, entry, 0) || !m_v32(m, p, ro, &off, entry, 0) || !m_v32(m, p, ro, &off, entry, 0))
      return 0;
    body = m->t[m->nt - 2].val + m->t[m->nt - 1].val;
    if (body > ro - off)
      return 0;
    m_raw(m, p, &off, (size_t)body);
    entry++;
  }
  for (i = 0; i < nr; i++)
    m_f32(m, p, &off, -1, 1);
  m_f32(m, p, &off, -1, 1);
  return off == n;
}

static int
parse_footer(model_t *m, const uint8_t *p, size_t n) {
  size_t off = 0;
  int i;
  if (n != 48)
    return 0;
  for (i = 0; i < 4; i++)
    if (!m_v64(m, p, 40, &off, 0, 0))
      return 0;
  m_tok(m, T_PADTO, 40, 0, p + off, 40 - off);
  off = 40;
  m_raw(m, p, &off, 8);
  return 1;
}

static int
parse_handle(model_t *m, const uint8_t *p, size_t n) {
  size_t off = 0;
  if (!m_v64(m, p, n, &off, 0, 0) || !m_v64(m, p, n, &off, 0, 0))
    return 0;
  m_raw(m, p, &off, n - off);
  return 1;
}

static int
parse_filter(model_t *m, const uint8_t *p, size_t n) {
  size_t ao, off = 0, num, i;
  if (n < 5)
    return 0;
  ao = le32(p + n - 5);
  if (ao > n - 5)
    return 0;
  num = (n - 5 - ao) / 4;
  m_raw(m, p, &off, ao);
  for (i = 0; i < num; i++)
    m_f32(m, p, &off, 0, 1);
  m_raw(m, p, &off, n - 5 - off);
  m_f32(m, p, &off, 0, 1);
  m_fld(m, m_tok(m, T_U8, p[off], 0, p + off, 1), 0, 8, 0, 1, off + 1);
  return 1;
}

static int
parse_snappy(model_t *m, const uint8_t *p, size_t n) {
  size_t off = 0;
  int el = 0;
  if (!m_v32(m, p, n, &off, -1, 1))
    return 0;
  while (off < n) {
    unsigned t = p[off];
    int tk;
    switch (t & 3) {
      case 0: {
        unsigned x = t >> 2, extra = x < 60 ? 0 : x - 59, i;
        uint64_t nm1 = x;
        if (n - off < 1 + extra)
          return 0;
        if (extra) {
          nm1 = 0;
          for (i = 0; i < extra; i++)
            nm1 |= (uint64_t)p[off + 1 + i] << (8 * i);
        }
        if (nm1 + 1 > n - off - 1 - extra)
          return 0;
        tk = m_tok(m, T_SLIT, nm1 + 1, 0, p + off, 1 + extra);
        m_fld(m, tk, 0, 32, el, 0, off + 1 + extra);
        off += 1 + extra;
        m_raw(m, p, &off, (size_t)(nm1 + 1));
        break;
      }
      case 1:
        if (n - off < 2)
          return 0;
        tk = m_tok(m, T_SC1, 4 + ((t >> 2) & 7), ((t & 0xe0u) << 3) | p[off + 1], p + off, 2);
        m_fld(m, tk, 0, 32, el, 0, off + 2);
        m_fld(m, tk, 1, 32, el, 0, off + 2);
        off += 2;
        break;
      case 2:
        if (n - off < 3)
          return 0;
        tk = m_tok(m, T_SC2, 1 + (t >> 2), (uint64_t)p[off + 1] | (uint64_t)p[off + 2] << 8, p + off, 3);
        m_fld(m, tk, 0, 32, el, 0, off + 3);
        m_fld(m, tk, 1, 32, el, 0, off + 3);
        off += 3;
        break;
      default:
        if (n - off < 5)
          return 0;
        tk = m_tok(m, T_SC4, 1 + (t >> 2), le32(p + off + 1), p + off, 5);
        m_fld(m, tk, 0, 32, el, 0, off + 5);
        m_fld(m, tk, 1, 32, el, 0, off + 5);
        off += 5;
        break;
    }
    el++;
  }
  return 1;
}

static int
parse_edit(model_t *m, const uint8_t *p, size_t n) {
  size_t off = 0;
  int rec = 0;
  while (off < n) {
    uint64_t tag;
    if (!m_v32(m, p, n, &off, rec, 0))
      return 0;
    tag = m->t[m->nt - 1].val;
    switch (tag) {
      case 1:
        if (!m_lps(m, p, n, &off, rec))
          return 0;
        break;
      case 2: case 3: case 4: case 9:
        if (!m_v64(m, p, n, &off, rec, 0))
          return 0;
        break;
      case 5:
        if (!m_v32(m, p, n, &off, rec, 0) || !m_lps(m, p, n, &off, rec))
          return 0;
        break;
      case 6:
        if (!m_v32(m, p, n, &off, rec, 0) || !m_v64(m, p, n, &off, rec, 0))
          return 0;
        break;
      case 7:
        if (!m_v32(m, p, n, &off, rec, 0) || !m_v64(m, p, n, &off, rec, 0) || !m_v64(m, p, n, &off, rec, 0) ||
            !m_lps(m, p, n, &off, rec) || !m_lps(m, p, n, &off, rec))
          return 0;
        break;
      default:
        return 0;
    }
    rec++;
  }
  return 1;
}

static int
parse_batch(model_t *m, const uint8_t *p, size_t n) {
  size_t off = 0;
  int rec = 0;
  if (n < 12)
    return 0;
  m_fld(m, m_tok(m, T_F64, le64(p), 0, p, 8), 0, 64, -1, 1, 8);
  off = 8;
  m_f32(m, p, &off, -1, 1);
  while (off < n) {
    unsigned tag = p[off];
    m_fld(m, m_tok(m, T_U8, tag, 0, p + off, 1), 0, 8, rec, 0, off + 1);
    off++;
    if (tag > 1 || !m_lps(m, p, n, &off, rec))
      return 0;
    if (tag == 1 && !m_lps(m, p, n, &off, rec))
      return 0;
    rec++;
  }
  return 1;
}

static int
parse_log(model_t *m, const uint8_t *p, size_t n) {
  size_t off = 0;
  int rec = 0;
  while (n - off >= 7) {
    size_t len = (size_t)p[off + 4] | (size_t)p[off + 5] << 8;
    if (len > n - off - 7)
      return 0;
    m_tok(m, T_CRC, 0, 0, p + off, 4);
    m_fld(m, m_tok(m, T_U16, len, 0, p + off + 4, 2), 0, 16, rec, 0, off + 6);
    m_fld(m, m_tok(m, T_U8, p[off + 6], 0, p + off + 6, 1), 0, 8, rec, 0, off + 7);
    off += 7;
    m_raw(m, p, &off, len);
    rec++;
  }
  m_raw(m, p, &off, n - off);
  return 1;
}

static int
parse_pkey(model_t *m, const uint8_t *p, size_t n) {
  size_t off = 0;
  if (n < 8)
    return 0;
  m_raw(m, p, &off, n - 8);
  m_fld(m, m_tok(m, T_F64, le64(p + off), 0, p + off, 8), 0, 64, 0, 0, n);
  return 1;
}

static int
parse_seed(model_t *m, const seed_t *sd) {
  memset(m, 0, sizeof(*m));
  m->n = sd->n;
  switch (sd->ep) {
    case EP_BLK: case EP_BLKI: return parse_block(m, sd->p, sd->n);
    case EP_FOOT: return parse_footer(m, sd->p, sd->n);
    case EP_HAND: return parse_handle(m, sd->p, sd->n);
    case EP_FILT: return parse_filter(m, sd->p, sd->n);
    case EP_SNAP: return parse_snappy(m, sd->p, sd->n);
    case EP_EDIT: case EP_EDITDB: return parse_edit(m, sd->p, sd->n);
    case EP_BAT: return parse_batch(m, sd->p, sd->n);
    case EP_LOG: case EP_LOGNC: return parse_log(m, sd->p, sd->n);
    case EP_PKEY: return parse_pkey(m, sd->p, sd->n);
    default: return -1; /* no numeric fields (file names) */
  }
}

/* re-encode; returns the length.  fixcrc: recompute every log record CRC over the variant
 * (last record first: a lying length makes a record cover the headers behind it) */
static size_t
m_encode(const model_t *m, uint8_t *out, int fixcrc) {
  size_t o = 0, crcpos[64];
  int i, ncrc = 0;
  for (i = 0; i < m->nt; i++) {
    const tok_t *t = &m->t[i];
    if (t->kind == T_PADTO) {
      while (o < t->val)
        out[o++] = 0;
      continue;
    }
    if (t->kind == T_CRC && ncrc < 64)
      crcpos[ncrc++] = o;
    if (t->kind == T_RAW || t->kind == T_CRC || (t->val == t->oval && t->val2 == t->oval2)) {
      memcpy(out + o, t->raw, t->rawlen);
      o += t->rawlen;
      continue;
    }
    switch (t->kind) {
      case T_V32: o += rm_varint32_put(out + o, (uint32_t)t->val); break;
      case T_V64: o += rm_varint64_put(out + o, t->val); break;
      case T_F32: st32(out + o, (uint32_t)t->val); o += 4; break;
      case T_F64: st32(out + o, (uint32_t)t->val); st32(out + o + 4, (uint32_t)(t->val >> 32)); o += 8; break;
      case T_U8: out[o++] = (uint8_t)t->val; break;
      case T_U16: out[o++] = (uint8_t)t->val; out[o++] = (uint8_t)(t->val >> 8); break;
      case T_SLIT: {
        uint32_t nm1 = (uint32_t)t->val - 1;
        if (nm1 < 60) {
          out[o++] = (uint8_t)(nm1 << 2);
        } else {
          int nb = nm1 < (1u << 8) ? 1 : nm1 < (1u << 16) ? 2 : nm1 < (1u << 24) ? 3 : 4, k;
          out[o++] = (uint8_t)((59 + nb) << 2);
          for (k = 0; k < nb; k++)
            out[o++] = (uint8_t)(nm1 >> (8 * k));
        }
        break;
      }
      case T_SC1:
        out[o++] = (uint8_t)((((t->val2 >> 8) & 7) << 5) | (((t->val - 4) & 7) << 2) | 1);
        out[o++] = (uint8_t)t->val2;
        break;
      case T_SC2:
        out[o++] = (uint8_t)((((t->val - 1) & 63) << 2) | 2);
        out[o++] = (uint8_t)t->val2;
        out[o++] = (uint8_t)(t->val2 >> 8);
        break;
      case T_SC4:
        out[o++] = (uint8_t)((((t->val - 1) & 63) << 2) | 3);
        st32(out + o, (uint32_t)t->val2);
        o += 4;
        break;
    }
  }
  if (fixcrc) {
    for (i = ncrc - 1; i >= 0; i--) {
      size_t at = crcpos[i], len;
      if (o - at < 7)
        continue;
      len = (size_t)out[at + 4] | (size_t)out[at + 5] << 8;
      if (len <= o - at - 7)
        st32(out + at, ldb_crc32c_mask(ldb_crc32c_extend(0, out + at + 6, 1 + len)));
    }
  }
  return o;
}

static const uint64_t B32[] = {0, 1, 2, 4, 8, 16, 0x7f, 0x80, 0x3fff, 0x4000, 0x1fffff, 0x200000, 0xfffffff, 0x10000000,
                               0x7fffffff, 0x80000000u, 0xfffffff0u, 0xfffffff8u, 0xfffffffcu, 0xfffffffeu, 0xffffffffu};
static const uint64_t B64X[] = {UINT64_C(1) << 32, (UINT64_C(1) << 32) - 1, (UINT64_C(1) << 32) + 1, UINT64_C(1) << 63,
                                UINT64_MAX, UINT64_MAX - 7, UINT64_MAX - 1, (UINT64_C(1) << 63) - 1};
static const uint64_t B16[] = {0, 1, 2, 4, 8, 16, 0x7f, 0x80, 0xff, 0x100, 0x3fff, 0x4000, 0x7ff0, 0x7ff9, 0x7fff, 0x8000,
                               0xfff0, 0xfff8, 0xfffc, 0xfffe, 0xffff};
static const uint64_t B8[] = {0, 1, 2, 3, 4, 5, 6, 7, 8, 9, 10, 11, 12, 16, 0x3f, 0x40, 0x7f, 0x80, 0x81, 0xfe, 0xff};
#define MAXVALS 48

static int
field_values(const model_t *m, const fld_t *f, uint64_t *out) {
  const uint64_t *base = f->bits == 8 ? B8 : f->bits == 16 ? B16 : B32;
  int nb = f->bits == 8 ? (int)(sizeof(B8) / 8) : f->bits == 16 ? (int)(sizeof(B16) / 8) : (int)(sizeof(B32) / 8);
  uint64_t mask = f->bits == 64 ? UINT64_MAX : (UINT64_C(1) << f->bits) - 1;
  uint64_t rem = m->n - f->end, ctx[9];
  int n = 0, nc = 0, i, j, k;
  for (i = 0; i < nb; i++)
    out[n++] = base[i];
  if (f->bits == 64)
    for (i = 0; i < (int)(sizeof(B64X) / 8); i++)
      out[n++] = B64X[i];
  /* contextual: seed length - k, remaining bytes +- k */
  for (k = 0; k <= 2; k++) {
    ctx[nc++] = (uint64_t)m->n - (uint64_t)k;
    ctx[nc++] = rem - (uint64_t)k;
    ctx[nc++] = rem + (uint64_t)k;
  }
  for (i = 0; i < nc; i++) {
    uint64_t v = ctx[i] & mask;
    for (j = 0; j < n; j++)
      if (out[j] == v)
        break;
    if (j == n)
      out[n++] = v;
  }
  return n;
}

static uint64_t fld_get(const model_t *m, const fld_t *f) { return f->sub ? m->t[f->tok].val2 : m->t[f->tok].val; }
static uint64_t fld_orig(const model_t *m, const fld_t *f) { return f->sub ? m->t[f->tok].oval2 : m->t[f->tok].oval; }
static void
fld_set(model_t *m, const fld_t *f, uint64_t v) {
  if (f->sub)
    m->t[f->tok].val2 = v;
  else
    m->t[f->tok].val = v;
}

static int
pair_allowed(int ep, const fld_t *a, const fld_t *b) {
  if (a->tok == b->tok && a->sub == b->sub)
    return 0;
  if (drv.thorough)
    return 1;
  /* quick: fields of the same entry / record, for the block, batch, edit, footer and handle seeds */
  if (!(ep == EP_BLK || ep == EP_BLKI || ep == EP_BAT || ep == EP_EDIT || ep == EP_EDITDB || ep == EP_FOOT || ep == EP_HAND))
    return 0;
  return a->group >= 0 && a->group == b->group;
}

static void
dom_fields(const seed_t *sd, int idx) {
  model_t m;
  uint8_t *b;
  uint64_t v1[MAXVALS], v2[MAXVALS];
  int rc, i, j, a, c, n1, n2, fix, nfix;
  size_t len;
  rc = parse_seed(&m, sd);
  if (rc < 0) {
    m_free(&m);
    return;
  }
  b = malloc(sd->n + 128);
  if (rc == 0 || (len = m_encode(&m, b, 0)) != sd->n || memcmp(b, sd->p, sd->n) != 0)
    vh_die("c18_decoders: D5 parser does not reproduce seed %d (%s, ep %s)", idx, sd->what, EPN[sd->ep]);
  if (drv.shard == 0)
    n_d5_fields += (uint64_t)m.nf;
  (void)fld_get;
  /* log files: every variant with recomputed CRCs (record reachable) and with the stale CRCs */
  nfix = (sd->ep == EP_LOG || sd->ep == EP_LOGNC) ? 2 : 1;
  for (fix = nfix - 1; fix >= 0; fix--) {
    for (i = 0; i < m.nf; i++) {
      const fld_t *f = &m.f[i];
      uint64_t o1 = fld_orig(&m, f);
      n1 = field_values(&m, f, v1);
      for (a = 0; a < n1; a++) {
        if (v1[a] == o1)
          continue;
        fld_set(&m, f, v1[a]);
        len = m_encode(&m, b, fix);
        if (run_case(sd->ep, b, len) >= 0)
          n_d5_single++;
      }
      fld_set(&m, f, o1);
      if (stop_now())
        goto out;
    }
    for (i = 0; i < m.nf; i++) {
      const fld_t *f = &m.f[i];
      uint64_t o1 = fld_orig(&m, f);
      n1 = field_values(&m, f, v1);
      for (j = i + 1; j < m.nf; j++) {
        const fld_t *g = &m.f[j];
        uint64_t o2 = fld_orig(&m, g);
        if (!pair_allowed(sd->ep, f, g))
          continue;
        n2 = field_values(&m, g, v2);
        for (a = 0; a < n1; a++) {
          if (v1[a] == o1)
            continue;
          fld_set(&m, f, v1[a]);
          for (c = 0; c < n2; c++) {
            if (v2[c] == o2)
              continue;
            fld_set(&m, g, v2[c]);
            len = m_encode(&m, b, fix);
            if (run_case(sd->ep, b, len) >= 0)
              n_d5_pairs++;
          }
          fld_set(&m, g, o2);
        }
        fld_set(&m, f, o1);
        if (stop_now())
          goto out;
      }
    }
  }
out:
  free(b);
  m_free(&m);
}

/* ------------------------------------------------------------------ */

static int
replay(const char *text) {
  static uint8_t buf[1 << 16];
  char name[16];
  const char *h;
  size_t n = 0;
  uint64_t items;
  int e, out;
  if (sscanf(text, "ep=%15s", name) != 1 || !(h = strstr(text, "hex=")))
    return 0;
  for (e = 0; e < NEP; e++)
    if (strcmp(name, EPN[e]) == 0)
      break;
  if (e == NEP)
    return 0;
  h += 4;
  while (h[0] && h[1]) {
    unsigned v;
    if (sscanf(h, "%2x", &v) != 1 || n >= sizeof(buf))
      return 0;
    buf[n++] = (uint8_t)v;
    h += 2;
  }
  drv_case("%s", text);
  ep_viol = NULL;
  out = exec_ep(e, buf, n, &items);
  if (ep_viol)
    report_viol(e, text);
  else
    printf("NOTE replay held: ep=%s input of %zu bytes, outcome %d, %" PRIu64 " items decoded\n", EPN[e], n, out, items);
  return 1;
}

int
main(int argc, char **argv) {
  vh_buf_t res;
  int e, i, maxlen;
  const char *only;
  double t0, t1, t2, t3, t4, t5, ts, t_ep[NEP];
  drv_init(argc, argv);
  memset(t_ep, 0, sizeof(t_ep));
  ldb_ikc_init(&ikc, ldb_bytewise_comparator);
  ldb_crc32c_init();
  wd_start();

  if (drv.replay) {
    if (!replay(drv.replay))
      vh_die("c18_decoders: cannot parse replay text: %.200s", drv.replay);
    drv_result("\"evaluations\":1,\"exhaustive\":true");
    return 0;
  }

  only = drv_opt("ep", NULL); /* development aid: restrict to one entry point */
  maxlen = (int)drv_opt_long("maxlen", drv.thorough ? 3 : 2);
  build_seeds();

  /* D3 first: the seed mutations reach deepest */
  t0 = drv_elapsed();
  for (i = 0; i < nseeds && !stop_now(); i++)
    if (!only || strcmp(only, EPN[seeds[i].ep]) == 0)
      dom_seed(&seeds[i], i);
  t1 = drv_elapsed();
  ts = t1 - t0;
  /* D5: field-aware substitution */
  for (i = 0; i < nseeds && !stop_now(); i++)
    if (!only || strcmp(only, EPN[seeds[i].ep]) == 0)
      dom_fields(&seeds[i], i);
  t5 = drv_elapsed() - t1;
  t1 = drv_elapsed();
  for (e = 0; e < NEP && !stop_now(); e++) {
    if (only && strcmp(only, EPN[e]) != 0)
      continue;
    dom_alphabet(e);
  }
  for (e = 0; e < NEP && !stop_now(); e++) {
    if (only && strcmp(only, EPN[e]) != 0)
      continue;
    dom_alphabet24(e);
  }
  t2 = drv_elapsed();
  for (e = 0; e < NEP && !stop_now(); e++) {
    double ta = drv_elapsed();
    if (only && strcmp(only, EPN[e]) != 0)
      continue;
    dom_all_strings(e, maxlen);
    t_ep[e] = drv_elapsed() - ta;
  }
  t3 = drv_elapsed();
  if (drv.thorough) {
    int j;
    for (i = 0; i < nseeds && !stop_now(); i++)
      for (j = 0; j < nseeds && !stop_now(); j++) {
        if (i == j || seeds[i].ep != seeds[j].ep || (only && strcmp(only, EPN[seeds[i].ep]) != 0))
          continue;
        if (seeds[i].ep == EP_FNAME)
          continue; /* ten one-line names: substitutions and truncations cover them */
        dom_splice(&seeds[i], &seeds[j]);
      }
  }
  t4 = drv_elapsed();

  drv_note("c18_decoders %s: %d entry points; D1 all byte strings of length <= %d per entry point; D1b all strings of "
           "length 3..%d over a 24-value alphabet; D2 {00,01,07,7F,80,FF}^<=6; D3 %d seeds: single substitution x 10 "
           "values, every truncation, double substitution %s%s; snappy output block = min(declared, 64*n+64) bytes; "
           "declared size above %zu MiB (ldb_read_block's malloc would be refused -> ENOMEM) in %" PRIu64
           " cases on this shard",
           drv.thorough ? "thorough" : "quick", NEP, maxlen, drv.thorough ? 5 : 3, nseeds,
           drv.thorough ? "{00,7F,80,FF}^2 at every offset pair" : "{00,FF}^2 at offset pairs <= 16 apart",
           drv.thorough ? "; D4 splices prefix(A)+suffix(B) for every ordered pair of seeds of one entry point" : "", ALLOC_CAP >> 20, n_enomem);

  drv_note("D5 field-aware substitution: every seed parsed by the driver's own parsers into numeric fields (block: "
           "shared/non_shared/value_length per entry, restart offsets, num_restarts; footer/handle: handle varint64s; "
           "filter: offset array, array offset, base_lg; snappy: preamble, literal length, copy length/offset per "
           "element; edit: every tag/level/number/length; batch: sequence, count, per record tag and lengths; log: "
           "record length and type with recomputed AND stale CRC; pkey: trailer) and re-encoded at natural varint "
           "length with (a) each field and (b) %s set to each of {0,1,2,4,8,16,7f,80,3fff,4000,1fffff,200000,fffffff,"
           "10000000,7fffffff,80000000,fffffff0,fffffff8,fffffffc,fffffffe,ffffffff, seed length-k, remaining bytes+-k "
           "(k<=2)} (64-bit fields also 2^32, 2^32+-1, 2^63, 2^63-1, 2^64-1, 2^64-2, 2^64-8; byte and 16-bit fields "
           "their own lists), so sums wrapping at 2^32/2^64 are included",
           drv.thorough ? "every pair of fields of the seed"
                        : "every pair of fields of one entry/record (block, batch, edit, footer, handle seeds)");

  vb_init(&res);
  vb_printf(&res, "\"evaluations\":%" PRIu64 ",\"exhaustive\":%s,\"d1_all_strings\":%" PRIu64 ",\"d1b_alphabet24\":%" PRIu64 ",\"d2_alphabet\":%" PRIu64
            ",\"d3_single\":%" PRIu64 ",\"d3_trunc\":%" PRIu64 ",\"d3_double\":%" PRIu64 ",\"d4_splice\":%" PRIu64
            ",\"seeds\":%d,\"seeds_not_accepted\":%" PRIu64 ",\"enomem_simulated\":%" PRIu64,
            n_eval, exhaustive ? "true" : "false", n_d1, n_d1b, n_d2, n_single, n_trunc, n_double, n_splice,
            drv.shard == 0 ? nseeds : 0, drv.shard == 0 ? n_seed_rejected : (uint64_t)0, n_enomem);
  vb_printf(&res, ",\"max_t_seeds_s\":%.2f,\"max_t_alphabet_s\":%.2f,\"max_t_allstrings_s\":%.2f,\"max_t_splice_s\":%.2f",
            ts, t2 - t1, t3 - t2, t4 - t3);
  vb_printf(&res, ",\"d5_single\":%" PRIu64 ",\"d5_pairs\":%" PRIu64 ",\"d5_fields\":%" PRIu64 ",\"max_t_fields_s\":%.2f",
            n_d5_single, n_d5_pairs, n_d5_fields, t5);
  for (e = 0; e < NEP; e++)
    vb_printf(&res, ",\"max_t_d1_%s_s\":%.2f", EPN[e], t_ep[e]);
  for (e = 0; e < NEP; e++)
    vb_printf(&res, ",\"cases_%s\":%" PRIu64 ",\"accepted_%s\":%" PRIu64 ",\"items_%s\":%" PRIu64, EPN[e], n_cases[e],
              EPN[e], n_accept[e], EPN[e], n_items[e]);
  drv_result(res.p);
  vb_free(&res);
  return 0;
}
