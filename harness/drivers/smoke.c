/* VH_LINK:
 * smoke.c - sanity test of the seams: open/put/flush/compact/close/reopen on
 * the in-memory FS under the fiber scheduler, with two racing writers. */
#include <stdlib.h>
#include <string.h>
#include <lcdb.h>
#include "vh.h"

extern int lcdb_verif_raw_options;
extern double lcdb_verif_l1_bytes;
int lcdb_verif_raw_options = 1;
double lcdb_verif_l1_bytes = 0;

int ldb_test_compact_memtable(ldb_t *db);

static void logv(void *st, const char *fmt, va_list ap) { (void)st; (void)fmt; (void)ap; }

static ldb_t *gdb;
static int racy;

static void
writer(void *arg) {
  long id = (long)arg;
  char k[16], v[2000];
  int i;
  for (i = 0; i < 3; i++) {
    ldb_slice_t ks, vs;
    sprintf(k, "k%ld", (long)i);
    memset(v, 'a' + (int)id, sizeof(v));
    ks = ldb_slice(k, strlen(k));
    vs = ldb_slice(v, sizeof(v));
    if (ldb_put(gdb, &ks, &vs, NULL) != LDB_OK)
      vh_die("put failed");
    racy++;
  }
}

static void
body(void *arg) {
  ldb_dbopt_t opt = *ldb_dbopt_default;
  ldb_logger_t *lg = ldb_logger_create(logv, NULL);
  ldb_t *db;
  int rc, i, t1, t2;
  (void)arg;
  opt.create_if_missing = 1;
  opt.info_log = lg;
  opt.write_buffer_size = 4200;
  opt.max_file_size = 2500;
  opt.block_size = 256;
  rc = ldb_open("/vfs/db", &opt, &db);
  if (rc != LDB_OK)
    vh_die("open: %s", ldb_strerror(rc));
  gdb = db;
  t1 = sch_spawn(writer, (void *)1);
  t2 = sch_spawn(writer, (void *)2);
  sch_join(t1);
  sch_join(t2);
  ldb_test_compact_memtable(db);
  ldb_compact(db, NULL, NULL);
  sch_drain();
  ldb_close(db);
  rc = ldb_open("/vfs/db", &opt, &db);
  if (rc != LDB_OK)
    vh_die("reopen: %s", ldb_strerror(rc));
  for (i = 0; i < 3; i++) {
    char k[16];
    ldb_slice_t ks, val;
    sprintf(k, "k%d", i);
    ks = ldb_slice(k, strlen(k));
    rc = ldb_get(db, &ks, &val, NULL);
    if (rc != LDB_OK || val.size != 2000)
      vh_die("get %s: %s", k, ldb_strerror(rc));
    ldb_free(val.data);
  }
  ldb_close(db);
  ldb_logger_destroy(lg);
}

int
main(int argc, char **argv) {
  sch_cfg_t cfg;
  int rc, rounds = argc > 1 ? atoi(argv[1]) : 3, r;
  int prefix[4] = {1, 0, 1, 1};
  for (r = 0; r < rounds; r++) {
    vfs_t *v = vfs_new();
    vfs_use(v);
    memset(&cfg, 0, sizeof(cfg));
    cfg.hook_points = 1;
    cfg.io_points = (r & 1);
    cfg.prefix = prefix;
    cfg.nprefix = (r % 3 == 2) ? 4 : 0;
    rc = sch_run(body, NULL, &cfg);
    printf("round %d: status=%d steps=%ld choicepoints=%d journal=%d threads=%d\n", r, rc, sch_steps,
           sch_trace_len, vfs_jlen(v), sch_nthreads());
    if (rc != SCH_OK)
      printf("  %s\n", sch_describe_block());
    vfs_free(v);
  }
  return 0;
}
