/* VH_LINK: kv layout ref_codecs rm_manifest
 * repair.c - C19: repair recovers all surviving data.
 *
 * States: every operation history up to a depth (and scripted deeper ones) run on
 * the real code, drained and closed.  For each state and each metadata-damage
 * variant (MANIFEST+CURRENT deleted, CURRENT deleted, MANIFEST truncated at several
 * points, garbage CURRENT, one table deleted) the expectation "newest version of
 * every key present in the surviving table and log files" is computed with the
 * INDEPENDENT table/log decoders from the damaged image; then the real ldb_repair
 * + ldb_open run and point lookups, the iterator, a follow-up write and the file
 * names created afterwards are checked.
 */
#define _GNU_SOURCE
#include <stdlib.h>
#include <string.h>
#include "kv.h"
#include "layout.h"
#include "ref.h"

int ldb_repair(const char *dbname, const ldb_dbopt_t *options);

#define MAXOPS 20
static const char *DB = "/vfs/db";
static kcfg_t cfg;
static uint64_t n_states, n_cases, n_repairs, n_known_shape;

typedef struct hist_s { int n; kop_t ops[MAXOPS]; } hist_t;

typedef struct ver_s { uint64_t seq; int del; int vid, sz; int present; uint64_t file; int from_log; } ver_t;

static unsigned char *scratch;

/* newest surviving version per user key, from the bytes of every table and log in the image */
static int
surviving(vfs_t *v, ver_t *best, ver_t all[][64], int *nall, char *err, size_t en) {
  char names[256][64];
  int nn = vfs_list(v, DB, names, 256), i, k;
  for (k = 0; k < kv_nkeys; k++) { memset(&best[k], 0, sizeof(best[k])); nall[k] = 0; }
  for (i = 0; i < nn; i++) {
    size_t l = strlen(names[i]);
    char p[300];
    const vinode_t *ino;
    uint64_t fnum = strtoull(names[i], NULL, 10);
    snprintf(p, sizeof(p), "%s/%s", DB, names[i]);
    ino = vfs_inode(v, vfs_lookup(v, p));
    if (l > 4 && (strcmp(names[i] + l - 4, ".ldb") == 0 || strcmp(names[i] + l - 4, ".sst") == 0)) {
      ref_table_t t;
      size_t e;
      ref_table_init(&t);
      if (ref_table_read(ino->data, ino->len, NULL, 8, 0, &t) != 0) {
        snprintf(err, en, "surviving table %s does not decode: %s", names[i], t.err);
        ref_table_free(&t);
        return 0;
      }
      for (e = 0; e < t.n; e++) {
        const uint8_t *key = (const uint8_t *)t.pool.p + t.e[e].koff;
        size_t klen = t.e[e].klen - 8;
        uint64_t tr = ref_le64(key + klen);
        for (k = 0; k < kv_nkeys; k++)
          if (klen == kv_keylen[k] && (klen == 0 || memcmp(key, kv_keys[k], klen) == 0)) {
            ver_t x;
            memset(&x, 0, sizeof(x));
            x.seq = tr >> 8; x.del = ((tr & 0xff) == 0); x.present = 1; x.file = fnum;
            if (!x.del && !kv_vparse((const uint8_t *)t.pool.p + t.e[e].voff, t.e[e].vlen, &x.vid, &x.sz, scratch)) x.vid = -1;
            if (nall[k] < 64) all[k][nall[k]++] = x;
            if (!best[k].present || x.seq > best[k].seq) best[k] = x;
          }
      }
      ref_table_free(&t);
    } else if (l > 4 && strcmp(names[i] + l - 4, ".log") == 0) {
      ref_reclist_t recs;
      size_t r;
      ref_reclist_init(&recs);
      ref_log_decode(ino->data, ino->len, 0, &recs);
      for (r = 0; r < recs.n; r++) {
        const uint8_t *b = (const uint8_t *)recs.data.p + recs.off[r];
        size_t n = recs.len[r], pos = 12;
        uint64_t seq;
        uint32_t cnt, c;
        if (n < 12) continue;
        seq = ref_le64(b);
        cnt = ref_le32(b + 8);
        for (c = 0; c < cnt && pos < n; c++) {
          int type = b[pos++];
          uint32_t kl, vl = 0;
          size_t used = ref_varint32_get(b + pos, n - pos, &kl);
          const uint8_t *key, *val = NULL;
          if (!used) break;
          pos += used;
          key = b + pos;
          pos += kl;
          if (type == 1) {
            used = ref_varint32_get(b + pos, n - pos, &vl);
            if (!used) break;
            pos += used;
            val = b + pos;
            pos += vl;
          }
          if (pos > n) break;
          for (k = 0; k < kv_nkeys; k++)
            if (kl == kv_keylen[k] && (kl == 0 || memcmp(key, kv_keys[k], kl) == 0)) {
              ver_t x;
              memset(&x, 0, sizeof(x));
              x.seq = seq + c; x.del = (type == 0); x.present = 1; x.file = fnum; x.from_log = 1;
              if (!x.del && !kv_vparse(val, vl, &x.vid, &x.sz, scratch)) x.vid = -1;
              if (nall[k] < 64) all[k][nall[k]++] = x;
              if (!best[k].present || x.seq > best[k].seq) best[k] = x;
            }
        }
      }
      ref_reclist_free(&recs);
    }
  }
  return 1;
}

/* ---------------- building a state ---------------- */

typedef struct build_s { const hist_t *h; int ok; char err[200]; } build_t;

static void
build_body(void *arg) {
  build_t *b = arg;
  khist_t h;
  int i;
  kh_init(&h, &cfg, DB);
  b->ok = 1;
  if (kh_open(&h) != LDB_OK) { b->ok = 0; snprintf(b->err, sizeof(b->err), "open failed"); kh_clear(&h); return; }
  for (i = 0; i < b->h->n; i++)
    if (kh_apply(&h, &b->h->ops[i]) != LDB_OK) { b->ok = 0; snprintf(b->err, sizeof(b->err), "op %d failed", i); break; }
  kh_clear(&h);
}

/* ---------------- damage variants ---------------- */

enum { DV_NOMETA = 0, DV_NOCURRENT, DV_TRUNC_HALF, DV_TRUNC_LAST, DV_TRUNC_ZERO, DV_GARBAGE_CURRENT, DV_DROP_TABLE0, DV_DROP_TABLE1, DV_REPAIR_TWICE, DV_STALE_MAN1, DV_DAMAGED_TABLE0, DV_DAMAGED_TABLE1, DV_LOG_BAD_BATCH, DV_COUNT };
static const char *dvname[] = {"MANIFEST+CURRENT deleted", "CURRENT deleted", "MANIFEST cut in half", "MANIFEST cut 1 byte short", "MANIFEST emptied",
                               "CURRENT holds garbage", "oldest table deleted", "newest table deleted",
                               "MANIFEST+CURRENT deleted, ldb_repair run twice before the open", "MANIFEST+CURRENT deleted, a stale garbage MANIFEST-000001 left in the directory",
                               "MANIFEST+CURRENT deleted, the LAST data block of the oldest table damaged (repair run with paranoid_checks salvages what is readable)",
                               "MANIFEST+CURRENT deleted, the FIRST data block of the newest table damaged (repair run with paranoid_checks salvages what is readable)",
                               "MANIFEST+CURRENT deleted, the first record of a live log holds a malformed write batch (unknown tag, valid CRC) followed by good records"};

static uint64_t dam_file;   /* number of the table / log damaged by the current variant (0 = none) */
static uint64_t dam_seq_lo, dam_seq_hi;   /* log variant: sequence range of the malformed record (hi = 0: the whole file) */
#define IS_OPTIONAL(j, x) ((x)->file == (j)->dam_file && ((j)->dam_seq_hi == 0 || ((x)->seq >= (j)->dam_seq_lo && (x)->seq < (j)->dam_seq_hi)) && ((j)->dam_seq_hi == 0) == !(x)->from_log)

static int
apply_damage(vfs_t *v, int dv) {
  char names[256][64], p[300];
  int nn = vfs_list(v, DB, names, 256), i;
  char man[64] = "";
  uint64_t tmin = ~(uint64_t)0, tmax = 0;
  int ntab = 0;
  for (i = 0; i < nn; i++) {
    size_t l = strlen(names[i]);
    if (strncmp(names[i], "MANIFEST-", 9) == 0) strcpy(man, names[i]);
    if (l > 4 && strcmp(names[i] + l - 4, ".ldb") == 0) {
      uint64_t x = strtoull(names[i], NULL, 10);
      if (x < tmin) tmin = x;
      if (x > tmax) tmax = x;
      ntab++;
    }
  }
  switch (dv) {
    case DV_NOMETA: case DV_REPAIR_TWICE: case DV_STALE_MAN1:
      snprintf(p, sizeof(p), "%s/%s", DB, man); vfs_remove(v, p);
      snprintf(p, sizeof(p), "%s/CURRENT", DB); vfs_remove(v, p);
      if (dv == DV_STALE_MAN1) {
        snprintf(p, sizeof(p), "%s/MANIFEST-000001", DB);
        vfs_put_file(v, p, "this is not a descriptor, it is 44 bytes long", 44);
      }
      return 1;
    case DV_NOCURRENT:
      snprintf(p, sizeof(p), "%s/CURRENT", DB); vfs_remove(v, p);
      return 1;
    case DV_TRUNC_HALF: case DV_TRUNC_LAST: case DV_TRUNC_ZERO: {
      const vinode_t *ino;
      size_t nl;
      void *copy;
      snprintf(p, sizeof(p), "%s/%s", DB, man);
      ino = vfs_inode(v, vfs_lookup(v, p));
      if (!ino || ino->len < 2) return 0;
      nl = dv == DV_TRUNC_HALF ? ino->len / 2 : (dv == DV_TRUNC_LAST ? ino->len - 1 : 0);
      copy = malloc(nl + 1);
      memcpy(copy, ino->data, nl);
      vfs_put_file(v, p, copy, nl);
      free(copy);
      return 1;
    }
    case DV_GARBAGE_CURRENT:
      snprintf(p, sizeof(p), "%s/CURRENT", DB);
      vfs_put_file(v, p, "MANIFEST-999999\n", 16);
      return 1;
    case DV_DAMAGED_TABLE0: case DV_DAMAGED_TABLE1: {
      /* one byte inside one data block flipped: the block's CRC no longer matches, the rest of the table is intact */
      const vinode_t *ino;
      ref_table_t t;
      unsigned char *copy;
      size_t at;
      if (ntab < 1) return 0;
      snprintf(p, sizeof(p), "%s/%06llu.ldb", DB, (unsigned long long)(dv == DV_DAMAGED_TABLE0 ? tmin : tmax));
      ino = vfs_inode(v, vfs_lookup(v, p));
      if (!ino) return 0;
      ref_table_init(&t);
      if (ref_table_read(ino->data, ino->len, NULL, 8, 0, &t) != 0 || t.nblk < 1) { ref_table_free(&t); return 0; }
      at = (size_t)(dv == DV_DAMAGED_TABLE0 ? t.blk[t.nblk - 1].off : t.blk[0].off) + 1;
      ref_table_free(&t);
      copy = malloc(ino->len);
      memcpy(copy, ino->data, ino->len);
      copy[at] ^= 0x40;
      dam_file = dv == DV_DAMAGED_TABLE0 ? tmin : tmax;
      vfs_put_file(v, p, copy, ino->len);
      free(copy);
      snprintf(p, sizeof(p), "%s/%s", DB, man); vfs_remove(v, p);
      snprintf(p, sizeof(p), "%s/CURRENT", DB); vfs_remove(v, p);
      return 1;
    }
    case DV_LOG_BAD_BATCH: {
      /* the first physical record of a log is a FULL record followed by at least one more record: its batch gets an
         unknown tag in its first entry and a recomputed CRC (a record the log reader hands on and the batch decoder
         rejects); the records behind it are intact and survive */
      for (i = 0; i < nn; i++) {
        size_t l = strlen(names[i]);
        const vinode_t *ino;
        unsigned char *copy;
        size_t len0;
        uint32_t crc;
        if (!(l > 4 && strcmp(names[i] + l - 4, ".log") == 0)) continue;
        snprintf(p, sizeof(p), "%s/%s", DB, names[i]);
        ino = vfs_inode(v, vfs_lookup(v, p));
        if (!ino || ino->len < 7 + 13) continue;
        len0 = (size_t)((const unsigned char *)ino->data)[4] | ((size_t)((const unsigned char *)ino->data)[5] << 8);
        if (((const unsigned char *)ino->data)[6] != 1 || len0 < 13 || 7 + len0 + 7 > ino->len || 7 + len0 + 7 > 32768) continue;
        copy = malloc(ino->len);
        memcpy(copy, ino->data, ino->len);
        dam_file = strtoull(names[i], NULL, 10);
        dam_seq_lo = ref_le64(copy + 7);
        dam_seq_hi = dam_seq_lo + ref_le32(copy + 7 + 8);
        copy[7 + 12] = 7;   /* neither kTypeDeletion (0) nor kTypeValue (1) */
        crc = ref_crc_mask(ref_crc32c(0, copy + 6, 1 + len0));
        copy[0] = (unsigned char)crc; copy[1] = (unsigned char)(crc >> 8); copy[2] = (unsigned char)(crc >> 16); copy[3] = (unsigned char)(crc >> 24);
        vfs_put_file(v, p, copy, ino->len);
        free(copy);
        snprintf(p, sizeof(p), "%s/%s", DB, man); vfs_remove(v, p);
        snprintf(p, sizeof(p), "%s/CURRENT", DB); vfs_remove(v, p);
        return 1;
      }
      return 0;
    }
    case DV_DROP_TABLE0: case DV_DROP_TABLE1:
      if (ntab < 2) return 0;
      snprintf(p, sizeof(p), "%s/%06llu.ldb", DB, (unsigned long long)(dv == DV_DROP_TABLE0 ? tmin : tmax));
      vfs_remove(v, p);
      return 1;
  }
  return 0;
}

static int cur_dv;

/* ---------------- the check ---------------- */

typedef struct job_s {
  ver_t best[KV_MAXKEYS];
  ver_t all[KV_MAXKEYS][64];
  int nall[KV_MAXKEYS];
  int ok;
  char sig[64];
  char err[600];
  uint64_t outcome;
  uint64_t dam_file, dam_seq_lo, dam_seq_hi;
} job_t;

static void
jfail(job_t *j, const char *sig, const char *msg) {
  if (!j->ok) return;
  j->ok = 0;
  snprintf(j->sig, sizeof(j->sig), "%s", sig);
  snprintf(j->err, sizeof(j->err), "%s", msg);
}

static void
repair_body(void *arg) {
  job_t *j = arg;
  khist_t h;
  int rc, k, pre_names;
  char m[500];
  ldb_iter_t *it;
  int itv[KV_MAXKEYS], itp[KV_MAXKEYS];
  j->ok = 1;
  kh_init(&h, &cfg, DB);
  pre_names = vfs_jlen(vfs_cur);
  if (j->dam_file) {
    /* What survives of a table with one damaged block is what a checksum-verifying reader can still read.  The
     * oracle asks no more than: the version served is the newest one of the INTACT files, or a newer one that the
     * damaged table held (whether repair salvages that one is its business) - and lookups agree with the iterator. */
    h.o.opt.paranoid_checks = 1;
    for (k = 0; k < kv_nkeys; k++) {
      int a;
      ver_t bi;
      memset(&bi, 0, sizeof(bi));
      for (a = 0; a < j->nall[k]; a++)
        if (!IS_OPTIONAL(j, &j->all[k][a]) && (!bi.present || j->all[k][a].seq > bi.seq)) bi = j->all[k][a];
      j->best[k] = bi;
    }
  }
  rc = ldb_repair(DB, &h.o.opt);
  n_repairs++;
  if (rc == LDB_OK && cur_dv == DV_REPAIR_TWICE) {
    rc = ldb_repair(DB, &h.o.opt);
    n_repairs++;
  }
  if (rc != LDB_OK) {
    snprintf(m, sizeof(m), "ldb_repair returned %d (%s)", rc, ldb_strerror(rc));
    jfail(j, "repair-failed", m);
    kh_clear(&h);
    return;
  }
  rc = kh_open(&h);
  if (rc != LDB_OK) {
    snprintf(m, sizeof(m), "ldb_open after a successful repair returned %d (%s)", rc, ldb_strerror(rc));
    jfail(j, "repair-open-failed", m);
    kh_clear(&h);
    return;
  }
  /* iterator view */
  for (k = 0; k < kv_nkeys; k++) { itv[k] = 0; itp[k] = 0; }
  it = ldb_iterator(h.db, NULL);
  for (ldb_iter_first(it); ldb_iter_valid(it); ldb_iter_next(it)) {
    ldb_slice_t key = ldb_iter_key(it), val = ldb_iter_value(it);
    for (k = 0; k < kv_nkeys; k++)
      if (key.size == kv_keylen[k] && (key.size == 0 || memcmp(key.data, kv_keys[k], key.size) == 0)) {
        int vid, sz;
        itp[k] = 1;
        itv[k] = kv_vparse(val.data, val.size, &vid, &sz, scratch) ? vid : -1;
      }
  }
  if (ldb_iter_status(it) != LDB_OK) jfail(j, "repair-iter-status", "iterator status not OK after repair");
  ldb_iter_destroy(it);
  j->outcome = 3;
  for (k = 0; k < kv_nkeys && j->ok; k++) {
    ldb_slice_t key = ldb_slice(kv_keys[k], kv_keylen[k]), val;
    int want_present = j->best[k].present && !j->best[k].del;
    int want_vid = want_present ? j->best[k].vid : 0;
    int gvid = 0, gp = 0;
    if (j->dam_file) {
      /* the iterator may also show a version of the damaged table that is newer than every intact one */
      int a;
      for (a = 0; a < j->nall[k]; a++) {
        ver_t *x = &j->all[k][a];
        if (IS_OPTIONAL(j, x) && (!j->best[k].present || x->seq > j->best[k].seq) &&
            itp[k] == !x->del && (x->del || itv[k] == x->vid)) {
          j->best[k] = *x;
          want_present = !x->del;
          want_vid = want_present ? x->vid : 0;
        }
      }
    }
    rc = ldb_get(h.db, &key, &val, NULL);
    if (rc == LDB_OK) {
      int vid, sz;
      gp = 1;
      gvid = kv_vparse(val.data, val.size, &vid, &sz, scratch) ? vid : -1;
      ldb_free(val.data);
    } else if (rc != LDB_NOTFOUND) {
      snprintf(m, sizeof(m), "get of key #%d after repair returns status %d", k, rc);
      jfail(j, "repair-get-status", m);
      break;
    }
    j->outcome = vh_mix(j->outcome, (uint64_t)(gvid + 3) * 7 + (uint64_t)(itv[k] + 3));
    if (itp[k] != want_present || (want_present && itv[k] != want_vid)) {
      snprintf(m, sizeof(m), "key #%d: iterator shows %s v%d, the newest surviving version (seq %llu in file #%llu) is %s v%d", k, itp[k] ? "value" : "nothing",
               itv[k], (unsigned long long)j->best[k].seq, (unsigned long long)j->best[k].file, want_present ? "value" : (j->best[k].present ? "a tombstone" : "absent"), want_vid);
      jfail(j, "repair-iterator-wrong", m);
      break;
    }
    if (gp != want_present || (want_present && gvid != want_vid)) {
      /* is it the recorded shape: point lookup serves an OLDER SURVIVING version whose repaired
       * file carries the larger number, while the iterator is right? */
      int a, older_surviving = 0;
      uint64_t stale_file = 0, stale_seq = 0;
      for (a = 0; a < j->nall[k]; a++) {
        ver_t *x = &j->all[k][a];
        int xp = !x->del;
        if (x->seq < j->best[k].seq && xp == gp && (!gp || x->vid == gvid)) {
          older_surviving = 1;
          stale_file = x->file;
          stale_seq = x->seq;
        }
      }
      snprintf(m, sizeof(m), "key #%d: point lookup returns %s v%d (surviving older version seq %llu, pre-repair file #%llu) but the newest surviving version is %s v%d (seq %llu, pre-repair file #%llu); the iterator returns the newest one",
               k, gp ? "value" : "not-found", gvid, (unsigned long long)stale_seq, (unsigned long long)stale_file,
               want_present ? "value" : "a tombstone", want_vid, (unsigned long long)j->best[k].seq, (unsigned long long)j->best[k].file);
      if (older_surviving && stale_file > j->best[k].file && !j->best[k].from_log) {
        /* the recorded shape (known finding F1): both versions live in repaired level-0
         * tables and the stale one's table carries the larger file number */
        n_known_shape++;
        jfail(j, "repair-get-serves-older-version-from-higher-numbered-table", m);
      } else if (older_surviving) {
        jfail(j, "repair-get-serves-older-surviving-version", m);
      } else {
        jfail(j, "repair-get-wrong", m);
      }
      break;
    }
  }
  if (j->ok) {
    /* new writes take precedence, survive a reopen, and no new file reuses an existing name */
    kop_t op;
    ldb_slice_t key = ldb_slice(kv_keys[0], kv_keylen[0]), val;
    memset(&op, 0, sizeof(op));
    op.kind = OP_PUT; op.n = 1; op.u[0].key = 0; op.u[0].sz = VS_SHORT;
    h.nops = 900;
    if (kh_apply(&h, &op) != LDB_OK) jfail(j, "repair-followup-failed", "put after repair failed");
    op.kind = OP_FLUSH;
    if (j->ok && kh_apply(&h, &op) != LDB_OK) jfail(j, "repair-followup-failed", "flush after repair failed");
    op.kind = OP_REOPEN;
    if (j->ok && kh_apply(&h, &op) != LDB_OK) jfail(j, "repair-followup-failed", "reopen after repair failed");
    if (j->ok) {
      rc = ldb_get(h.db, &key, &val, NULL);
      if (rc != LDB_OK || !kv_vcheck(val.data, val.size, kh_vid(900, 0), VS_SHORT))
        jfail(j, "repair-followup-lost", "a write made after repair does not take precedence / does not survive a reopen (sequence numbers did not continue above the data on disk)");
      if (rc == LDB_OK) ldb_free(val.data);
    }
    if (j->ok) {
      const vfs_t *v = vfs_cur;
      int a, b;
      for (a = pre_names; a < v->njournal && j->ok; a++) {
        const vjent_t *e = &v->journal[a];
        if (e->kind != J_CREATE && e->kind != J_REPLACE) continue;
        if (strstr(e->path, "LOCK") || strstr(e->path, ".dbtmp") || strstr(e->path, "/lost")) continue;
        if (e->kind == J_REPLACE && v->inodes[e->ino2]->len > 0) {
          if (getenv("VH_DEBUG_JOURNAL")) vfs_dump_journal(v, stderr, pre_names, v->njournal);
          snprintf(m, sizeof(m), "after repair the existing file %s was overwritten (file number reused)", e->path);
          jfail(j, "repair-file-number-reused", m);
        }
        /* a name that existed when repair started and is created again.  Not judged for the descriptor
         * (repair always installs MANIFEST-000001 after archiving the old ones) nor when repair ran twice
         * (what the first run moved to lost/ is no longer in the directory the second run numbers from) */
        for (b = 0; b < v->nbase && j->ok && cur_dv != DV_REPAIR_TWICE && !strstr(e->path, "MANIFEST-"); b++)
          if (strcmp(v->base[b].path, e->path) == 0 && e->kind == J_CREATE) {
            snprintf(m, sizeof(m), "after repair a new file reuses the existing name %s", e->path);
            jfail(j, "repair-file-number-reused", m);
          }
      }
    }
  }
  kh_clear(&h);
}

static int stop_now;
static uint64_t case_counter;

static void
report(const hist_t *h, int dv, const job_t *j) {
  vh_buf_t hb, rp, dt;
  char cfgtxt[300];
  vb_init(&hb); vb_init(&rp); vb_init(&dt);
  khist_print(h->ops, h->n, &hb);
  kcfg_print(&cfg, cfgtxt, sizeof(cfgtxt));
  vb_printf(&rp, "{\"history\":\"%s\",\"cfg\":\"%s\",\"damage\":%d}", hb.p ? hb.p : "", cfgtxt, dv);
  vb_printf(&dt, "history [%s] cfg %s; damage: %s; %s", hb.p ? hb.p : "", cfgtxt, dvname[dv], j->err);
  drv_viol(j->sig, dt.p, rp.p);
  vb_free(&hb); vb_free(&rp); vb_free(&dt);
}

static void
explore_state(const hist_t *h, int only_dv) {
  build_t b;
  sch_cfg_t sc;
  vfs_t *v = vfs_new(), *tmpl;
  int dv;
  memset(&sc, 0, sizeof(sc));
  sc.hook_points = 1;
  sc.step_max = 4000000;
  b.h = h;
  vfs_use(v);
  if (sch_run(build_body, &b, &sc) != SCH_OK || !b.ok) {
    vfs_free(v);
    return;
  }
  tmpl = vfs_clone(v);
  vfs_free(v);
  if (drv.shard == 0) n_states++;
  for (dv = 0; dv < DV_COUNT && !stop_now; dv++) {
    vfs_t *w;
    job_t j;
    char e[300];
    if (only_dv >= 0 && dv != only_dv) continue;
    if (only_dv < 0 && !drv_mine(case_counter++)) continue;
    w = vfs_clone(tmpl);
    dam_file = 0; dam_seq_lo = dam_seq_hi = 0;
    if (!apply_damage(w, dv)) { vfs_free(w); continue; }
    cur_dv = dv;
    vfs_base_snapshot(w);
    memset(&j, 0, sizeof(j));
    {
      vh_buf_t hb; char cfgtxt[300];
      vb_init(&hb); khist_print(h->ops, h->n, &hb); kcfg_print(&cfg, cfgtxt, sizeof(cfgtxt));
      drv_case("{\"history\":\"%s\",\"cfg\":\"%s\",\"damage\":%d}", hb.p ? hb.p : "", cfgtxt, dv);
      vb_free(&hb);
    }
    j.dam_file = dam_file; j.dam_seq_lo = dam_seq_lo; j.dam_seq_hi = dam_seq_hi;
    /* a damaged table: the versions are read from the image before the damage; those of the damaged table are optional */
    if (!surviving(dam_file ? tmpl : w, j.best, j.all, j.nall, e, sizeof(e))) {
      vfs_free(w);
      continue; /* harness could not establish the expectation (never happens on intact tables) */
    }
    vfs_use(w);
    n_cases++;
    if (sch_run(repair_body, &j, &sc) != SCH_OK) {
      j.ok = 1;
      jfail(&j, "repair-hang", sch_describe_block());
    }
    drv_set("outcomes", vh_mix(j.outcome, (uint64_t)dv));
    if (!j.ok)
      report(h, dv, &j);
    vfs_free(w);
    if (drv_deadline_hit()) stop_now = 1;
  }
  vfs_free(tmpl);
}

static kop_t alpha[24];
static int nalpha;
static void add_op(const char *s) { if (!kop_parse(&alpha[nalpha], s, NULL)) vh_die("bad op"); nalpha++; }

static const char *scripted[] = {
  "P0.1 P2.1 F P0.1 F P0.1 F R1:-:-",          /* compaction output numbered above newer level-0 data */
  "P0.1 F P0.1 F P1.1 F P0.1 F",
  "P1.1 F D1 F P2.2",
  "P1.2 S P1.2 P1.2 F P1.2 F R0:-:-",
  "P0.2 P1.2 P2.2 P0.2 P1.2 P2.2 F P0.2 P1.2",
  "P0.1 F D0 F R0:-:- P0.1",
  "P0.1 P1.1 F P0.1 F R0:-:- R1:-:- P1.1 F D0",
  "P0.1 F P1.1 F X P1.1",                       /* tables carry the legacy name NNNNNN.sst, newer data in the log */
  NULL
};

static void
enumerate(int len, int from_scripted_depth) {
  int idx[MAXOPS], depth, i, s;
  hist_t h;
  /* BFS (all sequences) from the empty state and from every scripted prefix */
  for (s = -1; (s < 0 || scripted[s]) && !stop_now; s++) {
    hist_t base;
    int maxd = (s < 0) ? len : from_scripted_depth;
    memset(&base, 0, sizeof(base));
    if (s >= 0) {
      base.n = khist_parse(base.ops, MAXOPS, scripted[s]);
      if (base.n < 0) vh_die("bad scripted");
      explore_state(&base, -1);
    }
    for (depth = 1; depth <= maxd && !stop_now; depth++) {
      for (i = 0; i < depth; i++) idx[i] = 0;
      for (;;) {
        h = base;
        for (i = 0; i < depth; i++) h.ops[h.n++] = alpha[idx[i]];
        explore_state(&h, -1);
        if (stop_now) break;
        for (i = depth - 1; i >= 0; i--) {
          if (++idx[i] < nalpha) break;
          idx[i] = 0;
        }
        if (i < 0) break;
      }
    }
  }
}

int
main(int argc, char **argv) {
  const char *cfgs;
  char *copy, *save = NULL, *item;
  int len, sdepth;
  drv_init(argc, argv);
  kv_set_universe(1);
  scratch = malloc(kv_vlen(VS_1M));
  len = (int)drv_opt_long("len", 3);
  sdepth = (int)drv_opt_long("sdepth", 1);
  cfgs = drv_opt("cfgs", "B1");
  add_op("P0.1"); add_op("P1.1"); add_op("P0.2"); add_op("D0"); add_op("D1"); add_op("F"); add_op("R0:-:-"); add_op("R1:-:-");
  add_op("S"); add_op("s0");

  if (drv.replay) {
    char hb[1024] = "", cb[400] = "";
    const char *p = strstr(drv.replay, "\"history\":\"");
    hist_t h;
    int dv = 0;
    if (!p) vh_die("bad replay");
    sscanf(p + 11, "%1023[^\"]", hb);
    p = strstr(drv.replay, "\"cfg\":\"");
    if (p) sscanf(p + 7, "%399[^\"]", cb);
    p = strstr(drv.replay, "\"damage\":");
    if (p) dv = atoi(p + 9);
    if (!kcfg_parse(&cfg, cb[0] ? cb : "B1")) vh_die("bad cfg");
    memset(&h, 0, sizeof(h));
    h.n = khist_parse(h.ops, MAXOPS, hb);
    if (h.n < 0) vh_die("bad history");
    explore_state(&h, dv);
    if (!drv_nviol()) printf("REPLAY-OK\n");
    drv_result("\"evaluations\":1");
    return 0;
  }

  copy = strdup(cfgs);
  for (item = strtok_r(copy, ";", &save); item && !stop_now; item = strtok_r(NULL, ";", &save)) {
    if (!kcfg_parse(&cfg, item)) vh_die("bad cfg");
    drv_note("cfg %s: every history of length <= %d over %d ops from the empty database and of length <= %d from each of 8 scripted layouts x 13 damage variants", item, len, nalpha, sdepth);
    enumerate(len, sdepth);
  }
  free(copy);
  if (drv.shard == 0)
    drv_sample("{\"history\":\"P0.1 P2.1 F P0.1 F P0.1 F R1:-:-\",\"damage\":\"MANIFEST+CURRENT deleted\",\"then\":\"ldb_repair; ldb_open; get/iterate every key vs newest surviving version; put; flush; reopen\"}");
  {
    char r[400];
    snprintf(r, sizeof(r), "\"evaluations\":%llu,\"states\":%llu,\"transitions\":%llu,\"traces_validated_against_impl\":%llu,\"repairs\":%llu,\"known_shape_hits\":%llu,\"exhaustive\":%s",
             (unsigned long long)n_cases, (unsigned long long)n_states, (unsigned long long)n_cases, (unsigned long long)n_cases,
             (unsigned long long)n_repairs, (unsigned long long)n_known_shape, stop_now ? "false" : "true");
    drv_result(r);
  }
  return 0;
}
