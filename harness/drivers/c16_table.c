/* c16_table.c - C16 "Table files round-trip under every option and follow the
 * standard format": bounded exhaustive enumeration (E5).
 *
 * Sub-domains (global case index, shard i runs index % n == i):
 *   tbl   every non-empty subset (1023) of a 10-key universe of INTERNAL keys
 *         x 2 value patterns
 *         x 576 configurations {block_size 64|256|4096} x {restart 1|2|16} x
 *         {none|snappy} x {no filter|bloom 10|bloom 1|bloom 50} x {bytewise|
 *         reverse user comparator} x {mmap 0|1} x {block cache none|8 MiB}: built with
 *         ldb_tablegen_*, read with ldb_table_* (iteration both ways, seek to
 *         every key and gap, internal_get), and decoded from the file bytes
 *         by the independent reference reader (ref_table_read)
 *   raw   tables over USER keys (incl. the empty key), values 0..70 000 bytes: every subset of 6 keys
 *         x 5 value-size rotations x 48 configurations
 *   wit   20 000-entry witness tables (mmap 0|1 x none|snappy), every entry sought and looked up
 *   sep   shortest_separator / short_successor contract on all strings of
 *         length <= 3 over {00,01,61,FE,FF}: bytewise and internal-key wrapper
 *   snA/snP/snF  Snappy round trips on string universes, periodic patterns and
 *         fixed long buffers (lcdb-encode -> lcdb-decode, lcdb-encode ->
 *         reference decode, reference literal-encode -> lcdb-decode)
 */
#include "drv.h"
#include "ref.h"

#include "util/bloom.h"
#include "util/buffer.h"
#include "util/cache.h"
#include "util/comparator.h"
#include "util/env.h"
#include "util/options.h"
#include "util/slice.h"
#include "util/snappy.h"
#include "util/status.h"
#include "table/iterator.h"
#include "table/table.h"
#include "table/table_builder.h"
#include "dbformat.h"

#define TPATH "/vfs/T"
#define BLOOM_NAME "leveldb.BuiltinBloomFilter2" /* name of LevelDB's built-in bloom policy */
#define MAXSEQ ((1ull << 56) - 1)

/* see c15_log.c: page faults are very expensive on the verification machine */
const char *__asan_default_options(void);
const char *
__asan_default_options(void) {
  return "quarantine_size_mb=2:thread_local_quarantine_size_kb=64:allocator_release_to_os_interval_ms=-1:malloc_context_size=6";
}

typedef struct fail_s {
  char sig[64];
  char detail[700];
} fail_t;

#define FAIL(f, s, ...) do { snprintf((f)->sig, sizeof((f)->sig), "%s", s); \
  snprintf((f)->detail, sizeof((f)->detail), __VA_ARGS__); return 1; } while (0)

static uint64_t g_idx;
static uint64_t n_eval, n_tables, n_seeks, n_gets, n_gets_found, n_gets_nocb_filter, n_gets_nocb_nofilter, n_gets_other;
static uint64_t n_iter_steps, n_ref_entries, n_filter_probes, n_blocks, n_compressed_tables;
static uint64_t n_sep_pairs, n_sep_shortened, n_succ, n_snappy, n_snappy_bytes, n_witness;
static int stopped;

/* ------------------------------------------------------------------ */
/* independent key order                                              */
/* ------------------------------------------------------------------ */

static int
my_ucmp(int rev, const uint8_t *a, size_t an, const uint8_t *b, size_t bn) {
  size_t m = an < bn ? an : bn;
  int r = m ? memcmp(a, b, m) : 0;
  if (r == 0)
    r = (an > bn) - (an < bn);
  r = (r > 0) - (r < 0);
  return rev ? -r : r;
}

/* internal keys: user key ascending (per user comparator), then the 64-bit
 * trailer (sequence << 8 | type) DEscending */
static int
my_icmp(int rev, const uint8_t *a, size_t an, const uint8_t *b, size_t bn) {
  int r = my_ucmp(rev, a, an - 8, b, bn - 8);
  uint64_t ta, tb;
  if (r)
    return r;
  ta = ref_le64(a + an - 8);
  tb = ref_le64(b + bn - 8);
  return ta > tb ? -1 : (ta < tb ? 1 : 0);
}

static size_t
mk_ikey(uint8_t *dst, const void *u, size_t ulen, uint64_t seq, int type) {
  if (ulen)
    memcpy(dst, u, ulen);
  ref_put_le64(dst + ulen, (seq << 8) | (uint64_t)type);
  return ulen + 8;
}

/* reverse-bytewise user comparator handed to lcdb (no separator/successor) */
static int
rev_compare(const ldb_comparator_t *c, const ldb_slice_t *x, const ldb_slice_t *y) {
  (void)c;
  return my_ucmp(1, x->data, x->size, y->data, y->size);
}

static ldb_comparator_t rev_user_cmp = {"verif.ReverseBytewiseComparator", rev_compare, NULL, NULL, NULL, NULL};
static ldb_comparator_t ikc[2]; /* internal-key comparators over bytewise / reverse */
static const int bloom_bits[4] = {0, 10, 1, 50}; /* filter option -> bits per key (50 -> k clipped to 30) */
static ldb_bloom_t *blooms[4];
static ldb_bloom_t ifps[4];     /* internal filter policy wrappers (strip the 8-byte trailer) */
static ldb_lru_t *the_cache;

/* ------------------------------------------------------------------ */
/* universe                                                           */
/* ------------------------------------------------------------------ */

#define NU 10
static uint8_t uk[NU][64];
static size_t ukn[NU];
static int order[2][NU]; /* universe indices sorted per comparator */

#define MAXT 64
static uint8_t tg[MAXT][64];
static size_t tgn[MAXT];
static int ntg;

static uint8_t val_comp[NU][300], val_rand[NU][300], val_one[NU][1];

static void
add_target(const void *u, size_t ulen, uint64_t seq, int type) {
  if (ntg == MAXT)
    vh_die("too many targets");
  tgn[ntg] = mk_ikey(tg[ntg], u, ulen, seq, type);
  ntg++;
}

static void
build_universe(void) {
  static const char longk[] = "abdxxxxxxxxxxxxxxxxxxxxxxxxxxxxxx"; /* 33 bytes */
  struct { const char *u; size_t n; uint64_t seq; int type; } U[NU] = {
      {"", 0, 7, 1},        {"a", 1, 9, 1},        {"a", 1, 5, 1},           {"a", 1, 5, 0},
      {"ab", 2, 4, 1},      {"abc", 3, 2, 0},      {longk, 33, 1, 1},        {"\xff", 1, 6, 1},
      {"\xff\xff", 2, 8, 1}, {"\xff\xff\xff\xff", 4, 3, 1}};
  static const char *absent[] = {"0", "aa", "abcd", "b", "\xfe", "\xff\x00", "\xff\xff\xff"};
  static const size_t absent_n[] = {1, 2, 4, 1, 1, 2, 3};
  int i, j, c;
  uint32_t x = 777;
  for (i = 0; i < NU; i++) {
    ukn[i] = mk_ikey(uk[i], U[i].u, U[i].n, U[i].seq, U[i].type);
    add_target(U[i].u, U[i].n, U[i].seq, U[i].type);
    for (j = 0; j < 300; j++) {
      x = x * 1103515245u + 12345u;
      val_rand[i][j] = (uint8_t)(x >> 16);
      val_comp[i][j] = (uint8_t)('a' + ((j / 10 + i) % 3));
    }
    val_one[i][0] = (uint8_t)('A' + i);
  }
  /* gaps: before and after every present user key, between its versions, absent user keys */
  for (i = 0; i < NU; i++) {
    if (i && U[i].n == U[i - 1].n && memcmp(U[i].u, U[i - 1].u, U[i].n) == 0)
      continue;
    add_target(U[i].u, U[i].n, MAXSEQ, 1);
    add_target(U[i].u, U[i].n, 0, 0);
  }
  add_target("a", 1, 6, 1);
  add_target("a", 1, 4, 1);
  for (i = 0; i < 7; i++) {
    add_target(absent[i], absent_n[i], MAXSEQ, 1);
    add_target(absent[i], absent_n[i], 5, 1);
  }
  for (c = 0; c < 2; c++) {
    for (i = 0; i < NU; i++)
      order[c][i] = i;
    for (i = 1; i < NU; i++)
      for (j = i; j > 0 && my_icmp(c, uk[order[c][j - 1]], ukn[order[c][j - 1]], uk[order[c][j]], ukn[order[c][j]]) > 0; j--) {
        int t = order[c][j];
        order[c][j] = order[c][j - 1];
        order[c][j - 1] = t;
      }
    for (i = 1; i < NU; i++)
      if (my_icmp(c, uk[order[c][i - 1]], ukn[order[c][i - 1]], uk[order[c][i]], ukn[order[c][i]]) >= 0)
        vh_die("universe keys not distinct");
  }
}

typedef struct ent_s {
  const uint8_t *k, *v;
  size_t kn, vn;
} ent_t;

/* mask bits 0..9 = entry set; bit 10 = value pattern: 0 = mixed kinds chosen by
 * (key, set), 1 = every value 300 bytes (compressible / incompressible
 * alternating) so that the larger sets spread over more than one 2 KiB filter
 * range */
static int
value_kind(int i, unsigned mask) {
  if (mask & 1024u)
    return 2 + (i & 1);
  return (int)(((unsigned)i + (mask >> 2) + mask) & 3u);
}

static int
make_entries(int cmp, unsigned mask, ent_t *E) {
  int j, n = 0;
  for (j = 0; j < NU; j++) {
    int i = order[cmp][j];
    if (!((mask >> i) & 1u))
      continue;
    E[n].k = uk[i];
    E[n].kn = ukn[i];
    switch (value_kind(i, mask)) {
      case 0: E[n].v = val_one[i]; E[n].vn = 0; break;
      case 1: E[n].v = val_one[i]; E[n].vn = 1; break;
      case 2: E[n].v = val_comp[i]; E[n].vn = 300; break;
      default: E[n].v = val_rand[i]; E[n].vn = 300; break;
    }
    n++;
  }
  return n;
}

/* ------------------------------------------------------------------ */
/* configuration grid                                                 */
/* ------------------------------------------------------------------ */

typedef struct cfg_s {
  int bs, ri, snappy, filter, cmp, mm, cache;
} cfg_t;

#define NCFG 576

static void
decode_cfg(int c, cfg_t *g) {
  static const int bss[3] = {64, 256, 4096}, ris[3] = {1, 2, 16};
  g->bs = bss[c % 3]; c /= 3;
  g->ri = ris[c % 3]; c /= 3;
  g->snappy = c % 2; c /= 2;
  g->filter = c % 4; c /= 4;
  g->cmp = c % 2; c /= 2;
  g->mm = c % 2; c /= 2;
  g->cache = c % 2;
}

static void
cfg_text(const cfg_t *g, char *buf, size_t n) {
  char fb[24];
  snprintf(fb, sizeof(fb), "bloom%d", bloom_bits[g->filter]);
  snprintf(buf, n, "block_size=%d restart=%d compression=%s filter=%s comparator=%s mmap=%d cache=%s", g->bs, g->ri,
           g->snappy ? "snappy" : "none", g->filter ? fb : "none", g->cmp ? "reverse" : "bytewise", g->mm,
           g->cache ? "8MiB" : "none");
}

static void
fill_options(const cfg_t *g, ldb_dbopt_t *opt) {
  *opt = *ldb_dbopt_default;
  opt->comparator = &ikc[g->cmp];
  opt->block_size = (size_t)g->bs;
  opt->block_restart_interval = g->ri;
  opt->compression = g->snappy ? LDB_SNAPPY_COMPRESSION : LDB_NO_COMPRESSION;
  opt->filter_policy = g->filter ? &ifps[g->filter] : NULL;
  opt->use_mmap = g->mm;
  opt->block_cache = g->cache ? the_cache : NULL;
  opt->paranoid_checks = 1;
}

/* ------------------------------------------------------------------ */
/* VFS recycling                                                      */
/* ------------------------------------------------------------------ */

static vfs_t *tv;
static int tv_uses;

static void
tv_get(void) {
  if (tv && tv_uses < 200) {
    tv_uses++;
    vfs_use(tv);
    return;
  }
  if (tv)
    vfs_free(tv);
  tv = vfs_new();
  vfs_use(tv);
  tv_uses = 1;
}

/* ------------------------------------------------------------------ */
/* one table                                                          */
/* ------------------------------------------------------------------ */

typedef struct getctx_s {
  int calls;
  uint8_t key[80];
  size_t kn;
  uint8_t val[320];
  size_t vn;
  int overflow;
} getctx_t;

static void
get_cb(void *arg, const ldb_slice_t *k, const ldb_slice_t *v) {
  getctx_t *c = arg;
  c->calls++;
  if (k->size > sizeof(c->key) || v->size > sizeof(c->val)) {
    c->overflow = 1;
    return;
  }
  c->kn = k->size;
  c->vn = v->size;
  if (k->size)
    memcpy(c->key, k->data, k->size);
  if (v->size)
    memcpy(c->val, v->data, v->size);
}

static int
same(const uint8_t *a, size_t an, const uint8_t *b, size_t bn) {
  return an == bn && (an == 0 || memcmp(a, b, an) == 0);
}

/* iterator must sit on E[j] (or be invalid when j is out of range) */
static int
at_pos(ldb_iter_t *it, const ent_t *E, int n, int j) {
  ldb_slice_t k, v;
  if (j < 0 || j >= n)
    return !ldb_iter_valid(it);
  if (!ldb_iter_valid(it))
    return 0;
  k = ldb_iter_key(it);
  v = ldb_iter_value(it);
  return same(k.data, k.size, E[j].k, E[j].kn) && same(v.data, v.size, E[j].v, E[j].vn);
}

static void
hexkey(const uint8_t *k, size_t n, char *buf, size_t bn) {
  size_t i, p = 0;
  for (i = 0; i < n && p + 4 < bn; i++) {
    if (i + 8 == n && p + 2 < bn)
      buf[p++] = '|';
    if (k[i] >= 0x21 && k[i] < 0x7f && k[i] != '"' && k[i] != '\\' && i + 8 < n)
      buf[p++] = (char)k[i];
    else
      p += (size_t)snprintf(buf + p, bn - p, "%02x", k[i]);
  }
  buf[p < bn ? p : bn - 1] = 0;
}

static ref_table_t rt;
static int rt_ready;

static int
run_table(int cfgi, unsigned mask, fail_t *f, uint64_t *layout) {
  cfg_t g;
  ldb_dbopt_t opt;
  ldb_readopt_t ropt = *ldb_readopt_default;
  ent_t E[NU];
  int n, i, j, t, rc, rc2;
  ldb_wfile_t *wf = NULL;
  ldb_tablegen_t *tb;
  ldb_rfile_t *rf = NULL;
  ldb_table_t *tbl = NULL;
  ldb_iter_t *it;
  const vinode_t *node;
  uint64_t size, nent;
  char ct[200], hk[200];
  int bad = 0;

  decode_cfg(cfgi, &g);
  cfg_text(&g, ct, sizeof(ct));
  fill_options(&g, &opt);
  ropt.verify_checksums = 1;
  ropt.fill_cache = 1;
  n = make_entries(g.cmp, mask, E);
  if (!rt_ready) {
    ref_table_init(&rt);
    rt_ready = 1;
  }

  /* build */
  tv_get();
  rc = ldb_truncfile_create(TPATH, &wf);
  if (rc != LDB_OK)
    vh_die("create table file: %d", rc);
  tb = ldb_tablegen_create(&opt, wf);
  for (i = 0; i < n; i++) {
    ldb_slice_t k = ldb_slice(E[i].k, E[i].kn), v = ldb_slice(E[i].v, E[i].vn);
    ldb_tablegen_add(tb, &k, &v);
  }
  rc = ldb_tablegen_finish(tb);
  size = ldb_tablegen_size(tb);
  nent = ldb_tablegen_entries(tb);
  ldb_tablegen_destroy(tb);
  rc2 = ldb_wfile_close(wf);
  ldb_wfile_destroy(wf);
  if (rc != LDB_OK || rc2 != LDB_OK)
    FAIL(f, "build_status", "%s mask=0x%03x: finish=%d close=%d", ct, mask, rc, rc2);
  node = vfs_inode(tv, vfs_lookup(tv, TPATH));
  if (!node)
    vh_die("table file vanished");
  if (node->len != size || nent != (uint64_t)n)
    FAIL(f, "build_size", "%s mask=0x%03x: builder reports %llu bytes / %llu entries, file has %zu bytes, %d entries added",
         ct, mask, (unsigned long long)size, (unsigned long long)nent, node->len, n);

  /* independent decode of the bytes */
  if (ref_table_read(node->data, node->len, g.filter ? BLOOM_NAME : NULL, 8, g.ri, &rt) != 0)
    FAIL(f, "ref_format", "%s mask=0x%03x: reference table reader rejects the file: %s", ct, mask, rt.err);
  if (rt.n != (size_t)n)
    FAIL(f, "ref_entries", "%s mask=0x%03x: reference reader decoded %zu entries, %d were added", ct, mask, rt.n, n);
  for (i = 0; i < n; i++)
    if (!same(rt.pool.p + rt.e[i].koff, rt.e[i].klen, E[i].k, E[i].kn) ||
        !same(rt.pool.p + rt.e[i].voff, rt.e[i].vlen, E[i].v, E[i].vn)) {
      hexkey(E[i].k, E[i].kn, hk, sizeof(hk));
      FAIL(f, "ref_entries", "%s mask=0x%03x: entry %d decoded by the reference reader differs from what was added (key %s)",
           ct, mask, i, hk);
    }
  if (!g.filter && (rt.has_filter || rt.metaindex_entries != 0))
    FAIL(f, "ref_format", "%s mask=0x%03x: no filter policy but metaindex has %zu entries", ct, mask, rt.metaindex_entries);
  if (!g.snappy && rt.any_compressed)
    FAIL(f, "ref_format", "%s mask=0x%03x: compression disabled but a block is stored compressed", ct, mask);
  for (j = 0; j < (int)rt.nblk; j++) {
    const ref_blockinfo_t *b = &rt.blk[j];
    const ref_entry_t *last = &rt.e[b->first + b->count - 1];
    if (b->iklen < 8 || my_icmp(g.cmp, rt.pool.p + last->koff, last->klen, rt.pool.p + b->ikoff, b->iklen) > 0)
      FAIL(f, "ref_index_key", "%s mask=0x%03x: index key of block %d is smaller than the block's last key", ct, mask, j);
    if (j + 1 < (int)rt.nblk) {
      const ref_entry_t *nx = &rt.e[rt.blk[j + 1].first];
      if (my_icmp(g.cmp, rt.pool.p + b->ikoff, b->iklen, rt.pool.p + nx->koff, nx->klen) >= 0)
        FAIL(f, "ref_index_key", "%s mask=0x%03x: index key of block %d is not smaller than the next block's first key", ct,
             mask, j);
    }
  }
  n_ref_entries += rt.n;
  n_filter_probes += rt.filter_probes;
  n_blocks += rt.nblk;
  n_compressed_tables += (uint64_t)rt.any_compressed;
  if (layout)
    *layout = vh_mix(vh_mix(rt.nblk, (uint64_t)rt.has_filter * 2 + (uint64_t)rt.any_compressed), rt.nfilters);

  /* lcdb reader */
  rc = ldb_randfile_create(TPATH, &rf, g.mm);
  if (rc != LDB_OK)
    vh_die("open table file: %d", rc);
  rc = ldb_table_open(&opt, rf, size, &tbl);
  if (rc != LDB_OK) {
    ldb_rfile_destroy(rf);
    FAIL(f, "open_status", "%s mask=0x%03x: ldb_table_open returned %d", ct, mask, rc);
  }
  it = ldb_tableiter_create(tbl, &ropt);
#define TFAIL(s, ...) do { snprintf(f->sig, sizeof(f->sig), "%s", s); snprintf(f->detail, sizeof(f->detail), __VA_ARGS__); \
  bad = 1; goto done; } while (0)
  if (ldb_iter_valid(it))
    TFAIL("iter_initially_valid", "%s mask=0x%03x: fresh table iterator is valid", ct, mask);
  /* forward */
  ldb_iter_first(it);
  for (i = 0; i <= n; i++) {
    if (!at_pos(it, E, n, i))
      TFAIL("iter_forward", "%s mask=0x%03x: forward iteration wrong at position %d of %d", ct, mask, i, n);
    if (i < n)
      ldb_iter_next(it);
    n_iter_steps++;
  }
  /* backward */
  ldb_iter_last(it);
  for (i = n - 1; i >= -1; i--) {
    if (!at_pos(it, E, n, i))
      TFAIL("iter_backward", "%s mask=0x%03x: backward iteration wrong at position %d of %d", ct, mask, i, n);
    if (i >= 0)
      ldb_iter_prev(it);
    n_iter_steps++;
  }
  /* seeks and lookups */
  for (t = 0; t < ntg; t++) {
    ldb_slice_t ts = ldb_slice(tg[t], tgn[t]);
    getctx_t gc;
    int lb = 0;
    while (lb < n && my_icmp(g.cmp, E[lb].k, E[lb].kn, tg[t], tgn[t]) < 0)
      lb++;
    hexkey(tg[t], tgn[t], hk, sizeof(hk));
    ldb_iter_seek(it, &ts);
    n_seeks++;
    if (!at_pos(it, E, n, lb))
      TFAIL("seek", "%s mask=0x%03x: seek(%s) did not land on entry %d of %d (first entry at or after the target)", ct, mask,
            hk, lb, n);
    if (lb < n) {
      ldb_iter_next(it);
      if (!at_pos(it, E, n, lb + 1))
        TFAIL("seek_next", "%s mask=0x%03x: next after seek(%s) is not entry %d", ct, mask, hk, lb + 1);
      ldb_iter_seek(it, &ts);
      ldb_iter_prev(it);
      if (!at_pos(it, E, n, lb - 1))
        TFAIL("seek_prev", "%s mask=0x%03x: prev after seek(%s) is not entry %d", ct, mask, hk, lb - 1);
      n_iter_steps += 2;
    }
    /* internal_get: the entry the lookup must report is E[lb]; it MUST be
     * reported when its user key equals the target's (a present key is
     * found, the filter may not reject it); otherwise the lookup may report
     * nothing (filter / end of block) but never anything else */
    memset(&gc, 0, sizeof(gc));
    rc = ldb_table_internal_get(tbl, &ropt, &ts, &gc, get_cb);
    n_gets++;
    if (rc != LDB_OK)
      TFAIL("get_status", "%s mask=0x%03x: internal_get(%s) returned %d", ct, mask, hk, rc);
    if (gc.calls > 1 || gc.overflow)
      TFAIL("get_callback", "%s mask=0x%03x: internal_get(%s) called back %d times", ct, mask, hk, gc.calls);
    if (gc.calls == 1) {
      if (lb >= n || !same(gc.key, gc.kn, E[lb].k, E[lb].kn) || !same(gc.val, gc.vn, E[lb].v, E[lb].vn)) {
        char hk2[200];
        hexkey(gc.key, gc.kn, hk2, sizeof(hk2));
        TFAIL("get_wrong_entry", "%s mask=0x%03x: internal_get(%s) reported key %s (%zu-byte value), expected %s", ct, mask,
              hk, hk2, gc.vn, lb < n ? "the first entry at or after the target" : "nothing");
      }
    }
    if (lb < n && my_ucmp(0, E[lb].k, E[lb].kn - 8, tg[t], tgn[t] - 8) == 0) {
      if (gc.calls != 1)
        TFAIL("get_missed_present_key", "%s mask=0x%03x: internal_get(%s) reported nothing although entry %d has that user key",
              ct, mask, hk, lb);
      n_gets_found++;
    } else if (gc.calls == 0) {
      if (g.filter)
        n_gets_nocb_filter++;
      else
        n_gets_nocb_nofilter++;
    } else {
      n_gets_other++;
    }
  }
  if (ldb_iter_status(it) != LDB_OK)
    TFAIL("iter_status", "%s mask=0x%03x: iterator status %d", ct, mask, ldb_iter_status(it));
done:
  ldb_iter_destroy(it);
  ldb_table_destroy(tbl);
  ldb_rfile_destroy(rf);
  return bad;
}

static void hexs(const uint8_t *p, size_t n, char *buf, size_t bn);
static int n_tsamples;

static void
table_domain(void) {
  int c;
  unsigned mask;
  for (c = 0; c < NCFG && !stopped; c++) {
    for (mask = 1; mask < 2048; mask++) {
      uint64_t idx, layout = 0;
      fail_t f, f2;
      char js[120];
      if ((mask & 1023u) == 0)
        continue;
      if (!drv.thorough) {
        /* quick: every entry set for the configurations without filter / with bloom 10 and no block cache;
         * for bloom 1, bloom 50 or with a block cache the sets of size <= 2 or >= 8 plus every 7th other set */
        int pc = __builtin_popcount(mask & 1023u);
        cfg_t g;
        decode_cfg(c, &g);
        if ((g.filter >= 2 || g.cache) && !(pc <= 2 || pc >= 8 || (mask + (unsigned)c) % 7 == 0))
          continue;
        if ((mask & 1024u) && !(pc <= 1 || pc >= 8))
          continue; /* all-large value pattern: only the smallest and the largest sets */
      }
      idx = g_idx++;
      if (!drv_mine(idx))
        continue;
      snprintf(js, sizeof(js), "{\"k\":\"tbl\",\"cfg\":%d,\"mask\":%u}", c, mask);
      drv_case("%s", js);
      n_eval++;
      n_tables++;
      if (run_table(c, mask, &f, &layout)) {
        if (!run_table(c, mask, &f2, NULL))
          vh_die("violation did not reproduce: %s", js);
        drv_viol(f.sig, f.detail, js);
      }
      drv_set("table_layouts", layout);
      if (n_tsamples < 3 && __builtin_popcount(mask & 1023u) >= 6 && (idx % 5) == 0 && c > 20) {
        char sj[500], ct[200];
        cfg_t g;
        n_tsamples++;
        decode_cfg(c, &g);
        cfg_text(&g, ct, sizeof(ct));
        snprintf(sj, sizeof(sj),
                 "{\"case\":%s,\"config\":\"%s\",\"entries\":%zu,\"data_blocks\":%zu,\"filter_block\":%d,\"snappy_blocks\":%d,"
                 "\"seek_targets\":%d}",
                 js, ct, rt.n, rt.nblk, rt.has_filter, rt.any_compressed, ntg);
        drv_sample(sj);
      }
      if ((n_tables & 255) == 0 && drv_deadline_hit()) {
        stopped = 1;
        break;
      }
    }
  }
}

/* ------------------------------------------------------------------ */
/* raw-key tables: the table layer used directly with USER keys        */
/* (bytewise comparator, filter policy over the whole key), including  */
/* the empty key, and values from 0 bytes to 70 000 bytes so that one  */
/* entry can span many 2 KiB filter ranges                             */
/* ------------------------------------------------------------------ */

#define RNU 6
#define RNV 5
#define RNCFG 48
static const struct { const char *k; size_t n; } RK[RNU] = {
    {"", 0}, {"\x00", 1}, {"a", 1}, {"abdxxxxxxxxxxxxxxxxxxxxxxxxxxxxxxy", 34},
    {"a\xff\xff\xff\xff\xff\xff\xff\xff\xff", 10}, {"\xff\xff", 2}};   /* in bytewise order (checked in raw_init) */
static const struct { const char *k; size_t n; } RABS[5] = {{"\x00\x00", 2}, {"0", 1}, {"a\xff", 2}, {"b", 1}, {"\xff\xff\xff", 3}};
static const size_t rvsize[RNV] = {0, 10, 300, 3000, 70000};
static uint8_t *rval[RNU];
static uint64_t n_raw_tables, n_raw_gets, n_raw_big_single_blocks;

typedef struct rawget_s { const ent_t *want; int calls, right; } rawget_t;

/* foreign filter policies: [0] "a.verif.RejectAll" and [1] "zz.verif.RejectAll" (names sorting before / after the
 * built-in bloom's) say "absent" to everything - harmless as long as they are only shown filters they built
 * themselves, because their build() records the keys' count only and a table whose filter they built is never
 * read through them here; [2] "m.verif.OneByte" writes a one-byte filter per range and accepts everything */
static uint64_t n_foreign_policy_gets, n_explicit_flushes;
static void fp_build(const ldb_bloom_t *b, ldb_buffer_t *dst, const ldb_slice_t *keys, size_t length) {
  (void)b; (void)keys;
  ldb_buffer_push(dst, (int)(length & 0x7f));
}
static int fp_reject(const ldb_bloom_t *b, const ldb_slice_t *filter, const ldb_slice_t *key) { (void)b; (void)filter; (void)key; return 0; }
static int fp_accept(const ldb_bloom_t *b, const ldb_slice_t *filter, const ldb_slice_t *key) { (void)b; (void)filter; (void)key; return 1; }
static ldb_bloom_t foreign_pol[3] = {
  {"a.verif.RejectAll", fp_build, fp_reject, 0, 0, NULL, NULL},
  {"zz.verif.RejectAll", fp_build, fp_reject, 0, 0, NULL, NULL},
  {"m.verif.OneByte", fp_build, fp_accept, 0, 0, NULL, NULL},
};

static void
rawget_cb(void *arg, const ldb_slice_t *k, const ldb_slice_t *v) {
  rawget_t *c = arg;
  c->calls++;
  if (c->want && same(k->data, k->size, c->want->k, c->want->kn) && same(v->data, v->size, c->want->v, c->want->vn))
    c->right = 1;
}

static void
raw_cfg(int c, cfg_t *g) {
  static const int bss[3] = {64, 1024, 4096}, ris[2] = {1, 16};
  memset(g, 0, sizeof(*g));
  g->bs = bss[c % 3]; c /= 3;
  g->ri = ris[c % 2]; c /= 2;
  g->snappy = c % 2; c /= 2;
  g->filter = c % 2; c /= 2;   /* 0 = none, 1 = bloom 10 over the whole key */
  g->mm = c % 2;
}

static int
run_raw(int cfgi, unsigned mask, int pat, fail_t *f) {
  cfg_t g;
  ldb_dbopt_t opt;
  ldb_readopt_t ropt = *ldb_readopt_default;
  ent_t E[RNU];
  int n = 0, i, t, rc, rc2, bad = 0;
  ldb_wfile_t *wf = NULL;
  ldb_tablegen_t *tb;
  ldb_rfile_t *rf = NULL;
  ldb_table_t *tbl = NULL;
  ldb_iter_t *it;
  const vinode_t *node;
  uint64_t size;
  char ct[200], hk[100];

  raw_cfg(cfgi, &g);
  cfg_text(&g, ct, sizeof(ct));
  opt = *ldb_dbopt_default;
  opt.comparator = ldb_bytewise_comparator;
  opt.block_size = (size_t)g.bs;
  opt.block_restart_interval = g.ri;
  opt.compression = g.snappy ? LDB_SNAPPY_COMPRESSION : LDB_NO_COMPRESSION;
  opt.filter_policy = g.filter ? blooms[1] : NULL;
  opt.use_mmap = g.mm;
  opt.block_cache = NULL;
  opt.paranoid_checks = 1;
  ropt.verify_checksums = 1;
  for (i = 0; i < RNU; i++) {       /* RK is in bytewise order */
    if (!((mask >> i) & 1u))
      continue;
    E[n].k = (const uint8_t *)RK[i].k;
    E[n].kn = RK[i].n;
    E[n].v = rval[i];
    E[n].vn = rvsize[(i + pat) % RNV];
    n++;
  }
  if (!rt_ready) {
    ref_table_init(&rt);
    rt_ready = 1;
  }
  tv_get();
  rc = ldb_truncfile_create(TPATH, &wf);
  if (rc != LDB_OK)
    vh_die("create table file: %d", rc);
  tb = ldb_tablegen_create(&opt, wf);
  for (i = 0; i < n; i++) {
    ldb_slice_t k = ldb_slice(E[i].k, E[i].kn), v = ldb_slice(E[i].v, E[i].vn);
    ldb_tablegen_add(tb, &k, &v);
    /* hand-placed block boundaries (the builder's "advanced" flush call): pattern 1 = after every entry,
       pattern 2 = after the first entry only, patterns 0, 3, 4 = none */
    if (pat == 1 || (pat == 2 && i == 0)) {
      ldb_tablegen_flush(tb);
      n_explicit_flushes++;
    }
  }
  rc = ldb_tablegen_finish(tb);
  size = ldb_tablegen_size(tb);
  ldb_tablegen_destroy(tb);
  rc2 = ldb_wfile_close(wf);
  ldb_wfile_destroy(wf);
  if (rc != LDB_OK || rc2 != LDB_OK)
    FAIL(f, "build_status", "raw keys, %s mask=0x%02x pat=%d: finish=%d close=%d", ct, mask, pat, rc, rc2);
  node = vfs_inode(tv, vfs_lookup(tv, TPATH));
  if (!node)
    vh_die("table file vanished");
  if (node->len != size)
    FAIL(f, "build_size", "raw keys, %s mask=0x%02x pat=%d: builder reports %llu bytes, file has %zu", ct, mask, pat,
         (unsigned long long)size, node->len);
  /* independent decode incl. the filter probe of every present key against its block's filter */
  if (ref_table_read(node->data, node->len, g.filter ? BLOOM_NAME : NULL, 0, g.ri, &rt) != 0)
    FAIL(f, "ref_format", "raw keys, %s mask=0x%02x pat=%d: reference table reader rejects the file: %s", ct, mask, pat, rt.err);
  if (rt.n != (size_t)n)
    FAIL(f, "ref_entries", "raw keys, %s mask=0x%02x pat=%d: reference reader decoded %zu entries, %d were added", ct, mask, pat, rt.n, n);
  for (i = 0; i < n; i++)
    if (!same(rt.pool.p + rt.e[i].koff, rt.e[i].klen, E[i].k, E[i].kn) ||
        !same(rt.pool.p + rt.e[i].voff, rt.e[i].vlen, E[i].v, E[i].vn))
      FAIL(f, "ref_entries", "raw keys, %s mask=0x%02x pat=%d: entry %d decoded by the reference reader differs from what was added", ct, mask, pat, i);
  for (i = 0; i < (int)rt.nblk; i++)
    if (rt.blk[i].count == 1 && rt.e[rt.blk[i].first].vlen >= 2048)
      n_raw_big_single_blocks++;
  n_ref_entries += rt.n;
  n_filter_probes += rt.filter_probes;
  n_blocks += rt.nblk;

  rc = ldb_randfile_create(TPATH, &rf, g.mm);
  if (rc != LDB_OK)
    vh_die("open table file: %d", rc);
  rc = ldb_table_open(&opt, rf, size, &tbl);
  if (rc != LDB_OK) {
    ldb_rfile_destroy(rf);
    FAIL(f, "open_status", "raw keys, %s mask=0x%02x pat=%d: ldb_table_open returned %d", ct, mask, pat, rc);
  }
  it = ldb_tableiter_create(tbl, &ropt);
  ldb_iter_first(it);
  for (i = 0; i <= n; i++) {
    if (!at_pos(it, E, n, i))
      TFAIL("iter_forward", "raw keys, %s mask=0x%02x pat=%d: forward iteration wrong at position %d of %d", ct, mask, pat, i, n);
    if (i < n)
      ldb_iter_next(it);
    n_iter_steps++;
  }
  ldb_iter_last(it);
  for (i = n - 1; i >= -1; i--) {
    if (!at_pos(it, E, n, i))
      TFAIL("iter_backward", "raw keys, %s mask=0x%02x pat=%d: backward iteration wrong at position %d of %d", ct, mask, pat, i, n);
    if (i >= 0)
      ldb_iter_prev(it);
    n_iter_steps++;
  }
  for (t = 0; t < RNU + 5; t++) {
    const uint8_t *tk = (const uint8_t *)(t < RNU ? RK[t].k : RABS[t - RNU].k);
    size_t tn = t < RNU ? RK[t].n : RABS[t - RNU].n;
    ldb_slice_t ts = ldb_slice(tk, tn);
    rawget_t gc;
    int lb = 0, present;
    while (lb < n && my_ucmp(0, E[lb].k, E[lb].kn, tk, tn) < 0)
      lb++;
    present = lb < n && same(E[lb].k, E[lb].kn, tk, tn);
    hexs(tk, tn, hk, sizeof(hk));
    ldb_iter_seek(it, &ts);
    n_seeks++;
    if (!at_pos(it, E, n, lb))
      TFAIL("seek", "raw keys, %s mask=0x%02x pat=%d: seek(%s) did not land on entry %d of %d", ct, mask, pat, hk, lb, n);
    memset(&gc, 0, sizeof(gc));
    gc.want = lb < n ? &E[lb] : NULL;
    rc = ldb_table_internal_get(tbl, &ropt, &ts, &gc, rawget_cb);
    n_gets++;
    n_raw_gets++;
    if (rc != LDB_OK)
      TFAIL("get_status", "raw keys, %s mask=0x%02x pat=%d: internal_get(%s) returned %d", ct, mask, pat, hk, rc);
    if (gc.calls > 1 || (gc.calls == 1 && !gc.right))
      TFAIL("get_wrong_entry", "raw keys, %s mask=0x%02x pat=%d: internal_get(%s) reported %s", ct, mask, pat, hk,
            gc.calls > 1 ? "more than one entry" : "an entry other than the first one at or after the target");
    if (present && gc.calls != 1)
      TFAIL("get_missed_present_key", "raw keys, %s mask=0x%02x pat=%d: internal_get(%s) reported nothing although the key is present (entry %d, %zu-byte value)",
            ct, mask, pat, hk, lb, E[lb].vn);
    if (present)
      n_gets_found++;
  }
  if (ldb_iter_status(it) != LDB_OK)
    TFAIL("iter_status", "raw keys, %s mask=0x%02x pat=%d: iterator status %d", ct, mask, pat, ldb_iter_status(it));
  /* reader policy != writer policy (a filter policy may change between runs; a filter written under another
     name must be ignored, never interpreted by the wrong policy): every present key is still found */
  {
    int w;
    for (w = 0; w < 2 && !bad; w++) {
      /* w = 0: the file built above; w = 1 (pattern 0 only): the same entries built with a foreign policy */
      const ldb_bloom_t *readers[4];
      int nr = 0, r;
      if (w == 1) {
        if (pat != 0) break;
        opt.filter_policy = &foreign_pol[2];
        tv_get();
        rc = ldb_truncfile_create(TPATH, &wf);
        if (rc != LDB_OK) vh_die("create table file: %d", rc);
        tb = ldb_tablegen_create(&opt, wf);
        for (i = 0; i < n; i++) {
          ldb_slice_t k = ldb_slice(E[i].k, E[i].kn), v = ldb_slice(E[i].v, E[i].vn);
          ldb_tablegen_add(tb, &k, &v);
        }
        rc = ldb_tablegen_finish(tb);
        size = ldb_tablegen_size(tb);
        ldb_tablegen_destroy(tb);
        rc2 = ldb_wfile_close(wf);
        ldb_wfile_destroy(wf);
        if (rc != LDB_OK || rc2 != LDB_OK)
          TFAIL("build_status", "raw keys, %s mask=0x%02x pat=%d, foreign writer policy: finish=%d close=%d", ct, mask, pat, rc, rc2);
        readers[nr++] = blooms[1];
        readers[nr++] = NULL;
        readers[nr++] = &foreign_pol[0];
      } else {
        readers[nr++] = &foreign_pol[0];
        readers[nr++] = &foreign_pol[1];
        readers[nr++] = g.filter ? NULL : blooms[1];
      }
      for (r = 0; r < nr && !bad; r++) {
        ldb_rfile_t *rf2 = NULL;
        ldb_table_t *tbl2 = NULL;
        ldb_dbopt_t o2 = opt;
        o2.filter_policy = readers[r];
        if (ldb_randfile_create(TPATH, &rf2, g.mm) != LDB_OK) vh_die("open table file");
        rc = ldb_table_open(&o2, rf2, size, &tbl2);
        if (rc != LDB_OK) {
          ldb_rfile_destroy(rf2);
          TFAIL("open_status", "raw keys, %s mask=0x%02x pat=%d: ldb_table_open with reader policy %s returned %d", ct, mask, pat, readers[r] ? readers[r]->name : "none", rc);
        }
        for (i = 0; i < n; i++) {
          ldb_slice_t ts = ldb_slice(E[i].k, E[i].kn);
          rawget_t gc;
          memset(&gc, 0, sizeof(gc));
          gc.want = &E[i];
          rc = ldb_table_internal_get(tbl2, &ropt, &ts, &gc, rawget_cb);
          n_gets++;
          n_foreign_policy_gets++;
          if (rc != LDB_OK || gc.calls != 1 || !gc.right) {
            hexs(E[i].k, E[i].kn, hk, sizeof(hk));
            snprintf(f->sig, sizeof(f->sig), "get_missed_present_key_foreign_policy");
            snprintf(f->detail, sizeof(f->detail), "raw keys, %s mask=0x%02x pat=%d: table written with filter policy %s, read with policy %s: internal_get(%s) status %d reported %s although the key is present (a filter stored under another policy's name must be ignored)",
                     ct, mask, pat, w ? foreign_pol[2].name : (g.filter ? BLOOM_NAME : "none"), readers[r] ? readers[r]->name : "none", hk, rc, gc.calls ? "a wrong entry" : "nothing");
            bad = 1;
            break;
          }
        }
        ldb_table_destroy(tbl2);
        ldb_rfile_destroy(rf2);
      }
    }
  }
done:
  ldb_iter_destroy(it);
  ldb_table_destroy(tbl);
  ldb_rfile_destroy(rf);
  return bad;
}

static void
raw_init(void) {
  int i;
  size_t j;
  uint32_t x = 4242;
  for (i = 1; i < RNU; i++)
    if (my_ucmp(0, (const uint8_t *)RK[i - 1].k, RK[i - 1].n, (const uint8_t *)RK[i].k, RK[i].n) >= 0)
      vh_die("raw key universe not in order");
  for (i = 0; i < RNU; i++) {
    rval[i] = malloc(70000);
    for (j = 0; j < 70000; j++) {
      x = x * 1103515245u + 12345u;
      rval[i][j] = (i & 1) ? (uint8_t)(x >> 16) : (uint8_t)('a' + ((j / 7 + (size_t)i) % 3));
    }
  }
}

static void
raw_domain(void) {
  int c, pat;
  unsigned mask;
  for (c = 0; c < RNCFG && !stopped; c++)
    for (pat = 0; pat < RNV && !stopped; pat++)
      for (mask = 1; mask < (1u << RNU); mask++) {
        uint64_t idx = g_idx++;
        fail_t f, f2;
        char js[120];
        if (!drv_mine(idx))
          continue;
        snprintf(js, sizeof(js), "{\"k\":\"raw\",\"cfg\":%d,\"mask\":%u,\"pat\":%d}", c, mask, pat);
        drv_case("%s", js);
        n_eval++;
        n_tables++;
        n_raw_tables++;
        if (run_raw(c, mask, pat, &f)) {
          if (!run_raw(c, mask, pat, &f2))
            vh_die("violation did not reproduce: %s", js);
          drv_viol(f.sig, f.detail, js);
        }
        if ((n_raw_tables & 63) == 0 && drv_deadline_hit()) {
          stopped = 1;
          break;
        }
      }
}

/* ------------------------------------------------------------------ */
/* witness: one large table                                           */
/* ------------------------------------------------------------------ */

#define WIT_N 20000

static void
wit_key(int i, uint8_t *k, size_t *kn) {
  char u[32];
  int un = snprintf(u, sizeof(u), "key%06d", i / 2); /* two versions per user key */
  *kn = mk_ikey(k, u, (size_t)un, (uint64_t)(100 - (i & 1)), 1);
}

static void
wit_val(int i, uint8_t *v, size_t *vn) {
  size_t j, n = 20 + (size_t)(i % 150);
  uint32_t x = (uint32_t)i * 2654435761u;
  for (j = 0; j < n; j++) {
    if (i % 3 == 0) {
      x = x * 1103515245u + 12345u;
      v[j] = (uint8_t)(x >> 16);
    } else {
      v[j] = (uint8_t)('a' + (i + (int)j / 7) % 5);
    }
  }
  *vn = n;
}

static int
run_witness(int variant, fail_t *f) {
  ldb_dbopt_t opt = *ldb_dbopt_default;
  ldb_readopt_t ropt = *ldb_readopt_default;
  ldb_wfile_t *wf = NULL;
  ldb_rfile_t *rf = NULL;
  ldb_table_t *tbl = NULL;
  ldb_tablegen_t *tb;
  ldb_iter_t *it;
  const vinode_t *node;
  vfs_t *v = vfs_new();
  ref_table_t wt;
  uint8_t k[64], val[200];
  size_t kn, vn;
  uint64_t size;
  int i, rc, bad = 0;

  vfs_use(v);
  opt.comparator = &ikc[0];
  opt.filter_policy = &ifps[1];
  opt.block_cache = the_cache;
  opt.compression = (variant & 1) ? LDB_SNAPPY_COMPRESSION : LDB_NO_COMPRESSION;
  opt.use_mmap = (variant >> 1) & 1;
  opt.paranoid_checks = 1;
  ropt.verify_checksums = 1;
  if (ldb_truncfile_create(TPATH, &wf) != LDB_OK)
    vh_die("witness: create");
  tb = ldb_tablegen_create(&opt, wf);
  for (i = 0; i < WIT_N; i++) {
    ldb_slice_t ks, vs;
    wit_key(i, k, &kn);
    wit_val(i, val, &vn);
    ks = ldb_slice(k, kn);
    vs = ldb_slice(val, vn);
    ldb_tablegen_add(tb, &ks, &vs);
  }
  rc = ldb_tablegen_finish(tb);
  size = ldb_tablegen_size(tb);
  ldb_tablegen_destroy(tb);
  if (rc == LDB_OK)
    rc = ldb_wfile_close(wf);
  ldb_wfile_destroy(wf);
  node = vfs_inode(v, vfs_lookup(v, TPATH));
  ref_table_init(&wt);
#define WFAIL(s, ...) do { snprintf(f->sig, sizeof(f->sig), "%s", s); snprintf(f->detail, sizeof(f->detail), __VA_ARGS__); \
  bad = 1; goto out; } while (0)
  if (rc != LDB_OK || !node || node->len != size)
    WFAIL("witness_build", "20000-entry table: finish/close=%d, builder size %llu, file %zu", rc, (unsigned long long)size,
          node ? node->len : 0);
  if (ref_table_read(node->data, node->len, BLOOM_NAME, 8, 16, &wt) != 0)
    WFAIL("witness_ref_format", "20000-entry table rejected by the reference reader: %s", wt.err);
  if (wt.n != WIT_N)
    WFAIL("witness_ref_entries", "reference reader decoded %zu of %d entries", wt.n, WIT_N);
  for (i = 0; i < WIT_N; i++) {
    wit_key(i, k, &kn);
    wit_val(i, val, &vn);
    if (!same(wt.pool.p + wt.e[i].koff, wt.e[i].klen, k, kn) || !same(wt.pool.p + wt.e[i].voff, wt.e[i].vlen, val, vn))
      WFAIL("witness_ref_entries", "entry %d decoded by the reference reader differs", i);
  }
  if (ldb_randfile_create(TPATH, &rf, opt.use_mmap) != LDB_OK)
    vh_die("witness: open");
  rc = ldb_table_open(&opt, rf, size, &tbl);
  if (rc != LDB_OK) {
    ldb_rfile_destroy(rf);
    WFAIL("witness_open", "ldb_table_open returned %d", rc);
  }
  it = ldb_tableiter_create(tbl, &ropt);
  ldb_iter_first(it);
  for (i = 0; i < WIT_N && !bad; i++) {
    ldb_slice_t ks, vs;
    wit_key(i, k, &kn);
    wit_val(i, val, &vn);
    if (!ldb_iter_valid(it)) {
      snprintf(f->sig, sizeof(f->sig), "witness_iter");
      snprintf(f->detail, sizeof(f->detail), "iterator ended at entry %d of %d", i, WIT_N);
      bad = 1;
      break;
    }
    ks = ldb_iter_key(it);
    vs = ldb_iter_value(it);
    if (!same(ks.data, ks.size, k, kn) || !same(vs.data, vs.size, val, vn)) {
      snprintf(f->sig, sizeof(f->sig), "witness_iter");
      snprintf(f->detail, sizeof(f->detail), "entry %d differs in forward iteration", i);
      bad = 1;
      break;
    }
    ldb_iter_next(it);
  }
  if (!bad && ldb_iter_valid(it)) {
    snprintf(f->sig, sizeof(f->sig), "witness_iter");
    snprintf(f->detail, sizeof(f->detail), "iterator yields more than %d entries", WIT_N);
    bad = 1;
  }
  if (!bad)
    ldb_iter_last(it);
  for (i = WIT_N - 1; i >= 0 && !bad; i--) {
    ldb_slice_t ks, vs;
    wit_key(i, k, &kn);
    wit_val(i, val, &vn);
    if (!ldb_iter_valid(it)) {
      snprintf(f->sig, sizeof(f->sig), "witness_iter");
      snprintf(f->detail, sizeof(f->detail), "backward iteration ended at entry %d", i);
      bad = 1;
      break;
    }
    ks = ldb_iter_key(it);
    vs = ldb_iter_value(it);
    if (!same(ks.data, ks.size, k, kn) || !same(vs.data, vs.size, val, vn)) {
      snprintf(f->sig, sizeof(f->sig), "witness_iter");
      snprintf(f->detail, sizeof(f->detail), "entry %d differs in backward iteration", i);
      bad = 1;
      break;
    }
    ldb_iter_prev(it);
  }
  for (i = 0; i < WIT_N && !bad; i++) {
    ldb_slice_t ks;
    getctx_t gc;
    wit_key(i, k, &kn);
    wit_val(i, val, &vn);
    ks = ldb_slice(k, kn);
    ldb_iter_seek(it, &ks);
    if (!ldb_iter_valid(it) || !same(ldb_iter_key(it).data, ldb_iter_key(it).size, k, kn)) {
      snprintf(f->sig, sizeof(f->sig), "witness_seek");
      snprintf(f->detail, sizeof(f->detail), "seek to entry %d failed", i);
      bad = 1;
      break;
    }
    memset(&gc, 0, sizeof(gc));
    rc = ldb_table_internal_get(tbl, &ropt, &ks, &gc, get_cb);
    if (rc != LDB_OK || gc.calls != 1 || !same(gc.key, gc.kn, k, kn) || !same(gc.val, gc.vn, val, vn)) {
      snprintf(f->sig, sizeof(f->sig), "witness_get");
      snprintf(f->detail, sizeof(f->detail), "internal_get of entry %d: rc=%d callbacks=%d", i, rc, gc.calls);
      bad = 1;
      break;
    }
  }
  ldb_iter_destroy(it);
  ldb_table_destroy(tbl);
  ldb_rfile_destroy(rf);
  if (!bad) {
    char sj[300];
    snprintf(sj, sizeof(sj),
             "{\"case\":{\"k\":\"wit\",\"variant\":%d},\"entries\":%d,\"file_bytes\":%zu,\"data_blocks\":%zu,\"filters\":%zu,\"snappy_blocks\":%d}",
             variant, WIT_N, node->len, wt.nblk, wt.nfilters, wt.any_compressed);
    drv_sample(sj);
    n_witness++;
  }
out:
  ref_table_free(&wt);
  vfs_free(v);
  return bad;
}

static void
witness_domain(void) {
  int variant;
  for (variant = 0; variant < 4; variant++) {
    uint64_t idx = g_idx++;
    fail_t f, f2;
    char js[64];
    if (!drv_mine(idx))
      continue;
    snprintf(js, sizeof(js), "{\"k\":\"wit\",\"variant\":%d}", variant);
    drv_case("%s", js);
    n_eval++;
    if (run_witness(variant, &f)) {
      if (!run_witness(variant, &f2))
        vh_die("witness violation did not reproduce");
      drv_viol(f.sig, f.detail, js);
    }
  }
}

/* ------------------------------------------------------------------ */
/* separator / successor contract                                     */
/* ------------------------------------------------------------------ */

#define NSTR 156
static uint8_t sstr[NSTR][3];
static size_t sstrn[NSTR];
static const uint64_t sep_tags[4] = {(MAXSEQ << 8) | 1, (5ull << 8) | 1, (5ull << 8) | 0, 0};

static void
build_strings(void) {
  static const uint8_t A[5] = {0x00, 0x01, 0x61, 0xFE, 0xFF};
  int n = 0, a, b, c;
  sstrn[n++] = 0;
  for (a = 0; a < 5; a++) {
    sstr[n][0] = A[a];
    sstrn[n++] = 1;
  }
  for (a = 0; a < 5; a++)
    for (b = 0; b < 5; b++) {
      sstr[n][0] = A[a];
      sstr[n][1] = A[b];
      sstrn[n++] = 2;
    }
  for (a = 0; a < 5; a++)
    for (b = 0; b < 5; b++)
      for (c = 0; c < 5; c++) {
        sstr[n][0] = A[a];
        sstr[n][1] = A[b];
        sstr[n][2] = A[c];
        sstrn[n++] = 3;
      }
  if (n != NSTR)
    vh_die("string universe");
}

static void
hexs(const uint8_t *p, size_t n, char *buf, size_t bn) {
  size_t i, q = 0;
  buf[0] = 0;
  for (i = 0; i < n && q + 3 < bn; i++)
    q += (size_t)snprintf(buf + q, bn - q, "%02x", p[i]);
}

/* w = 0: bytewise comparator on strings a, b
 * w = 1: internal-key comparator over bytewise on (a,tag ta), (b,tag tb) */
static int
run_sep(int w, int a, int b, int ta, int tb, fail_t *f) {
  const ldb_comparator_t *cmp = w ? &ikc[0] : ldb_bytewise_comparator;
  uint8_t ka[16], kb[16];
  size_t kan, kbn;
  ldb_buffer_t start;
  ldb_slice_t limit;
  char h1[40], h2[40], h3[40];
  int lt, bad = 0;
  if (w) {
    kan = mk_ikey(ka, sstr[a], sstrn[a], sep_tags[ta] >> 8, (int)(sep_tags[ta] & 0xff));
    kbn = mk_ikey(kb, sstr[b], sstrn[b], sep_tags[tb] >> 8, (int)(sep_tags[tb] & 0xff));
    lt = my_icmp(0, ka, kan, kb, kbn) < 0;
  } else {
    kan = sstrn[a];
    kbn = sstrn[b];
    memcpy(ka, sstr[a], kan);
    memcpy(kb, sstr[b], kbn);
    lt = my_ucmp(0, ka, kan, kb, kbn) < 0;
  }
  ldb_buffer_init(&start);
  ldb_buffer_set(&start, ka, kan);
  limit = ldb_slice(kb, kbn);
  if (cmp->shortest_separator)
    cmp->shortest_separator(cmp, &start, &limit);
  n_sep_pairs++;
  if (lt) {
    /* contract: start <= separator < limit */
    int c1, c2;
    if (w) {
      if (start.size < 8) {
        bad = 1;
      } else {
        c1 = my_icmp(0, ka, kan, start.data, start.size);
        c2 = my_icmp(0, start.data, start.size, kb, kbn);
        bad = !(c1 <= 0 && c2 < 0);
      }
    } else {
      c1 = my_ucmp(0, ka, kan, start.data, start.size);
      c2 = my_ucmp(0, start.data, start.size, kb, kbn);
      bad = !(c1 <= 0 && c2 < 0);
    }
    if (start.size < kan)
      n_sep_shortened++;
    if (bad) {
      hexs(ka, kan, h1, sizeof(h1));
      hexs(kb, kbn, h2, sizeof(h2));
      hexs(start.data, start.size, h3, sizeof(h3));
      snprintf(f->sig, sizeof(f->sig), w ? "separator_contract_ikc" : "separator_contract_bytewise");
      snprintf(f->detail, sizeof(f->detail), "shortest_separator(start=%s, limit=%s) = %s is not in [start, limit)", h1, h2, h3);
    }
  }
  ldb_buffer_clear(&start);
  return bad;
}

static int
run_succ(int w, int a, int ta, fail_t *f) {
  const ldb_comparator_t *cmp = w ? &ikc[0] : ldb_bytewise_comparator;
  uint8_t ka[16];
  size_t kan;
  ldb_buffer_t key;
  char h1[40], h3[40];
  int bad;
  if (w)
    kan = mk_ikey(ka, sstr[a], sstrn[a], sep_tags[ta] >> 8, (int)(sep_tags[ta] & 0xff));
  else {
    kan = sstrn[a];
    memcpy(ka, sstr[a], kan);
  }
  ldb_buffer_init(&key);
  ldb_buffer_set(&key, ka, kan);
  if (cmp->short_successor)
    cmp->short_successor(cmp, &key);
  n_succ++;
  if (w)
    bad = key.size < 8 || my_icmp(0, ka, kan, key.data, key.size) > 0;
  else
    bad = my_ucmp(0, ka, kan, key.data, key.size) > 0;
  if (bad) {
    hexs(ka, kan, h1, sizeof(h1));
    hexs(key.data, key.size, h3, sizeof(h3));
    snprintf(f->sig, sizeof(f->sig), w ? "successor_contract_ikc" : "successor_contract_bytewise");
    snprintf(f->detail, sizeof(f->detail), "short_successor(%s) = %s is smaller than its argument", h1, h3);
  }
  ldb_buffer_clear(&key);
  return bad;
}

static void
sep_domain(void) {
  int w, a, b, ta, tb;
  for (w = 0; w < 2; w++)
    for (a = 0; a < NSTR; a++) {
      uint64_t idx = g_idx++;
      int nt = w ? 4 : 1;
      if (!drv_mine(idx))
        continue;
      drv_case("{\"k\":\"sep\",\"w\":%d,\"a\":%d}", w, a);
      for (ta = 0; ta < nt; ta++) {
        fail_t f, f2;
        char js[160];
        n_eval++;
        if (run_succ(w, a, ta, &f)) {
          snprintf(js, sizeof(js), "{\"k\":\"succ\",\"w\":%d,\"a\":%d,\"ta\":%d}", w, a, ta);
          if (!run_succ(w, a, ta, &f2))
            vh_die("violation did not reproduce: %s", js);
          drv_viol(f.sig, f.detail, js);
        }
        for (b = 0; b < NSTR; b++)
          for (tb = 0; tb < nt; tb++) {
            n_eval++;
            if (run_sep(w, a, b, ta, tb, &f)) {
              snprintf(js, sizeof(js), "{\"k\":\"sep\",\"w\":%d,\"a\":%d,\"b\":%d,\"ta\":%d,\"tb\":%d}", w, a, b, ta, tb);
              if (!run_sep(w, a, b, ta, tb, &f2))
                vh_die("violation did not reproduce: %s", js);
              drv_viol(f.sig, f.detail, js);
            }
          }
      }
    }
}

/* ------------------------------------------------------------------ */
/* Snappy                                                             */
/* ------------------------------------------------------------------ */

#define SN_MAX 200000u
static uint8_t *sn_in, *sn_out, *sn_dec;
static ref_buf_t sn_ref, sn_lit;

static int
run_snappy(const uint8_t *x, size_t n, fail_t *f, uint64_t *ratio) {
  size_t bound = 0, m, dn = 0;
  if (!snappy_encode_size(&bound, n))
    FAIL(f, "snappy_encode_size", "snappy_encode_size refuses %zu bytes", n);
  if (bound > SN_MAX + SN_MAX / 6 + 64)
    vh_die("snappy bound");
  m = snappy_encode(sn_out, x, n);
  if (m > bound || m == 0)
    FAIL(f, "snappy_bound", "snappy_encode produced %zu bytes for %zu input bytes, announced bound %zu", m, n, bound);
  if (!snappy_decode_size(&dn, sn_out, m) || dn != n)
    FAIL(f, "snappy_decode_size", "decode_size of the encoding of %zu bytes says %zu", n, dn);
  memset(sn_dec, 0x5A, n + 8);
  if (!snappy_decode(sn_dec, sn_out, m))
    FAIL(f, "snappy_roundtrip", "snappy_decode rejects snappy_encode's output (%zu -> %zu bytes)", n, m);
  if (n && memcmp(sn_dec, x, n) != 0)
    FAIL(f, "snappy_roundtrip", "snappy_decode(snappy_encode(x)) != x for %zu bytes", n);
  if (sn_dec[n] != 0x5A)
    FAIL(f, "snappy_roundtrip", "snappy_decode wrote past the announced length %zu", n);
  ref_buf_reset(&sn_ref);
  if (ref_snappy_decode(sn_out, m, &sn_ref) != 0)
    FAIL(f, "snappy_not_standard", "reference Snappy decoder rejects snappy_encode's output (%zu -> %zu bytes)", n, m);
  if (sn_ref.n != n || (n && memcmp(sn_ref.p, x, n) != 0))
    FAIL(f, "snappy_not_standard", "reference decoder yields different bytes for the encoding of %zu bytes", n);
  /* a valid stream from another encoder (literals only) must decode too */
  ref_buf_reset(&sn_lit);
  ref_snappy_encode_literal(x, n, &sn_lit);
  dn = (size_t)-1;
  if (!snappy_decode_size(&dn, sn_lit.p, sn_lit.n) || dn != n)
    FAIL(f, "snappy_decode_foreign", "decode_size of a literal-only stream of %zu bytes says %zu", n, dn);
  memset(sn_dec, 0x5A, n + 8);
  if (!snappy_decode(sn_dec, sn_lit.p, sn_lit.n) || (n && memcmp(sn_dec, x, n) != 0) || sn_dec[n] != 0x5A)
    FAIL(f, "snappy_decode_foreign", "snappy_decode fails on a valid literal-only stream of %zu bytes", n);
  n_snappy++;
  n_snappy_bytes += n;
  if (ratio)
    *ratio = n ? (m * 16 / n) : 99;
  return 0;
}

/* string number v of length len over an alphabet of `alpha` letters */
static void
gen_alpha(int alpha, int len, uint64_t v, uint8_t *out) {
  int i;
  for (i = 0; i < len; i++) {
    out[i] = (uint8_t)('a' + (int)(v % (uint64_t)alpha));
    v /= (uint64_t)alpha;
  }
}

static const char *sn_pats[] = {"a", "ab", "abc", "abcd", /* canonical periods 1..4 */
                                "aab", "abb", "aaab", "aabb", "abab", "abba", "abbb", "abac"};
#define SN_NCANON 4
#define SN_NPATS 12

/* var 0: p^k truncated to len; var 1: same with the last byte replaced by 'Z' */
static void
gen_pat(int p, int var, size_t len, uint8_t *out) {
  size_t pl = strlen(sn_pats[p]), i;
  for (i = 0; i < len; i++)
    out[i] = (uint8_t)sn_pats[p][i % pl];
  if (var == 1 && len)
    out[len - 1] = 'Z';
}

static void
gen_fixed(int kind, size_t size, uint8_t *out) {
  size_t i;
  uint32_t x = 4242;
  for (i = 0; i < size; i++) {
    switch (kind) {
      case 0: out[i] = 0; break;
      case 1: out[i] = (uint8_t)i; break;
      default:
        x = x * 1103515245u + 12345u;
        out[i] = (uint8_t)(x >> 16);
        break;
    }
  }
}

static int
quick_plen(size_t len) {
  size_t k;
  if (len <= 600 || len + 40 >= 70000 || len % 499 == 0)
    return 1;
  for (k = 1024; k <= 65536; k *= 2)
    if (len + 40 >= k && len <= k + 40)
      return 1;
  if (len + 300 >= 65536 && len <= 65536 + 300)
    return 1;
  return 0;
}

static void
snappy_case(const char *js, const uint8_t *x, size_t n) {
  fail_t f, f2;
  uint64_t ratio = 0;
  n_eval++;
  if (run_snappy(x, n, &f, &ratio)) {
    if (!run_snappy(x, n, &f2, NULL))
      vh_die("violation did not reproduce: %s", js);
    drv_viol(f.sig, f.detail, js);
  }
  drv_set("snappy_ratio_16ths", ratio);
}

static void
snappy_domain(void) {
  int alpha, len, p, var, kind, si;
  static const size_t fsizes[4] = {65535, 65536, 65537, 200000};
  char js[160];
  /* string universes; one case index per (alphabet, length, 4096-chunk) */
  for (alpha = 2; alpha <= 3 && !stopped; alpha++) {
    int maxlen = alpha == 2 ? (drv.thorough ? 20 : 17) : (drv.thorough ? 12 : 9);
    for (len = 0; len <= maxlen && !stopped; len++) {
      uint64_t total = 1, v;
      int i;
      for (i = 0; i < len; i++)
        total *= (uint64_t)alpha;
      for (v = 0; v < total; v++) {
        if ((v & 4095) == 0) {
          uint64_t idx = g_idx++;
          if (!drv_mine(idx)) {
            v += 4095;
            continue;
          }
          drv_case("{\"k\":\"snA\",\"alpha\":%d,\"len\":%d,\"v\":%llu}", alpha, len, (unsigned long long)v);
          if (drv_deadline_hit()) {
            stopped = 1;
            break;
          }
        }
        gen_alpha(alpha, len, v, sn_in);
        snprintf(js, sizeof(js), "{\"k\":\"snA\",\"alpha\":%d,\"len\":%d,\"v\":%llu}", alpha, len, (unsigned long long)v);
        snappy_case(js, sn_in, (size_t)len);
      }
    }
  }
  /* periodic patterns */
  for (p = 0; p < SN_NPATS && !stopped; p++)
    for (var = 0; var < 2 && !stopped; var++) {
      size_t l;
      for (l = 0; l <= 70000; l++) {
        uint64_t idx;
        /* thorough: every length for the canonical periods 1..4, boundary lengths for the other patterns */
        if (!(drv.thorough && p < SN_NCANON) && !quick_plen(l))
          continue;
        idx = g_idx++;
        if (!drv_mine(idx))
          continue;
        snprintf(js, sizeof(js), "{\"k\":\"snP\",\"p\":%d,\"var\":%d,\"len\":%zu}", p, var, l);
        drv_case("%s", js);
        gen_pat(p, var, l, sn_in);
        snappy_case(js, sn_in, l);
        if ((n_snappy & 255) == 0 && drv_deadline_hit()) {
          stopped = 1;
          break;
        }
      }
    }
  /* fixed long buffers */
  for (kind = 0; kind < 3 && !stopped; kind++)
    for (si = 0; si < 4; si++) {
      uint64_t idx = g_idx++;
      if (!drv_mine(idx))
        continue;
      snprintf(js, sizeof(js), "{\"k\":\"snF\",\"kind\":%d,\"size\":%zu}", kind, fsizes[si]);
      drv_case("%s", js);
      gen_fixed(kind, fsizes[si], sn_in);
      snappy_case(js, sn_in, fsizes[si]);
      if (kind == 1 && si == 3) {
        char sj[300];
        size_t m = snappy_encode(sn_out, sn_in, fsizes[si]);
        snprintf(sj, sizeof(sj), "{\"case\":%s,\"encoded_bytes\":%zu,\"lcdb_decode\":\"identical\",\"reference_decode\":\"identical\"}", js, m);
        drv_sample(sj);
      }
    }
}

/* ------------------------------------------------------------------ */
/* replay                                                             */
/* ------------------------------------------------------------------ */

static long long
jnum(const char *js, const char *key, long long dflt) {
  char pat2[40];
  const char *p;
  snprintf(pat2, sizeof(pat2), "\"%s\":", key);
  p = strstr(js, pat2);
  if (!p)
    return dflt;
  p += strlen(pat2);
  while (*p == ' ')
    p++;
  return strtoll(p, NULL, 10);
}

static void
replay(const char *js) {
  fail_t f;
  int bad = 0;
  memset(&f, 0, sizeof(f));
  if (strstr(js, "\"k\":\"tbl\"")) {
    int c = (int)jnum(js, "cfg", 0);
    unsigned m = (unsigned)jnum(js, "mask", 1);
    if (c < 0 || c >= NCFG || m > 2047 || (m & 1023u) == 0)
      vh_die("bad replay payload: %s", js);
    bad = run_table(c, m, &f, NULL);
  } else if (strstr(js, "\"k\":\"raw\"")) {
    int c = (int)jnum(js, "cfg", 0), pat = (int)jnum(js, "pat", 0);
    unsigned m = (unsigned)jnum(js, "mask", 1);
    if (c < 0 || c >= RNCFG || m == 0 || m >= (1u << RNU) || pat < 0 || pat >= RNV)
      vh_die("bad replay payload: %s", js);
    bad = run_raw(c, m, pat, &f);
  } else if (strstr(js, "\"k\":\"wit\"")) {
    bad = run_witness((int)jnum(js, "variant", 1) & 3, &f);
  } else if (strstr(js, "\"k\":\"sep\"") && strstr(js, "\"b\":")) {
    int a = (int)jnum(js, "a", 0), b = (int)jnum(js, "b", 0), ta = (int)jnum(js, "ta", 0), tb = (int)jnum(js, "tb", 0);
    if (a < 0 || a >= NSTR || b < 0 || b >= NSTR || ta < 0 || ta > 3 || tb < 0 || tb > 3)
      vh_die("bad replay payload: %s", js);
    bad = run_sep((int)jnum(js, "w", 0) != 0, a, b, ta, tb, &f);
  } else if (strstr(js, "\"k\":\"sep\"")) {
    /* crash attribution names only the row: re-run the whole row */
    int w = (int)jnum(js, "w", 0) != 0, a = (int)jnum(js, "a", 0), b, ta, tb;
    if (a < 0 || a >= NSTR)
      vh_die("bad replay payload: %s", js);
    for (ta = 0; ta < (w ? 4 : 1) && !bad; ta++) {
      bad = run_succ(w, a, ta, &f);
      for (b = 0; b < NSTR && !bad; b++)
        for (tb = 0; tb < (w ? 4 : 1) && !bad; tb++)
          bad = run_sep(w, a, b, ta, tb, &f);
    }
  } else if (strstr(js, "\"k\":\"succ\"")) {
    int a = (int)jnum(js, "a", 0), ta = (int)jnum(js, "ta", 0);
    if (a < 0 || a >= NSTR || ta < 0 || ta > 3)
      vh_die("bad replay payload: %s", js);
    bad = run_succ((int)jnum(js, "w", 0) != 0, a, ta, &f);
  } else if (strstr(js, "\"k\":\"snA\"")) {
    int alpha = (int)jnum(js, "alpha", 2), len = (int)jnum(js, "len", 0);
    if (alpha < 2 || alpha > 3 || len < 0 || len > 40)
      vh_die("bad replay payload: %s", js);
    gen_alpha(alpha, len, (uint64_t)jnum(js, "v", 0), sn_in);
    bad = run_snappy(sn_in, (size_t)len, &f, NULL);
  } else if (strstr(js, "\"k\":\"snP\"")) {
    int p = (int)jnum(js, "p", 0), var = (int)jnum(js, "var", 0);
    size_t l = (size_t)jnum(js, "len", 0);
    if (p < 0 || p >= SN_NPATS || l > SN_MAX)
      vh_die("bad replay payload: %s", js);
    gen_pat(p, var, l, sn_in);
    bad = run_snappy(sn_in, l, &f, NULL);
  } else if (strstr(js, "\"k\":\"snF\"")) {
    size_t l = (size_t)jnum(js, "size", 0);
    if (l > SN_MAX)
      vh_die("bad replay payload: %s", js);
    gen_fixed((int)jnum(js, "kind", 0), l, sn_in);
    bad = run_snappy(sn_in, l, &f, NULL);
  } else {
    vh_die("unknown replay payload: %s", js);
  }
  if (bad)
    drv_viol(f.sig, f.detail, js);
  else
    drv_note("replay: case holds");
  n_eval = 1;
}

/* ------------------------------------------------------------------ */

int
main(int argc, char **argv) {
  char res[1200];
  drv_init(argc, argv);

  build_universe();
  build_strings();
  ldb_ikc_init(&ikc[0], ldb_bytewise_comparator);
  ldb_ikc_init(&ikc[1], &rev_user_cmp);
  {
    int fi;
    for (fi = 1; fi < 4; fi++) {
      blooms[fi] = ldb_bloom_create(bloom_bits[fi]);
      ldb_ifp_init(&ifps[fi], blooms[fi]);
    }
  }
  the_cache = ldb_lru_create(8 << 20);
  raw_init();
  sn_in = malloc(SN_MAX + 64);
  sn_out = malloc(SN_MAX + SN_MAX / 6 + 128);
  sn_dec = malloc(SN_MAX + 64);
  ref_buf_init(&sn_ref);
  ref_buf_init(&sn_lit);
  ref_buf_reserve(&sn_ref, SN_MAX + 64);
  ref_buf_reserve(&sn_lit, SN_MAX + 1024);

  if (drv.replay) {
    replay(drv.replay);
  } else {
    if (!drv.thorough)
      drv_note("quick tier subsets: tbl = every entry set x the 144 configurations with {no filter | bloom 10} and no block "
               "cache, and the entry sets of size <=2 or >=8 plus every 7th other set x the other 432 configurations; the second "
               "value pattern (all values 300 bytes) only for sets of size <=1 or >=8; "
               "sep = full domain; Snappy strings = length <=17 over {a,b} and <=9 over {a,b,c}; Snappy patterns = 12 "
               "patterns x 2 variants x lengths {0..600, within 40 of 2^10..2^16, within 300 of 65536, multiples of 499, "
               "69960..70000}; fixed buffers and the 20000-entry witness table = as thorough");
    else
      drv_note("thorough: Snappy periodic patterns = every length 0..70000 for the canonical periods 1..4 (a, ab, abc, abcd) x "
               "2 variants, boundary lengths for 8 further patterns over {a,b,c}; Snappy strings = length <=20 over {a,b} "
               "(inputs shorter than 17 bytes never reach lcdb's matcher, hence the extension beyond the planned 14) and "
               "<=12 over {a,b,c}");
    drv_note("%d seek/lookup targets per table: the 10 universe keys, (user key, max seq) and (user key, seq 0) of every "
             "present user key, two in-between versions of 'a', and 7 absent user keys at two sequence numbers", ntg);
    drv_note("raw = tables over user keys (bytewise comparator, bloom over the whole key): every non-empty subset of 6 keys incl. the empty key x 5 value-size rotations over {0,10,300,3000,70000} bytes x 48 configurations");
    sep_domain();
    if (!stopped) raw_domain();
    if (!stopped) witness_domain();
    if (!stopped) snappy_domain();
    if (!stopped) table_domain();
  }

  snprintf(res, sizeof(res),
           "\"evaluations\":%llu,\"exhaustive\":%s,\"tables\":%llu,\"witness_tables\":%llu,\"seeks\":%llu,\"iterator_steps\":%llu,"
           "\"lookups\":%llu,\"lookups_found_present_user_key\":%llu,\"lookups_nothing_reported_with_filter\":%llu,"
           "\"lookups_nothing_reported_without_filter\":%llu,\"lookups_reported_next_user_key\":%llu,"
           "\"ref_decoded_entries\":%llu,\"ref_filter_probes\":%llu,\"data_blocks\":%llu,\"tables_with_snappy_blocks\":%llu,"
           "\"separator_pairs\":%llu,\"separators_shortened\":%llu,\"successor_cases\":%llu,\"snappy_strings\":%llu,"
           "\"snappy_input_bytes\":%llu,\"raw_key_tables\":%llu,\"raw_key_lookups\":%llu,\"raw_single_entry_blocks_over_2k\":%llu,\"lookups_with_reader_policy_other_than_writer\":%llu,\"explicit_builder_flushes\":%llu",
           (unsigned long long)n_eval, (stopped || drv.replay) ? "false" : "true", (unsigned long long)n_tables,
           (unsigned long long)n_witness, (unsigned long long)n_seeks, (unsigned long long)n_iter_steps,
           (unsigned long long)n_gets, (unsigned long long)n_gets_found, (unsigned long long)n_gets_nocb_filter,
           (unsigned long long)n_gets_nocb_nofilter, (unsigned long long)n_gets_other, (unsigned long long)n_ref_entries,
           (unsigned long long)n_filter_probes, (unsigned long long)n_blocks, (unsigned long long)n_compressed_tables,
           (unsigned long long)n_sep_pairs, (unsigned long long)n_sep_shortened, (unsigned long long)n_succ,
           (unsigned long long)n_snappy, (unsigned long long)n_snappy_bytes, (unsigned long long)n_raw_tables,
           (unsigned long long)n_raw_gets, (unsigned long long)n_raw_big_single_blocks, (unsigned long long)n_foreign_policy_gets, (unsigned long long)n_explicit_flushes);
  drv_result(res);
  return 0;
}
