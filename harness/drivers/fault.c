/* VH_LINK: kv layout ref_codecs rm_manifest
 * fault.c - E4: fault-site enumeration for C12.
 *
 * A history is first run fault-free to learn the sequence of intercepted system
 * calls (open write fsync rename unlink close mkdir link read lseek mmap fcntl
 * opendir stat access fstat).  Then for EVERY call index k and every answer the
 * environment may give at that kind of call (errno, one-shot or persistent from
 * there on, short transfer followed by the error) the same history is re-run
 * with that single deviation from the default environment.  Afterwards the
 * fault is cleared and the database is (a) closed cleanly and reopened and
 * (b) killed (image = all written bytes) and reopened.
 *
 * Oracle (no more than C12 states): nothing crashes, aborts or hangs; a read
 * issued during the faulted run returns the model value unless a fault was
 * delivered inside that very call (then an error status is fine, a wrong value
 * or a not-found for a live key never is); after the fault has cleared, open
 * succeeds and every batch whose write returned OK is present, every batch whose
 * write returned an error is present or absent atomically, nothing else appears.
 *
 *   --cfgs "cfg;cfg"   --len <n>   --scripted 0|1   --persistent 0|1   --depth2 0|1
 *   --prop C12|C04|C13|C17   the same enumeration, judged with another property's statement only:
 *      C01  no failure at all, only LEGAL short transfers: one read(2) or write(2) moves fewer bytes than asked
 *           for (1, half, all but one) and nothing fails: every operation returns OK, every read is right, and
 *           after close/kill + reopen everything acknowledged is there
 *      C09  every call returns: only runs that do not complete (no enabled thread / step limit) are reported
 *      C04  batch atomicity: reads during the run and the contents after close/kill + reopen are the
 *           fold of SOME set of whole batches (which ones is C12's and C02/C03's business)
 *      C13  after every operation every table of the current version exists in the directory; at the end of
 *           the run and after the clean close every table named by the durable MANIFEST exists
 *      C17  at the end of the run (kill point and after the clean close) CURRENT names a file that exists, for
 *           every fault site; and after every operation the MANIFEST that CURRENT names, decoded independently, folds to
 *           exactly the file set the database reports; judged for faults at write and rename calls only
 *           (when fsync, close or the open of the directory for its fsync fails, the record is complete
 *           on disk although lcdb rightly treats the step as failed, so the two may legitimately differ)
 */
#define _GNU_SOURCE
#include <errno.h>
#include <stdlib.h>
#include <string.h>
#include "kv.h"
#include "layout.h"

#define MAXOPS 24
static const char *DB = "/vfs/db";

static kcfg_t cfg;
static int do_persistent = 0, do_depth2 = 0;
static int prop_mode = 12;   /* 12, 1, 2, 4, 9, 13, 17 */
#define SHORT_MODE (prop_mode == 1 || prop_mode == 2)   /* legal short transfers only, nothing fails */
static int judge_sync_only;
static vcall_t *calllog;
static long ncalllog;
static uint64_t n_hist, n_sites, n_runs, n_reopens, n_fired, n_notfired, n_err_status_ops, n_open_failed_in_run;
static uint64_t kind_sites[C_NKINDS];

typedef struct hist_s { int n; kop_t ops[MAXOPS]; } hist_t;

typedef struct fplan_s {
  long at;
  int err;
  int persistent;
  long short_n;
  /* optional second one-shot fault (depth 2): delivered by re-arming after the first fired */
  long at2;
  int err2;
} fplan_t;

typedef struct frun_s {
  const hist_t *h;
  fplan_t plan;
  int paranoid;
  /* results */
  int statuses[MAXOPS];
  kack_t acks[KH_MAXACK];
  int nacks;
  int ok;
  char sig[64];
  char err[600];
  int fired;
  int learn;              /* fault-free run with the call log on (same code path as the faulted runs) */
  long ncalls_hist;       /* calls made up to the end of the history */
  vfs_t *killed;          /* image of everything written at the end of the faulted run */
  vfs_t *powered;         /* C02 mode: power-loss image at the end of the run (directory ops up to the last fsync, files at synced length) */
  kobs_t after_close;     /* observation after clean close + reopen */
  int reopen_rc;
} frun_t;

static void
fail(frun_t *r, const char *sig, const char *msg) {
  if (!r->ok)
    return;
  if (prop_mode == 4 && strcmp(sig, "batch-not-atomic-after-fault") && strcmp(sig, "batch-not-atomic-during-fault"))
    return;
  if (prop_mode == 13 && strcmp(sig, "reachable-file-removed"))
    return;
  if (prop_mode == 9 && strcmp(sig, "hang-after-fault") && strcmp(sig, "stuck-after-fault"))
    return;
  if (prop_mode == 17 && strcmp(sig, "manifest-replay-differs") && strcmp(sig, "current-dangling"))
    return;
  r->ok = 0;
  snprintf(r->sig, sizeof(r->sig), "%s", sig);
  snprintf(r->err, sizeof(r->err), "%s", msg);
}

/* reads during the faulted run: for every key the correct value, or an error status if a
 * fault was delivered inside that very call.  "Correct" = the fold of all batches that
 * returned OK plus ANY subset of the batches that returned an error (a failed write may be
 * present or absent, but only atomically). */
static void
check_reads(khist_t *h, frun_t *r, int opidx) {
  int k, obs[KV_MAXKEYS], have[KV_MAXKEYS], i, nfailed = 0, failed[KH_MAXACK];
  unsigned s;
  char m[400];
  for (k = 0; k < kv_nkeys; k++) {
    ldb_slice_t key = ldb_slice(kv_keys[k], kv_keylen[k]), val;
    int fired0 = vfs_cur->fault.fired;
    int rc = ldb_get(h->db, &key, &val, NULL);
    int faulted = vfs_cur->fault.fired != fired0 && !SHORT_MODE;
    have[k] = 1;
    obs[k] = 0;
    if (rc == LDB_OK) {
      int vid, sz;
      static unsigned char *scratch;
      if (!scratch) scratch = malloc(kv_vlen(VS_1M));
      if (!kv_vparse(val.data, val.size, &vid, &sz, scratch)) {
        snprintf(m, sizeof(m), "after op %d: get of key #%d returns bytes that no write produced", opidx, k);
        fail(r, "wrong-read-after-fault", m);
        vid = -1;
      }
      obs[k] = vid;
      ldb_free(val.data);
    } else if (rc != LDB_NOTFOUND) {
      have[k] = 0;
      if (!faulted && !vfs_cur->fault.persistent) {
        snprintf(m, sizeof(m), "after op %d: get of key #%d returns status %d (%s) although no fault was delivered in this call", opidx, k, rc, ldb_strerror(rc));
        fail(r, "read-error-without-fault", m);
      }
    }
  }
  for (i = 0; i < h->nacks; i++)
    if ((h->acks[i].status != LDB_OK || prop_mode == 4) && nfailed < 10)
      failed[nfailed++] = i;
  for (s = 0; s < (1u << nfailed); s++) {
    kmodel_t want;
    int match = 1;
    memset(&want, 0, sizeof(want));
    for (i = 0; i < h->nacks; i++) {
      int j, in = (h->acks[i].status == LDB_OK && prop_mode != 4);
      for (j = 0; j < nfailed; j++)
        if (failed[j] == i && (s & (1u << j))) in = 1;
      if (in) kh_model_apply(&want, &h->acks[i].op, h->acks[i].opidx);
    }
    for (k = 0; k < kv_nkeys; k++)
      if (have[k] && obs[k] != want.vid[k]) match = 0;
    if (match) return;
  }
  snprintf(m, sizeof(m), "after op %d: reads return vids [%d,%d,%d] which is not the result of all acknowledged writes plus any atomic subset of the %d failed ones (acknowledged state [%d,%d,%d])",
           opidx, obs[0], obs[1], obs[2], nfailed, h->model.vid[0], h->model.vid[1], h->model.vid[2]);
  fail(r, "wrong-read-after-fault", m);
  if (prop_mode == 4) {
    snprintf(m, sizeof(m), "after op %d: reads return vids [%d,%d,%d] which is not the fold of any set of whole batches (a batch is visible in part)", opidx, obs[0], obs[1], obs[2]);
    fail(r, "batch-not-atomic-during-fault", m);
  }
}

static void
fault_body(void *arg) {
  frun_t *r = arg;
  kcfg_t c = cfg;
  khist_t h;
  int i, rc;
  c.paranoid = r->paranoid;
  kh_init(&h, &c, DB);
  h.markers = 1;
  r->ok = 1;
  /* arm the fault plan: call indices count from here */
  vfs_cur->ncalls = 0;
  vfs_fault_clear(vfs_cur);
  vfs_cur->fault.at = r->plan.at;
  vfs_cur->fault.err = r->plan.err;
  vfs_cur->fault.persistent = r->plan.persistent;
  vfs_cur->fault.short_n = r->plan.short_n;
  if (r->learn) {
    vfs_cur->fault.at = -1;
    vfs_cur->log_calls = 1;
  }
  rc = kh_open(&h);
  if (rc != LDB_OK)
    n_open_failed_in_run++;
  for (i = 0; i < r->h->n; i++) {
    if (r->plan.at2 >= 0 && vfs_cur->fault.fired > 0 && !vfs_cur->fault.persistent && vfs_cur->fault.at != r->plan.at2 &&
        !vfs_cur->fault.pending_err && vfs_cur->ncalls <= r->plan.at2) {
      /* second independent one-shot fault */
      int f = vfs_cur->fault.fired;
      vfs_fault_clear(vfs_cur);
      vfs_cur->fault.at = r->plan.at2;
      vfs_cur->fault.err = r->plan.err2;
      vfs_cur->fault.fired = 0;
      (void)f;
    }
    if (!h.db) {
      /* the handle is gone (a faulted open/reopen): try to open again, as an application would */
      rc = kh_open(&h);
      if (rc != LDB_OK) {
        r->statuses[i] = rc;
        h.nops++;
        continue;
      }
    }
    rc = kh_apply(&h, &r->h->ops[i]);
    r->statuses[i] = rc;
    if (getenv("VH_DEBUG_FAULT"))
      fprintf(stderr, "op %d kind %c status %d db=%p fired=%d ncalls=%ld\n", i, r->h->ops[i].kind, rc, (void *)h.db, vfs_cur->fault.fired, vfs_cur->ncalls);
    if (rc != LDB_OK)
      n_err_status_ops++;
    if (rc != LDB_OK && SHORT_MODE && !r->learn) {
      char m[200];
      snprintf(m, sizeof(m), "op %d returns status %d (%s) although no system call failed (one transfer was short)", i, rc, ldb_strerror(rc));
      fail(r, "error-on-legal-short-transfer", m);
    }
    if (h.db)
      check_reads(&h, r, i);
    if (h.db && prop_mode == 13) {
      char e[300];
      if (!lay_reported_tables_exist(h.db, DB, e, sizeof(e))) {
        char m[400];
        snprintf(m, sizeof(m), "after op %d: %s", i, e);
        fail(r, "reachable-file-removed", m);
      }
    }
    if (h.db && prop_mode == 17 && rc == LDB_OK && !r->learn && r->plan.at >= 0 && r->plan.at < ncalllog &&
        (calllog[r->plan.at].kind == C_WRITE || calllog[r->plan.at].kind == C_RENAME) && r->plan.at2 < 0) {
      char e[300];
      if (lay_reported_equals_manifest(h.db, DB, e, sizeof(e)) == 0) {
        char m[400];
        snprintf(m, sizeof(m), "after op %d (status OK): %s", i, e);
        fail(r, "manifest-replay-differs", m);
      }
    }
  }
  r->fired = vfs_cur->fault.fired;
  r->ncalls_hist = vfs_cur->ncalls;
  memcpy(r->acks, h.acks, sizeof(r->acks));
  r->nacks = h.nacks;
  if (prop_mode == 13) {
    char e[300], m[400];
    if (lay_manifest_tables_exist(DB, e, sizeof(e)) == 0) {
      snprintf(m, sizeof(m), "at the end of the faulted run: %s", e);
      fail(r, "reachable-file-removed", m);
    }
    /* the live descriptor is itself a file the current state is reached through */
    if (!lay_current_names_existing_manifest(DB, e, sizeof(e))) {
      snprintf(m, sizeof(m), "at the end of the faulted run the live MANIFEST has been removed: %s", e);
      fail(r, "reachable-file-removed", m);
    }
  }
  if (prop_mode == 17) {
    char e[300], m[400];
    if (!lay_current_names_existing_manifest(DB, e, sizeof(e))) {
      snprintf(m, sizeof(m), "at the end of the faulted run: %s", e);
      fail(r, "current-dangling", m);
    }
  }
  /* ending (b): kill now - everything written so far is what the OS keeps */
  {
    size_t *W = malloc(sizeof(size_t) * (size_t)(vfs_cur->ninodes + 1));
    size_t *S = malloc(sizeof(size_t) * (size_t)(vfs_cur->ninodes + 1));
    int J = vfs_jlen(vfs_cur);
    vfs_lens_at(vfs_cur, J, W, S);
    r->killed = vfs_image(vfs_cur, J, vfs_ndirops_before(vfs_cur, J), W);
    if (prop_mode == 2)
      r->powered = vfs_image(vfs_cur, J, vfs_watermark(vfs_cur, J), S);
    free(W); free(S);
  }
  /* ending (a): clean close (still under the fault if it is persistent), then the fault clears */
  kh_close(&h);
  vfs_fault_clear(vfs_cur);
  if (prop_mode == 17) {
    char e[300], m[400];
    if (!lay_current_names_existing_manifest(DB, e, sizeof(e))) {
      snprintf(m, sizeof(m), "after the clean close that ends the faulted run: %s", e);
      fail(r, "current-dangling", m);
    }
  }
  if (prop_mode == 13) {
    char e[300], m[400];
    if (lay_manifest_tables_exist(DB, e, sizeof(e)) == 0) {
      snprintf(m, sizeof(m), "after the clean close that ends the faulted run: %s", e);
      fail(r, "reachable-file-removed", m);
    }
    if (!lay_current_names_existing_manifest(DB, e, sizeof(e))) {
      snprintf(m, sizeof(m), "after the clean close that ends the faulted run the live MANIFEST has been removed: %s", e);
      fail(r, "reachable-file-removed", m);
    }
  }
  c.paranoid = r->paranoid;
  r->reopen_rc = kh_open(&h);
  if (r->reopen_rc == LDB_OK)
    kv_observe(h.db, r->acks, r->nacks, &r->after_close);
  kh_clear(&h);
}

typedef struct rjob_s { frun_t *r; kobs_t *o; int rc; } rjob_t;

static void
reopen_body(void *arg) {
  rjob_t *j = arg;
  kcfg_t c = cfg;
  khist_t h;
  c.paranoid = j->r->paranoid;
  kh_init(&h, &c, DB);
  j->rc = kh_open(&h);
  if (j->rc == LDB_OK)
    kv_observe(h.db, j->r->acks, j->r->nacks, j->o);
  kh_clear(&h);
}

static void
judge(frun_t *r, const kobs_t *o, int open_rc, const char *ending) {
  uint32_t ok_mask = 0, all = 0;
  kmodel_t want;
  char m[500];
  int i;
  n_reopens++;
  if (prop_mode == 4 && (open_rc != LDB_OK || o->bad))
    return;   /* whether open succeeds and reads work is C12's statement, not C04's */
  if (open_rc != LDB_OK) {
    snprintf(m, sizeof(m), "%s: after the fault has cleared, ldb_open fails with status %d (%s)", ending, open_rc, ldb_strerror(open_rc));
    fail(r, "open-fails-after-fault-cleared", m);
    return;
  }
  for (i = 0; i < r->nacks; i++) {
    if (r->acks[i].empty) continue;
    all |= 1u << i;
    if (r->acks[i].status == LDB_OK && (!judge_sync_only || r->acks[i].sync))
      ok_mask |= 1u << i;
  }
  if (o->bad) {
    snprintf(m, sizeof(m), "%s: %s", ending, o->err);
    fail(r, "inconsistent-after-fault", m);
    return;
  }
  if (prop_mode != 4 && (ok_mask & ~o->U)) {
    snprintf(m, sizeof(m), "%s: batches %x returned OK but are missing after reopen (present %x, OK %x, all issued %x)", ending,
             ok_mask & ~o->U, o->U, ok_mask, all);
    fail(r, "acknowledged-write-lost", m);
    return;
  }
  memset(&want, 0, sizeof(want));
  for (i = 0; i < r->nacks; i++)
    if (o->U & (1u << i))
      kh_model_apply(&want, &r->acks[i].op, r->acks[i].opidx);
  if (memcmp(&want, &o->m, sizeof(want)) != 0) {
    snprintf(m, sizeof(m), "%s: contents are not the result of applying exactly the present batches %x in order (observed vids [%d,%d,%d,%d] expected [%d,%d,%d,%d])",
             ending, o->U, o->m.vid[0], o->m.vid[1], o->m.vid[2], o->m.vid[3], want.vid[0], want.vid[1], want.vid[2], want.vid[3]);
    fail(r, "batch-not-atomic-after-fault", m);
  }
}

static int
run_fault(const hist_t *h, const fplan_t *p, int paranoid, frun_t *r) {
  sch_cfg_t sc;
  vfs_t *v = vfs_new();
  int st;
  memset(r, 0, sizeof(*r));
  r->h = h;
  r->plan = *p;
  r->paranoid = paranoid;
  vfs_use(v);
  memset(&sc, 0, sizeof(sc));
  sc.hook_points = 1;
  sc.step_max = 2000000;
  st = sch_run(fault_body, r, &sc);
  n_runs++;
  if (st != SCH_OK) {
    char m[600];
    r->ok = 1;
    snprintf(m, sizeof(m), "the faulted run did not complete: %s %s", st == SCH_DEADLOCK ? "deadlock/hang" : "step limit", sch_describe_block());
    fail(r, st == SCH_DEADLOCK ? "hang-after-fault" : "stuck-after-fault", m);
    vfs_free(v);
    if (r->killed) { vfs_free(r->killed); r->killed = NULL; }
    if (r->powered) { vfs_free(r->powered); r->powered = NULL; }
    return 0;
  }
  if (r->fired) n_fired++; else n_notfired++;
  if (prop_mode == 2) {
    /* C02 under legal short transfers: power fails at the end of the run; every batch acknowledged WITH SYNC is there */
    if (r->killed) { vfs_free(r->killed); r->killed = NULL; }
    if (r->powered) {
      rjob_t j;
      kobs_t o;
      memset(&o, 0, sizeof(o));
      j.r = r; j.o = &o; j.rc = 0;
      vfs_use(r->powered);
      judge_sync_only = 1;
      st = sch_run(reopen_body, &j, &sc);
      if (st != SCH_OK)
        fail(r, "hang-after-fault", "reopen of the power-loss image did not complete");
      else
        judge(r, &o, j.rc, "power loss at the end of the run (files at synced length) + reopen");
      judge_sync_only = 0;
      vfs_free(r->powered);
      r->powered = NULL;
    }
    vfs_free(v);
    return 1;
  }
  judge(r, &r->after_close, r->reopen_rc, "clean close + reopen");
  if (r->killed) {
    rjob_t j;
    kobs_t o;
    memset(&o, 0, sizeof(o));
    j.r = r; j.o = &o; j.rc = 0;
    vfs_use(r->killed);
    st = sch_run(reopen_body, &j, &sc);
    if (st != SCH_OK)
      fail(r, "hang-after-fault", "reopen of the killed image did not complete");
    else
      judge(r, &o, j.rc, "kill + reopen");
    vfs_free(r->killed);
    r->killed = NULL;
  }
  vfs_free(v);
  return 1;
}

/* fault-free run with the call log on */

static void
learn_body(void *arg) {
  frun_t *r = arg;
  khist_t h;
  int i;
  kh_init(&h, &cfg, DB);
  h.markers = 1;
  vfs_cur->ncalls = 0;
  vfs_cur->log_calls = 1;
  if (kh_open(&h) != LDB_OK) vh_die("fault-free open failed");
  for (i = 0; i < r->h->n; i++)
    if (kh_apply(&h, &r->h->ops[i]) != LDB_OK) vh_die("fault-free op failed");
  kh_close(&h);
  kh_clear(&h);
}

static void
report(const hist_t *h, const frun_t *r) {
  vh_buf_t hb, rp, dt;
  char cfgtxt[300], sig[128];
  frun_t y;
  vcall_t *c = (r->plan.at >= 0 && r->plan.at < ncalllog) ? &calllog[r->plan.at] : NULL;
  run_fault(h, &r->plan, r->paranoid, &y);
  if (y.ok)
    vh_die("fault violation did not reproduce: %s", r->err);
  vb_init(&hb); vb_init(&rp); vb_init(&dt);
  khist_print(h->ops, h->n, &hb);
  kcfg_print(&cfg, cfgtxt, sizeof(cfgtxt));
  vb_printf(&rp, "{\"history\":\"%s\",\"cfg\":\"%s\",\"at\":%ld,\"err\":%d,\"persistent\":%d,\"short_n\":%ld,\"at2\":%ld,\"err2\":%d,\"paranoid\":%d}",
            hb.p ? hb.p : "", cfgtxt, r->plan.at, r->plan.err, r->plan.persistent, r->plan.short_n, r->plan.at2, r->plan.err2, r->paranoid);
  vb_printf(&dt, "history [%s] cfg %s paranoid=%d; fault: call #%ld (%s on %s) %s errno %d%s%s: %s",
            hb.p ? hb.p : "", cfgtxt, r->paranoid, r->plan.at, c ? vfs_ckind(c->kind) : "?", c ? c->name : "?",
            r->plan.persistent ? "and every later call of that kind fail with" : "fails once with", r->plan.err,
            r->plan.short_n >= 0 ? " after a short transfer" : "", r->plan.at2 >= 0 ? " (+ second one-shot fault)" : "", r->err);
  /* signature: kind of violation + kind of the faulted call + file class */
  {
    const char *fclass = "other";
    if (c) {
      if (strstr(c->name, ".log")) fclass = "log";
      else if (strstr(c->name, "MANIFEST")) fclass = "manifest";
      else if (strstr(c->name, ".ldb") || strstr(c->name, ".sst")) fclass = "table";
      else if (strstr(c->name, "CURRENT") || strstr(c->name, ".dbtmp")) fclass = "current";
      else if (strstr(c->name, "LOCK")) fclass = "lock";
      else if (c->name[0] == 0) fclass = "fd";
    }
    snprintf(sig, sizeof(sig), "%s:%s:%s%s:paranoid%d", r->sig, c ? vfs_ckind(c->kind) : "?", fclass, r->plan.short_n >= 0 ? ":short" : "", r->paranoid);
  }
  drv_viol(sig, dt.p, rp.p);
  vb_free(&hb); vb_free(&rp); vb_free(&dt);
}

static int stop_now;
static uint64_t site_counter;

static void
try_plan(const hist_t *h, const fplan_t *p, int paranoid) {
  frun_t r;
  vh_buf_t hb;
  char cfgtxt[300];
  if (!drv_mine(site_counter++))
    return;
  vb_init(&hb);
  khist_print(h->ops, h->n, &hb);
  kcfg_print(&cfg, cfgtxt, sizeof(cfgtxt));
  drv_case("{\"history\":\"%s\",\"cfg\":\"%s\",\"at\":%ld,\"err\":%d,\"persistent\":%d,\"short_n\":%ld,\"at2\":%ld,\"err2\":%d,\"paranoid\":%d}",
           hb.p ? hb.p : "", cfgtxt, p->at, p->err, p->persistent, p->short_n, p->at2, p->err2, paranoid);
  vb_free(&hb);
  run_fault(h, p, paranoid, &r);
  drv_set("outcomes", vh_mix(vh_mix((uint64_t)r.reopen_rc, r.after_close.hash), vh_hash64(r.statuses, sizeof(int) * (size_t)h->n, 3)));
  if (!r.ok)
    report(h, &r);
  if (drv_deadline_hit())
    stop_now = 1;
}

static void
explore_history(const hist_t *h) {
  frun_t r;
  sch_cfg_t sc;
  vfs_t *v = vfs_new();
  long k;
  int paranoid;
  memset(&r, 0, sizeof(r));
  r.h = h;
  r.learn = 1;
  r.plan.at = -1; r.plan.short_n = -1; r.plan.at2 = -1;
  vfs_use(v);
  memset(&sc, 0, sizeof(sc));
  sc.hook_points = 1;
  sc.step_max = 2000000;
  /* the fault-free run goes through exactly the code path of the faulted runs (incl. the reads
   * after every operation), so call index k names the same call in both */
  if (sch_run(fault_body, &r, &sc) != SCH_OK || !r.ok)
    vh_die("fault-free run did not complete or failed its own oracle: %s", r.err);
  if (r.killed) { vfs_free(r.killed); r.killed = NULL; }
  if (r.powered) { vfs_free(r.powered); r.powered = NULL; }
  free(calllog);
  ncalllog = r.ncalls_hist;
  calllog = malloc(sizeof(vcall_t) * (size_t)(ncalllog + 1));
  memcpy(calllog, v->calls, sizeof(vcall_t) * (size_t)ncalllog);
  vfs_free(v);
  if (drv.shard == 0) n_hist++;
  for (k = 0; k < ncalllog && !stop_now; k++) {
    int kind = calllog[k].kind;
    static const int errs_generic[] = {EIO, 0};
    static const int errs_space[] = {ENOSPC, EIO, 0};
    static const int errs_open[] = {ENOSPC, EIO, EMFILE, 0};
    static const int errs_name[] = {EIO, ENOENT, 0};
    static const int errs_mmap[] = {ENOMEM, 0};
    const int *errs = errs_generic;
    int e;
    /* C12 quantifies over open, write, fsync, rename, unlink, close, mkdir, link, read/pread, mmap
     * (lseek is half of the pread emulation of this build): metadata probes are not fault sites */
    if (kind == C_STAT || kind == C_ACCESS || kind == C_FSTAT || kind == C_FCNTL || kind == C_OPENDIR || kind == C_RMDIR)
      continue;
    if (SHORT_MODE) {
      long shorts[3], ns = 0, q;
      if ((kind != C_READ && kind != C_WRITE) || calllog[k].len < 2)
        continue;
      if (drv.shard == 0) { n_sites++; kind_sites[kind]++; }
      shorts[ns++] = 1;
      if (calllog[k].len > 2) shorts[ns++] = (long)calllog[k].len - 1;
      if (calllog[k].len > 4) shorts[ns++] = (long)calllog[k].len / 2;
      for (paranoid = 0; paranoid < 2 && !stop_now; paranoid++)
        for (q = 0; q < ns && !stop_now; q++) {
          fplan_t p;
          p.at = k; p.err = 0; p.persistent = 0; p.short_n = shorts[q]; p.at2 = -1; p.err2 = 0;
          try_plan(h, &p, paranoid);
        }
      continue;
    }
    if (kind == C_WRITE || kind == C_MKDIR || kind == C_LINK) errs = errs_space;
    if (kind == C_OPEN) errs = errs_open;
    if (kind == C_RENAME || kind == C_UNLINK) errs = errs_name;
    if (kind == C_MMAP) errs = errs_mmap;
    if (drv.shard == 0) { n_sites++; kind_sites[kind]++; }
    for (paranoid = 0; paranoid < 2 && !stop_now; paranoid++) {
      for (e = 0; errs[e] && !stop_now; e++) {
        fplan_t p;
        p.at = k; p.err = errs[e]; p.persistent = 0; p.short_n = -1; p.at2 = -1; p.err2 = 0;
        try_plan(h, &p, paranoid);
        if (do_persistent) {
          p.persistent = 1;
          try_plan(h, &p, paranoid);
        }
      }
      if ((kind == C_WRITE || kind == C_READ) && calllog[k].len > 1) {
        long shorts[3], ns = 0, s;
        shorts[ns++] = 1;
        if (calllog[k].len > 2) shorts[ns++] = (long)calllog[k].len - 1;
        if (kind == C_WRITE) shorts[ns++] = 0;
        for (s = 0; s < ns && !stop_now; s++) {
          fplan_t p;
          p.at = k; p.err = (kind == C_WRITE) ? ENOSPC : EIO; p.persistent = 0; p.short_n = shorts[s]; p.at2 = -1; p.err2 = 0;
          try_plan(h, &p, paranoid);
        }
      }
      if (do_depth2) {
        long k2;
        for (k2 = k + 1; k2 < ncalllog && !stop_now; k2++) {
          fplan_t p;
          p.at = k; p.err = EIO; p.persistent = 0; p.short_n = -1; p.at2 = k2; p.err2 = EIO;
          try_plan(h, &p, paranoid);
        }
      }
    }
  }
}

static kop_t alpha[16];
static int nalpha;
static void add_op(const char *s) { if (!kop_parse(&alpha[nalpha], s, NULL)) vh_die("bad op"); nalpha++; }

static const char *scripted_c12[] = {
  "P0.2 P1.2 P2.2 P0.2 P1.1",             /* log rotation + background flush */
  "P0.1 F P0.1 F P1.1 F P0.1 F C P2.1",   /* several levels, compaction with outputs */
  "P0.1! P1.1 O P2.1 P0.1",               /* recovery in the middle */
  "B[P0.1,D1,P2.2]! P1.2 P1.2 P1.2 P1.2! O P0.1!",
  "P0.1 P1.3 P0.1! P2.3 P1.1",            /* fragmented log records with acknowledged writes around them */
  "P0.1! P2.3",                           /* a fragmented record that is still only in the log at the end */
  NULL
};

/* C04 stage: batches whose log record spans three blocks, with small updates before and after the big one */
static const char *scripted_c04[] = {
  "B[P1.1,P2.3,P0.1]! P1.1",
  "P0.1 B[P2.3,D0,P1.1] P0.1!",
  "B[P0.1,D1,P2.2]! P1.2 P1.2 P1.2 P1.2! O P0.1!",
  "B[P0.2,P1.2,P2.2] B[D0,P1.3,D2]! O B[P1.1,P0.3,D2]",
  NULL
};

static void
enumerate(int len, int with_scripted) {
  int idx[MAXOPS], depth, i;
  hist_t h;
  const char **scripted = prop_mode == 4 ? scripted_c04 : scripted_c12;
  if (with_scripted)
    for (i = 0; scripted[i] && !stop_now; i++) {
      memset(&h, 0, sizeof(h));
      h.n = khist_parse(h.ops, MAXOPS, scripted[i]);
      if (h.n < 0) vh_die("bad scripted history");
      explore_history(&h);
    }
  for (depth = 1; depth <= len && !stop_now; depth++) {
    for (i = 0; i < depth; i++) idx[i] = 0;
    for (;;) {
      int writes = 0;
      memset(&h, 0, sizeof(h));
      h.n = depth;
      for (i = 0; i < depth; i++) {
        h.ops[i] = alpha[idx[i]];
        if (strchr("PDBM", h.ops[i].kind)) writes++;
      }
      if (writes > 0 && strchr("PDBM", h.ops[0].kind))
        explore_history(&h);
      if (stop_now) break;
      for (i = depth - 1; i >= 0; i--) {
        if (++idx[i] < nalpha) break;
        idx[i] = 0;
      }
      if (i < 0) break;
    }
  }
}

static long
json_long(const char *s, const char *key, long dflt) {
  char pat[64];
  const char *p;
  snprintf(pat, sizeof(pat), "\"%s\":", key);
  p = strstr(s, pat);
  return p ? strtol(p + strlen(pat), NULL, 10) : dflt;
}

static int
json_str(const char *s, const char *key, char *out, size_t n) {
  char pat[64];
  const char *p, *e;
  snprintf(pat, sizeof(pat), "\"%s\":\"", key);
  p = strstr(s, pat);
  if (!p) return 0;
  p += strlen(pat);
  e = strchr(p, '"');
  if (!e) return 0;
  snprintf(out, n, "%.*s", (int)(e - p), p);
  return 1;
}

int
main(int argc, char **argv) {
  const char *cfgs;
  char *copy, *save = NULL, *item;
  int len, with_scripted, k;
  drv_init(argc, argv);
  kv_set_universe(1);
  len = (int)drv_opt_long("len", 2);
  with_scripted = (int)drv_opt_long("scripted", 1);
  do_persistent = (int)drv_opt_long("persistent", 0);
  do_depth2 = (int)drv_opt_long("depth2", 0);
  cfgs = drv_opt("cfgs", "B1");
  {
    const char *pm = drv_opt("prop", "C12");
    prop_mode = !strcmp(pm, "C09") ? 9 : !strcmp(pm, "C01") ? 1 : !strcmp(pm, "C02") ? 2 : !strcmp(pm, "C04") ? 4 : !strcmp(pm, "C13") ? 13 : !strcmp(pm, "C17") ? 17 : 12;
  }
  add_op("P0.1");
  add_op("P1.1!");
  add_op("P0.2");
  if (drv_opt_long("wide", 0))
    add_op("P2.3");               /* 70 KB value: the log record spans three 32 KiB blocks (FIRST/MIDDLE/LAST);
                                     quick has such records in a scripted history only */
  add_op("B[P0.1,D1,P2.1]");
  add_op("F");
  add_op("C");
  add_op("O");

  if (drv.replay) {
    char hb[1024], cb[400];
    hist_t h;
    fplan_t p;
    frun_t r;
    frun_t lr;
    sch_cfg_t sc;
    vfs_t *v;
    if (!json_str(drv.replay, "history", hb, sizeof(hb)) || !json_str(drv.replay, "cfg", cb, sizeof(cb)))
      vh_die("bad replay payload");
    if (!kcfg_parse(&cfg, cb)) vh_die("bad cfg");
    memset(&h, 0, sizeof(h));
    h.n = khist_parse(h.ops, MAXOPS, hb);
    if (h.n < 0) vh_die("bad history");
    p.at = json_long(drv.replay, "at", -1);
    p.err = (int)json_long(drv.replay, "err", EIO);
    p.persistent = (int)json_long(drv.replay, "persistent", 0);
    p.short_n = json_long(drv.replay, "short_n", -1);
    p.at2 = json_long(drv.replay, "at2", -1);
    p.err2 = (int)json_long(drv.replay, "err2", 0);
    /* call log for the description (same code path as the faulted run) */
    memset(&lr, 0, sizeof(lr));
    lr.h = &h;
    lr.learn = 1;
    lr.plan.at = -1; lr.plan.short_n = -1; lr.plan.at2 = -1;
    v = vfs_new();
    vfs_use(v);
    memset(&sc, 0, sizeof(sc));
    sc.hook_points = 1;
    sc.step_max = 2000000;
    if (sch_run(fault_body, &lr, &sc) != SCH_OK) vh_die("fault-free run did not complete");
    if (lr.killed) vfs_free(lr.killed);
    if (lr.powered) vfs_free(lr.powered);
    ncalllog = lr.ncalls_hist;
    calllog = malloc(sizeof(vcall_t) * (size_t)(ncalllog + 1));
    memcpy(calllog, v->calls, sizeof(vcall_t) * (size_t)ncalllog);
    vfs_free(v);
    run_fault(&h, &p, (int)json_long(drv.replay, "paranoid", 0), &r);
    if (!r.ok) report(&h, &r);
    else printf("REPLAY-OK\n");
    drv_result("\"evaluations\":1");
    return 0;
  }

  copy = strdup(cfgs);
  for (item = strtok_r(copy, ";", &save); item && !stop_now; item = strtok_r(NULL, ";", &save)) {
    if (!kcfg_parse(&cfg, item)) vh_die("bad cfg %s", item);
    drv_note("cfg %s: histories of length <= %d over %d ops%s; every intercepted call x errno set x {one-shot%s} x short transfers x paranoid {0,1}%s",
             item, len, nalpha, with_scripted ? " + scripted" : "", do_persistent ? ", persistent" : "", do_depth2 ? " + all pairs of two one-shot EIO faults" : "");
    enumerate(len, with_scripted);
  }
  free(copy);
  if (drv.shard == 0)
    drv_sample("{\"history\":\"P0.2 P1.2 P2.2 P0.2 P1.1\",\"fault\":\"call #k of the run (every k) answers ENOSPC/EIO/EMFILE/ENOENT/ENOMEM or transfers 1 / len-1 / 0 bytes then fails\",\"endings\":[\"close+reopen\",\"kill+reopen\"]}");
  {
    vh_buf_t b;
    vb_init(&b);
    vb_printf(&b, "\"evaluations\":%llu,\"histories\":%llu,\"fault_sites\":%llu,\"faulted_runs\":%llu,\"reopens_judged\":%llu,\"runs_where_fault_fired\":%llu,"
              "\"runs_where_site_not_reached\":%llu,\"ops_returning_error\":%llu,\"opens_failed_during_run\":%llu",
              (unsigned long long)n_runs, (unsigned long long)n_hist, (unsigned long long)n_sites, (unsigned long long)n_runs,
              (unsigned long long)n_reopens, (unsigned long long)n_fired, (unsigned long long)n_notfired,
              (unsigned long long)n_err_status_ops, (unsigned long long)n_open_failed_in_run);
    for (k = 1; k < C_NKINDS; k++)
      vb_printf(&b, ",\"sites_%s\":%llu", vfs_ckind(k), (unsigned long long)kind_sites[k]);
    vb_printf(&b, ",\"exhaustive\":%s", stop_now ? "false" : "true");
    drv_result(b.p);
    vb_free(&b);
  }
  return 0;
}
