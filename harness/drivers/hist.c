/* VH_LINK: kv layout ref_codecs rm_manifest
 * hist.c - E2: explicit-state breadth-first exploration of operation histories
 * on the real lcdb (fresh in-memory FS + fresh handle per history, replayed),
 * with a boring reference model as oracle after every operation.
 *
 * Serves C01 (oracle get), C06 (snap), C07 (iter, cursor), C13 (files).
 *
 *   --cfg <text>        configuration (kv.h kcfg_parse), e.g. B1,snappy=1
 *   --universe <n>      key universe (kv.h)
 *   --alphabet <name>   rw | snap | iter | files
 *   --depth <d>         BFS depth with state dedup
 *   --ndepth <d>        additionally: every sequence up to this depth WITHOUT dedup
 *   --oracle <list>     comma list of get,snap,iter,cursor,files
 *   --cursor-len <n>    length of the exhaustive cursor call sequences (C07)
 *   --cursor-cap <n>    max number of layout signatures that get the full walk
 *   --replay "<history>"
 */
#define _GNU_SOURCE
#include <stdlib.h>
#include <string.h>
#include "kv.h"
#include "layout.h"

#define MAXDEPTH 12
#define MAXALPHA 128

static kcfg_t cfg;
static kop_t alpha[MAXALPHA];
static int nalpha;
static int o_get, o_snap, o_iter, o_cursor, o_files, o_layout;
static lay_stats_t lay_stats;
static uint64_t n_reopen_layout_checks;
static int cursor_len = 2, cursor_cap = 40, force_full;
static const char *DB = "/vfs/db";

/* statistics */
static uint64_t n_exec, n_states, n_trans, n_oracle_gets, n_cursor_seqs, n_cursor_sigs, n_dup, n_replay2;
static uint64_t n_layout_sigs, n_points;
static int max_depth_done, max_ndepth_done;
static int max_level_seen;
static int n_plan_items;
static int default_universe;
static int n_hist_samples;
static int stop_now;
static vh_set_t seen, layout_seen, cursor_seen;

typedef struct hist_s { unsigned char n; kop_t ops[MAXDEPTH]; } hist_t;

/* the (possibly long) prefix history shared by every state of the current plan item; a state's
 * hist_t holds only the operations explored after it */
#define MAXPFX 400
static kop_t pfx[MAXPFX];
static int npfx;
#define NOPS(h) (npfx + (h)->n)
#define OPAT(h, i) ((i) < npfx ? &pfx[(i)] : &(h)->ops[(i) - npfx])

/* result of one execution */
typedef struct exec_s {
  const hist_t *h;
  int check;            /* run the oracles after the last op */
  int ok;
  char err[700];
  char sig[64];
  uint64_t key;         /* state key */
  uint64_t layout;      /* layout signature */
  uint64_t obs;         /* hash of all observations (determinism check) */
  int nsnaps, niters;
  int levels_mask;
} exec_t;

/* ---------------- alphabets ---------------- */

static void
add_op(const char *s) {
  if (nalpha >= MAXALPHA)
    vh_die("alphabet too large");
  if (!kop_parse(&alpha[nalpha], s, NULL))
    vh_die("bad op %s", s);
  nalpha++;
}

static void
build_alphabet(const char *name) {
  int k;
  char b[64];
  int big = (cfg.base == 2);
  nalpha = 0;
  /* writes: ordered simplest first */
  for (k = 0; k < kv_nkeys; k++) {
    snprintf(b, sizeof(b), "P%d.%d", k, VS_SHORT); add_op(b);
  }
  for (k = 0; k < kv_nkeys; k++) {
    snprintf(b, sizeof(b), "D%d", k); add_op(b);
  }
  for (k = 0; k < kv_nkeys && k < 3; k++) {
    snprintf(b, sizeof(b), "P%d.%d", k, big ? VS_70K : VS_1K); add_op(b);
  }
  add_op("P1.0");                 /* empty value */
  add_op("B[P0.1,D0,P1.1]");      /* put+del of one key and another put in one batch */
  add_op("B[D1,P1.2]");           /* del then put of the same key */
  add_op("B[]");                  /* empty batch */
  if (big)
    add_op("P0.4");               /* one value above max_file_size */
  add_op("F");
  add_op("R0:-:-");
  add_op("R1:-:-");
  add_op("R2:-:-");
  snprintf(b, sizeof(b), "R0:%d:%d", 1 % kv_nkeys, 2 % kv_nkeys); add_op(b);
  snprintf(b, sizeof(b), "R1:%d:%d", 0, 1 % kv_nkeys); add_op(b);
  add_op("C");
  add_op("O");
  if (strcmp(name, "rw") == 0 || strcmp(name, "rwr") == 0) {
    add_op("G1");
  }
  if (strcmp(name, "seek") == 0) {
    /* one hundred lookups of each key: exhausts the seek allowance of the first table probed (seek-triggered compaction) */
    for (k = 0; k < kv_nkeys; k++) {
      snprintf(b, sizeof(b), "G%d", k); add_op(b);
    }
  }
  if (strcmp(name, "rwr") == 0) {
    /* every bounded manual compaction of levels 0 and 1: [key_i, key_j], i <= j */
    int lv, i2, j2;
    for (lv = 0; lv < 2; lv++)
      for (i2 = 0; i2 < kv_nkeys; i2++)
        for (j2 = i2; j2 < kv_nkeys; j2++) {
          snprintf(b, sizeof(b), "R%d:%d:%d", lv, i2, j2);
          if (!((lv == 0 && i2 == 1 % kv_nkeys && j2 == 2 % kv_nkeys) || (lv == 1 && i2 == 0 && j2 == 1 % kv_nkeys)))
            add_op(b);
        }
  }
  if (strcmp(name, "snap") == 0 || strcmp(name, "iter") == 0 || strcmp(name, "files") == 0) {
    add_op("S");
    add_op("s0");
    add_op("s1");
  }
  if (strcmp(name, "iter") == 0 || strcmp(name, "files") == 0) {
    add_op("I");
    add_op("i0");
  }
}

static int
op_enabled(const kop_t *op, int nsnaps, int niters) {
  switch (op->kind) {
    case OP_SNAP: return nsnaps < KH_MAXSNAP;
    case OP_REL: return op->idx < nsnaps;
    case OP_ITOPEN: return niters < KH_MAXITER;
    case OP_ITCLOSE: return op->idx < niters;
  }
  return 1;
}

/* ---------------- layout / files helpers ---------------- */

typedef struct fstate_s {
  uint64_t iter_files[KH_MAXITER][64];
  int iter_nfiles[KH_MAXITER];
  uint64_t before[64]; int nbefore;     /* layout before a CRANGE */
} fstate_t;

static int
file_exists_num(uint64_t num) {
  char p[256];
  snprintf(p, sizeof(p), "%s/%06llu.ldb", DB, (unsigned long long)num);
  if (vfs_lookup(vfs_cur, p) >= 0)
    return 1;
  snprintf(p, sizeof(p), "%s/%06llu.sst", DB, (unsigned long long)num);
  return vfs_lookup(vfs_cur, p) >= 0;
}

/* (a) live files exist; held-iterator files exist */
static int
files_live_check(khist_t *h, fstate_t *fs, char *err, size_t en) {
  uint64_t nums[64];
  int levels[64], n, i, j;
  n = kv_parse_sstables(h->db, nums, levels, 64);
  for (i = 0; i < n; i++)
    if (!file_exists_num(nums[i])) {
      snprintf(err, en, "table #%llu is listed in the current version (level %d) but is gone from the directory",
               (unsigned long long)nums[i], levels[i]);
      return 0;
    }
  for (j = 0; j < h->niters; j++)
    for (i = 0; i < fs->iter_nfiles[j]; i++)
      if (!file_exists_num(fs->iter_files[j][i])) {
        snprintf(err, en, "table #%llu belongs to the version pinned by held iterator %d but was removed",
                 (unsigned long long)fs->iter_files[j][i], j);
        return 0;
      }
  return 1;
}

/* (c) no name is created twice in one history (file-number reuse) */
static int
files_reuse_check(char *err, size_t en) {
  const vfs_t *v = vfs_cur;
  int i, j;
  for (i = 0; i < v->njournal; i++) {
    const vjent_t *a = &v->journal[i];
    if (a->kind != J_CREATE && a->kind != J_REPLACE)
      continue;
    if (strstr(a->path, "/LOCK"))
      continue;
    if (a->kind == J_REPLACE && v->inodes[a->ino2]->len > 0 && !strstr(a->path, ".dbtmp")) {
      snprintf(err, en, "existing non-empty file %s was truncated and rewritten (file number reused)", a->path);
      return 0;
    }
    for (j = 0; j < i; j++) {
      const vjent_t *b = &v->journal[j];
      if ((b->kind == J_CREATE || b->kind == J_REPLACE) && strcmp(a->path, b->path) == 0 && !strstr(a->path, ".dbtmp")) {
        snprintf(err, en, "file name %s created twice in one history (file number reused)", a->path);
        return 0;
      }
    }
  }
  return 1;
}

static uint64_t
layout_signature(khist_t *h, int *levels_mask) {
  uint64_t nums[64];
  int levels[64], n, i, cnt[8] = {0};
  uint64_t s = 5;
  n = kv_parse_sstables(h->db, nums, levels, 64);
  *levels_mask = 0;
  for (i = 0; i < n; i++)
    if (levels[i] >= 0 && levels[i] < 7) {
      cnt[levels[i]]++;
      *levels_mask |= 1 << levels[i];
    }
  for (i = 0; i < 7; i++)
    s = vh_mix(s, (uint64_t)(cnt[i] > 3 ? 3 : cnt[i]));
  for (i = 0; i < kv_nkeys; i++)
    s = vh_mix(s, h->model.vid[i] ? 1 : 0);
  return s;
}

/* ---------------- C07 cursor walks ---------------- */

static const char *targets[16];
static size_t target_len[16];
static int ntargets;

static void
build_targets(void) {
  int i;
  ntargets = 0;
  for (i = 0; i < kv_nkeys + 2; i++) {
    targets[ntargets] = kv_keys[i];
    target_len[ntargets] = kv_keylen[i];
    ntargets++;
  }
  targets[ntargets] = "aa"; target_len[ntargets++] = 2;
  targets[ntargets] = "abz"; target_len[ntargets++] = 3;
  targets[ntargets] = "\x00"; target_len[ntargets++] = 1;
}

typedef struct ccall_s { unsigned char call, target; } ccall_t;

static void
do_call(ldb_iter_t *it, const ccall_t *c) {
  ldb_slice_t t = ldb_slice(targets[c->target], target_len[c->target]);
  switch (c->call) {
    case CU_FIRST: ldb_iter_first(it); break;
    case CU_LAST: ldb_iter_last(it); break;
    case CU_NEXT: ldb_iter_next(it); break;
    case CU_PREV: ldb_iter_prev(it); break;
    case CU_SEEK: ldb_iter_seek(it, &t); break;
    case CU_GE: ldb_iter_seek_ge(it, &t); break;
    case CU_GT: ldb_iter_seek_gt(it, &t); break;
    case CU_LE: ldb_iter_seek_le(it, &t); break;
    case CU_LT: ldb_iter_seek_lt(it, &t); break;
  }
}

static const char *callname[] = {"first", "last", "next", "prev", "seek", "seek_ge", "seek_gt", "seek_le", "seek_lt"};

static int
cursor_agrees(khist_t *h, ldb_iter_t *it, const kcursor_t *c, const kmodel_t *m, const ccall_t *seq, int n, char *err, size_t en) {
  int valid = ldb_iter_valid(it);
  char d[300];
  int i, p = 0;
  if (valid == (c->pos >= 0)) {
    if (!valid)
      return 1;
    {
      ldb_slice_t k = ldb_iter_key(it), v = ldb_iter_value(it);
      int ki = c->keys[c->pos];
      if (k.size == kv_keylen[ki] && (k.size == 0 || memcmp(k.data, kv_keys[ki], k.size) == 0) &&
          kv_vcheck(v.data, v.size, m->vid[kv_rep_tab[ki]], m->sz[kv_rep_tab[ki]]))
        return 1;
    }
  }
  d[0] = 0;
  for (i = 0; i < n; i++) {
    p += snprintf(d + p, sizeof(d) - (size_t)p, "%s%s", i ? "," : "", callname[seq[i].call]);
    if (seq[i].call >= CU_SEEK)
      p += snprintf(d + p, sizeof(d) - (size_t)p, "(t%d)", seq[i].target);
  }
  (void)h;
  snprintf(err, en, "cursor calls [%s]: iterator valid=%d, sorted-map reference says %s (position %d of %d live keys)", d, valid,
           c->pos >= 0 ? "valid" : "invalid", c->pos, c->n);
  return 0;
}

static int
cursor_walks(khist_t *h, const kmodel_t *m, ldb_iter_t *it, int len, char *err, size_t en) {
  /* all call sequences of length <= len; first call positions; next/prev only while valid */
  ccall_t alphabet[2 + 5 * 16 + 2];
  int na = 0, t, c, idx[6], depth, i;
  ccall_t seq[6];
  alphabet[na].call = CU_FIRST; alphabet[na++].target = 0;
  alphabet[na].call = CU_LAST; alphabet[na++].target = 0;
  for (c = CU_SEEK; c <= CU_LT; c++)
    for (t = 0; t < ntargets; t++) {
      alphabet[na].call = (unsigned char)c;
      alphabet[na++].target = (unsigned char)t;
    }
  alphabet[na].call = CU_NEXT; alphabet[na++].target = 0;
  alphabet[na].call = CU_PREV; alphabet[na++].target = 0;
  /* iterative enumeration of index vectors (odometer), executing each sequence from its start */
  for (depth = 1; depth <= len; depth++) {
    for (i = 0; i < depth; i++)
      idx[i] = 0;
    for (;;) {
      kcursor_t cur;
      int okseq = 1;
      kcur_init(&cur, m, &h->cfg);
      for (i = 0; i < depth; i++) {
        seq[i] = alphabet[idx[i]];
        if ((seq[i].call == CU_NEXT || seq[i].call == CU_PREV) && cur.pos < 0) { okseq = 0; break; }
        kcur_call(&cur, seq[i].call, targets[seq[i].target], target_len[seq[i].target], &h->cfg);
      }
      if (okseq) {
        kcur_init(&cur, m, &h->cfg);
        for (i = 0; i < depth; i++) {
          do_call(it, &seq[i]);
          kcur_call(&cur, seq[i].call, targets[seq[i].target], target_len[seq[i].target], &h->cfg);
          if (!cursor_agrees(h, it, &cur, m, seq, i + 1, err, en))
            return 0;
        }
        n_cursor_seqs++;
        if ((n_cursor_seqs & 0xffff) == 0 && drv_deadline_hit()) {
          stop_now = 1;   /* cut by the deadline: reported as exhaustive=false */
          return 1;
        }
        if (ldb_iter_status(it) != LDB_OK) {
          snprintf(err, en, "iterator status %d during cursor walk", ldb_iter_status(it));
          return 0;
        }
      }
      /* next index vector; if the sequence was cut at position i, skip the whole subtree */
      i = okseq ? depth - 1 : i;
      for (; i >= 0; i--) {
        int j;
        if (++idx[i] < na) {
          for (j = i + 1; j < depth; j++) idx[j] = 0;
          break;
        }
      }
      if (i < 0)
        break;
    }
  }
  return 1;
}

/* ---------------- one execution ---------------- */

static void
fail(exec_t *x, const char *sig, const char *msg) {
  x->ok = 0;
  snprintf(x->sig, sizeof(x->sig), "%s", sig);
  snprintf(x->err, sizeof(x->err), "%s", msg);
}

static char *layout_before;

static void
body(void *arg) {
  exec_t *x = arg;
  khist_t h;
  fstate_t fs;
  int i, rc;
  uint64_t obs = 1;
  memset(&fs, 0, sizeof(fs));
  x->ok = 1;
  kh_init(&h, &cfg, DB);
  rc = kh_open(&h);
  if (rc != LDB_OK) {
    char m[200];
    snprintf(m, sizeof(m), "open of a fresh database failed: %d %s", rc, ldb_strerror(rc));
    fail(x, "open-failed", m);
    kh_clear(&h);
    return;
  }
  for (i = 0; i < NOPS(x->h) && x->ok; i++) {
    const kop_t *op = OPAT(x->h, i);
    int last = (i == NOPS(x->h) - 1);
    int was_iters = h.niters;
    if (o_files && op->kind == OP_CRANGE) {
      int lv[64];
      fs.nbefore = kv_parse_sstables(h.db, fs.before, lv, 64);
    }
    if (o_layout && op->kind == OP_REOPEN) {
      /* "closing and reopening a database whose write buffer is empty reproduces the same
       * layout": the write buffer is empty iff the live (highest-numbered) log holds no record */
      char names[256][64];
      int nn = vfs_list(vfs_cur, DB, names, 256), q, best = -1;
      uint64_t bestnum = 0;
      free(layout_before);
      layout_before = NULL;
      for (q = 0; q < nn; q++) {
        size_t l = strlen(names[q]);
        if (l > 4 && strcmp(names[q] + l - 4, ".log") == 0 && strtoull(names[q], NULL, 10) >= bestnum) {
          bestnum = strtoull(names[q], NULL, 10);
          best = q;
        }
      }
      if (best >= 0) {
        char pth[300];
        snprintf(pth, sizeof(pth), "%s/%s", DB, names[best]);
        if (vfs_inode(vfs_cur, vfs_lookup(vfs_cur, pth))->len == 0)
          ldb_property(h.db, "leveldb.sstables", &layout_before);
      }
    }
    rc = kh_apply(&h, op);
    obs = vh_mix(obs, (uint64_t)rc);
    if (o_layout && op->kind == OP_REOPEN && layout_before && rc == LDB_OK) {
      char *after = NULL;
      ldb_property(h.db, "leveldb.sstables", &after);
      n_reopen_layout_checks++;
      if (!after || strcmp(after, layout_before) != 0) {
        fail(x, "reopen-changes-layout", "closing and reopening with an empty write buffer changed the reported level structure");
        if (after) ldb_free(after);
        break;
      }
      ldb_free(after);
    }
    if (rc != LDB_OK) {
      char m[300];
      vh_buf_t b;
      vb_init(&b);
      kop_print(op, &b);
      snprintf(m, sizeof(m), "operation %d (%s) returned status %d (%s) on a healthy in-memory file system", i, b.p, rc,
               ldb_strerror(rc));
      vb_free(&b);
      fail(x, "op-status", m);
      break;
    }
    if (o_files) {
      if (op->kind == OP_ITOPEN && h.niters > was_iters) {
        int lv[64];
        fs.iter_nfiles[h.niters - 1] = kv_parse_sstables(h.db, fs.iter_files[h.niters - 1], lv, 64);
      } else if (op->kind == OP_ITCLOSE && h.niters < was_iters) {
        int j;
        for (j = op->idx; j + 1 < KH_MAXITER; j++) {
          memcpy(fs.iter_files[j], fs.iter_files[j + 1], sizeof(fs.iter_files[j]));
          fs.iter_nfiles[j] = fs.iter_nfiles[j + 1];
        }
      } else if (op->kind == OP_REOPEN) {
        memset(fs.iter_nfiles, 0, sizeof(fs.iter_nfiles));
      }
    }
    if (!(last && x->check))
      continue;
    /* ---- oracles, evaluated in the state after the last operation ---- */
    if (o_get) {
      n_oracle_gets++;
      if (!ko_gets(&h, &h.model, NULL, 0)) { fail(x, "get-mismatch", h.err); break; }
    }
    if (o_snap && !ko_snapshots(&h)) { fail(x, "snapshot-mismatch", h.err); break; }
    if (o_iter) {
      if (!ko_scan(&h, &h.model, NULL, NULL, 0)) { fail(x, "scan-mismatch", h.err); break; }
      if (!ko_held_iters(&h)) { fail(x, "held-iterator-mismatch", h.err); break; }
      if (!ko_gets(&h, &h.model, NULL, 0)) { fail(x, "get-vs-scan-mismatch", h.err); break; }
    }
    if (o_layout) {
      char e[500];
      if (!lay_check(h.db, DB, &cfg, &lay_stats, e, sizeof(e))) { fail(x, "layout-malformed", e); break; }
    }
    if (o_files) {
      char e[400];
      int structural = (op->kind == OP_FLUSH || op->kind == OP_CALL || op->kind == OP_REOPEN);
      if (!files_live_check(&h, &fs, e, sizeof(e))) { fail(x, "live-file-removed", e); break; }
      if (!ko_held_iters(&h)) { fail(x, "held-iterator-broken", h.err); break; }
      if (op->kind == OP_CRANGE) {
        uint64_t after[64];
        int lv[64], na = kv_parse_sstables(h.db, after, lv, 64);
        structural = (na != fs.nbefore) || memcmp(after, fs.before, sizeof(uint64_t) * (size_t)(na > 0 ? na : 0)) != 0;
      }
      if (structural && !h.iter_open_at_structural && !lay_files_exact_check(h.db, DB, e, sizeof(e))) { fail(x, "garbage-left", e); break; }
      if (!files_reuse_check(e, sizeof(e))) { fail(x, "file-number-reused", e); break; }
    }
  }
  if (x->ok && h.db) {
    x->layout = layout_signature(&h, &x->levels_mask);
    x->key = vh_mix(vfs_hash(vfs_cur, DB, 1), kmodel_hash(&h.model));
    for (i = 0; i < h.nsnaps; i++)
      x->key = vh_mix(x->key, vh_mix(100 + (uint64_t)i, kmodel_hash(&h.snaps[i].model)));
    for (i = 0; i < h.niters; i++)
      x->key = vh_mix(x->key, vh_mix(200 + (uint64_t)i, kmodel_hash(&h.iters[i].model)));
    x->nsnaps = h.nsnaps;
    x->niters = h.niters;
    if (x->check && o_cursor) {
      /* full cursor walks once per layout signature (x model liveness pattern) */
      uint64_t cs = vh_mix(x->layout, kmodel_hash(&h.model));
      int full = 0;
      char e[500];
      ldb_iter_t *it = ldb_iterator(h.db, NULL);
      /* each layout signature gets its full-length walk in exactly one shard */
      if (force_full) {
        full = 1;   /* replaying a reported case: the walk that found it was a full one */
      } else if (!vs_has(&cursor_seen, x->layout) && (int)cursor_seen.n < cursor_cap &&
          (int)(vh_mix(x->layout, 99) % (uint64_t)drv.nshards) == drv.shard && !stop_now) {
        vs_add(&cursor_seen, x->layout);
        full = 1;
        n_cursor_sigs++;
      }
      (void)cs;
      if (!cursor_walks(&h, &h.model, it, full ? cursor_len : 1, e, sizeof(e)))
        fail(x, "cursor-mismatch", e);
      ldb_iter_destroy(it);
      if (x->ok && h.niters > 0 && !cursor_walks(&h, &h.iters[0].model, h.iters[0].it, 1, e, sizeof(e)))
        fail(x, "held-cursor-mismatch", e);
    }
  }
  x->obs = vh_mix(obs, x->key);
  kh_clear(&h);
}

static void
run_exec(exec_t *x, const hist_t *h, int check) {
  sch_cfg_t sc;
  vfs_t *v = vfs_new();
  int st;
  memset(x, 0, sizeof(*x));
  x->h = h;
  x->check = check;
  memset(&sc, 0, sizeof(sc));
  sc.hook_points = 1;
  sc.step_max = 2000000000L;   /* sequential runs: only a real livelock gets here (cursor walks take many points) */
  vfs_use(v);
  st = sch_run(body, x, &sc);
  n_points += (uint64_t)sch_steps;
  if (st != SCH_OK) {
    char m[600];
    snprintf(m, sizeof(m), "execution did not complete under the deterministic scheduler: %s %s",
             st == SCH_DEADLOCK ? "deadlock" : (st == SCH_STEPMAX ? "step limit" : "bad choice"), sch_describe_block());
    fail(x, st == SCH_DEADLOCK ? "deadlock" : "stuck", m);
  }
  vfs_free(v);
  n_exec++;
}

static void
report(const exec_t *x) {
  vh_buf_t b, r;
  exec_t y;
  char cfgtxt[300];
  /* replay once before reporting */
  force_full = 1;
  run_exec(&y, x->h, 1);
  force_full = 0;
  if (y.ok)
    vh_die("violation did not reproduce on replay: %s", x->err);
  vb_init(&b);
  vb_init(&r);
  khist_print(pfx, npfx, &b);
  if (npfx && x->h->n) vb_printf(&b, " ");
  khist_print(x->h->ops, x->h->n, &b);
  kcfg_print(&cfg, cfgtxt, sizeof(cfgtxt));
  vb_printf(&r, "{\"history\":");
  vb_json_str(&r, b.p ? b.p : "", b.n);
  vb_printf(&r, ",\"cfg\":");
  vb_json_str(&r, cfgtxt, strlen(cfgtxt));
  vb_printf(&r, "}");
  {
    vh_buf_t d;
    vb_init(&d);
    vb_printf(&d, "history [%s] cfg %s: %s", b.p ? b.p : "", cfgtxt, x->err);
    drv_viol(x->sig, d.p, r.p);
    vb_free(&d);
  }
  vb_free(&b);
  vb_free(&r);
}

static void
announce(const hist_t *h) {
  vh_buf_t b;
  char cfgtxt[300];
  vb_init(&b);
  khist_print(pfx, npfx, &b);
  if (npfx && h->n) vb_printf(&b, " ");
  khist_print(h->ops, h->n, &b);
  kcfg_print(&cfg, cfgtxt, sizeof(cfgtxt));
  drv_case("{\"history\":\"%s\",\"cfg\":\"%s\"}", b.p ? b.p : "", cfgtxt);
  vb_free(&b);
}

/* ---------------- exploration ---------------- */

typedef struct frontier_s { hist_t *h; unsigned char *ns, *ni; size_t n, cap; } frontier_t;

static void
fr_push(frontier_t *f, const hist_t *h, int nsnaps, int niters) {
  if (f->n == f->cap) {
    f->cap = f->cap ? f->cap * 2 : 1024;
    f->h = realloc(f->h, f->cap * sizeof(hist_t));
    f->ns = realloc(f->ns, f->cap);
    f->ni = realloc(f->ni, f->cap);
    if (!f->h || !f->ns || !f->ni)
      vh_die("oom frontier");
  }
  f->h[f->n] = *h;
  f->ns[f->n] = (unsigned char)nsnaps;
  f->ni[f->n] = (unsigned char)niters;
  f->n++;
}



static void
explore(int depth, int dedup) {
  frontier_t cur = {0}, next = {0};
  hist_t root;
  int level;
  size_t i;
  int a;
  uint64_t execs_counted_from = 0;
  memset(&root, 0, sizeof(root));
  {
    /* the prefix state itself (also yields its snapshot/iterator counts) */
    exec_t x;
    run_exec(&x, &root, 1);
    if (drv.shard != 0)
      n_exec--;
    if (!x.ok) {
      if (drv.shard == 0)
        report(&x);
      return;
    }
    fr_push(&cur, &root, x.nsnaps, x.niters);
  }
  vs_free(&seen);
  vs_init(&seen);
  for (level = 1; level <= depth && !stop_now; level++) {
    /* level 1 is computed identically by every shard (cheap, counted by shard 0 only);
     * the (level-1 state, op) pairs of level 2 are dealt round-robin to the shards and
     * each shard continues with the subtrees of its own pairs */
    int rel = level;
    int shared = (rel <= 1);
    uint64_t pair = 0;
    next.n = 0;
    for (i = 0; i < cur.n && !stop_now; i++) {
      for (a = 0; a < nalpha && !stop_now; a++) {
        hist_t h = cur.h[i];
        exec_t x;
        if (!op_enabled(&alpha[a], cur.ns[i], cur.ni[i]))
          continue;
        if (rel == 2 && !drv_mine(pair++))
          continue;
        h.ops[h.n++] = alpha[a];
        announce(&h);
        run_exec(&x, &h, !shared || drv.shard == 0 || 1);
        if (drv.shard == 0 && n_hist_samples < 4 && h.n >= 2 && (n_exec % 37) == 5) {
          /* an actually executed history, written out for the evidence */
          vh_buf_t sb, hb2;
          char ct[300];
          vb_init(&sb); vb_init(&hb2);
          khist_print(pfx, npfx, &hb2);
          if (npfx) vb_printf(&hb2, " ");
          khist_print(h.ops, h.n, &hb2);
          kcfg_print(&cfg, ct, sizeof(ct));
          vb_printf(&sb, "{\"history\":\"%s\",\"cfg\":\"%s\",\"held\":\"oracle ok=%d\"}", hb2.p ? hb2.p : "", ct, x.ok);
          drv_sample(sb.p);
          vb_free(&sb); vb_free(&hb2);
          n_hist_samples++;
        }
        if (shared && drv.shard != 0) {
          n_exec--; /* counted by shard 0 only */
        } else {
          n_trans++;
        }
        if (!x.ok) {
          if (!shared || drv.shard == 0)
            report(&x);
          continue;
        }
        if ((n_exec & 63) == 0) {
          exec_t y;
          run_exec(&y, &h, 1);
          n_exec--;
          n_replay2++;
          if (y.obs != x.obs || y.key != x.key)
            vh_die("nondeterministic replay of a history");
        }
        if (x.levels_mask) {
          int l;
          for (l = 6; l > 0; l--)
            if (x.levels_mask & (1 << l)) { if (l > max_level_seen) max_level_seen = l; break; }
        }
        if (vs_add(&layout_seen, x.layout))
          n_layout_sigs++;
        if (dedup) {
          if (!vs_add(&seen, x.key)) {
            n_dup++;
            continue;
          }
        }
        if (!shared || drv.shard == 0)
          n_states++;
        if (level < depth)
          fr_push(&next, &h, x.nsnaps, x.niters);
        if (drv_deadline_hit())
          stop_now = 1;
      }
    }
    if (stop_now)
      break;
    if (dedup) { if (level > max_depth_done) max_depth_done = level; }
    else { if (level > max_ndepth_done) max_ndepth_done = level; }
    /* hand over: after level 2 keep only this shard's share */
    cur.n = 0;
    for (i = 0; i < next.n; i++)
      if (1)
        fr_push(&cur, &next.h[i], next.ns[i], next.ni[i]);
    (void)execs_counted_from;
  }
  free(cur.h); free(cur.ns); free(cur.ni);
  free(next.h); free(next.ns); free(next.ni);
}

int
main(int argc, char **argv) {
  const char *orc, *alph;
  int depth, ndepth;
  char cfgtxt[300];
  drv_init(argc, argv);
  if (!kcfg_parse(&cfg, drv_opt("cfg", "B1")))
    vh_die("bad --cfg");
  vfs_default_rlimit = drv_opt_long("rlimit", 1024);   /* 5 => lcdb's fd limiter allows ONE open table descriptor */
  default_universe = (int)drv_opt_long("universe", 0);
  kv_set_universe(default_universe);
  alph = drv_opt("alphabet", "rw");
  build_alphabet(alph);
  build_targets();
  orc = drv_opt("oracle", "get");
  o_get = strstr(orc, "get") != NULL;
  o_snap = strstr(orc, "snap") != NULL;
  o_iter = strstr(orc, "iter") != NULL;
  o_cursor = strstr(orc, "cursor") != NULL;
  o_files = strstr(orc, "files") != NULL;
  o_layout = strstr(orc, "layout") != NULL;
  depth = (int)drv_opt_long("depth", 3);
  ndepth = (int)drv_opt_long("ndepth", 0);
  cursor_len = (int)drv_opt_long("cursor-len", 2);
  cursor_cap = (int)drv_opt_long("cursor-cap", 40);
  if (depth > MAXDEPTH || ndepth > MAXDEPTH)
    vh_die("depth too large");
  vs_init(&seen);
  vs_init(&layout_seen);
  vs_init(&cursor_seen);
  kcfg_print(&cfg, cfgtxt, sizeof(cfgtxt));

  if (drv.replay) {
    /* payload: {"history":"...","cfg":"..."} or a bare history */
    hist_t h;
    exec_t x;
    const char *p = strstr(drv.replay, "\"history\":\"");
    static char hb[8192];
    int n;
    memset(&h, 0, sizeof(h));
    if (p) {
      const char *e;
      p += 11;
      e = strchr(p, '"');
      snprintf(hb, sizeof(hb), "%.*s", (int)(e - p), p);
      p = strstr(drv.replay, "\"cfg\":\"");
      if (p) {
        char cb[400];
        const char *e2;
        p += 7;
        e2 = strchr(p, '"');
        snprintf(cb, sizeof(cb), "%.*s", (int)(e2 - p), p);
        if (!kcfg_parse(&cfg, cb))
          vh_die("bad cfg in replay");
        if (cfg.universe >= 0) {
          kv_set_universe(cfg.universe);
          build_targets();
        }
      }
    } else {
      snprintf(hb, sizeof(hb), "%s", drv.replay);
    }
    n = khist_parse(pfx, MAXPFX, hb);
    if (n < 0)
      vh_die("bad history in replay: %s", hb);
    npfx = n;
    h.n = 0;
    force_full = 1;
    run_exec(&x, &h, 1);
    if (!x.ok)
      report(&x);
    else
      printf("REPLAY-OK\n");
    drv_result("\"evaluations\":1");
    return 0;
  }

  {
    /* --plan "cfg@depth/ndepth^prefix history;cfg@..." : several explorations in one run */
    const char *plan = drv_opt("plan", NULL);
    if (!plan) {
      if (ndepth > 0)
        explore(ndepth, 0);
      if (depth > 0 && !stop_now)
        explore(depth, 1);
    } else {
      char *copy = strdup(plan), *save = NULL, *item;
      for (item = strtok_r(copy, ";", &save); item && !stop_now; item = strtok_r(NULL, ";", &save)) {
        char *at = strchr(item, '@'), *hat = strchr(item, '^'), *tilde;
        const char *item_alph = alph;
        int d = depth, nd = 0, n;
        npfx = 0;
        if (hat) {
          *hat = 0;
          n = khist_parse(pfx, MAXPFX, hat + 1);
          if (n < 0)
            vh_die("bad prefix in plan: %s", hat + 1);
          npfx = n;
        }
        if (at) {
          *at = 0;
          d = atoi(at + 1);
          if (strchr(at + 1, '/'))
            nd = atoi(strchr(at + 1, '/') + 1);
        }
        tilde = strchr(item, '~');
        if (tilde) {
          *tilde = 0;
          item_alph = tilde + 1;   /* cfg~alphabet@depth... : per-item alphabet */
        }
        if (!kcfg_parse(&cfg, item))
          vh_die("bad cfg in plan: %s", item);
        if (d > MAXDEPTH || nd > MAXDEPTH)
          vh_die("plan depth too large");
        kv_set_universe(cfg.universe >= 0 ? cfg.universe : default_universe);
        build_targets();
        build_alphabet(item_alph);
        vs_free(&cursor_seen);
        vs_init(&cursor_seen);
        drv_note("plan item cfg=%s depth=%d nodedup_depth=%d prefix_len=%d", item, d, nd, npfx);
        if (nd > 0)
          explore(nd, 0);
        if (d > 0 && !stop_now)
          explore(d, 1);
        n_plan_items++;
      }
      free(copy);
    }
  }

  {
    vh_buf_t b;
    hist_t s;
    memset(&s, 0, sizeof(s));
    vb_init(&b);
    vb_printf(&b, "{\"cfg\":\"%s\",\"alphabet\":[", cfgtxt);
    {
      int a;
      for (a = 0; a < nalpha; a++) {
        vb_printf(&b, "%s\"", a ? "," : "");
        kop_print(&alpha[a], &b);
        vb_printf(&b, "\"");
      }
    }
    vb_printf(&b, "],\"example_history\":\"");
    s.n = 3; s.ops[0] = alpha[0]; s.ops[1] = alpha[nalpha > 20 ? 17 : 1]; s.ops[2] = alpha[nalpha - 1];
    khist_print(s.ops, s.n, &b);
    vb_printf(&b, "\"}");
    if (drv.shard == 0)
      drv_sample(b.p);
    vb_free(&b);
  }
  {
    char r[1400];
    snprintf(r, sizeof(r),
             "\"evaluations\":%llu,\"states\":%llu,\"transitions\":%llu,\"traces_validated_against_impl\":%llu,"
             "\"duplicate_states_pruned\":%llu,\"replay_twice_checks\":%llu,\"scheduling_points\":%llu,"
             "\"cursor_sequences\":%llu,\"cursor_full_signatures\":%llu,\"layout_signatures\":%llu,"
             "\"tables_decoded\":%llu,\"table_entries_checked\":%llu,\"reopen_layout_checks\":%llu,\"plan_items\":%d,\"max_depth_dedup\":%d,\"max_depth_nodedup\":%d,\"max_level_reached\":%d,\"alphabet_size\":%d,\"exhaustive\":%s",
             (unsigned long long)n_exec, (unsigned long long)n_states, (unsigned long long)n_trans,
             (unsigned long long)n_exec, (unsigned long long)n_dup, (unsigned long long)n_replay2,
             (unsigned long long)n_points, (unsigned long long)n_cursor_seqs, (unsigned long long)n_cursor_sigs,
             (unsigned long long)n_layout_sigs, (unsigned long long)lay_stats.files, (unsigned long long)lay_stats.entries, (unsigned long long)n_reopen_layout_checks, n_plan_items, max_depth_done, max_ndepth_done, max_level_seen, nalpha,
             stop_now ? "false" : "true");
    drv_result(r);
  }
  return 0;
}
