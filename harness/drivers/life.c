/* VH_LINK: kv
 * life.c - C20: lifecycle operations are exclusive, complete and non-destructive.
 *
 *  lock     all sequences (length <= n) over {open A, close A, second open in the same
 *           process (must fail), failed open (error_if_exists), failed open (other
 *           comparator), lock attempt by a foreign process}: the foreign process gets
 *           the lock IFF this process holds no open handle.  fcntl(F_SETLK) has POSIX
 *           semantics in the VFS, including "closing ANY descriptor of the file drops
 *           the process's lock".
 *  backup   for every state of a history exploration: ldb_backup, open the copy
 *           independently (contents == source model at that moment), write to the
 *           source, reopen the copy (unchanged), source still right; ldb_copy of the
 *           closed database likewise.
 *  destroy  database files + foreign files + foreign sub-directory: after ldb_destroy
 *           exactly the foreign entries remain.
 *  cmp      open with another comparator is refused and leaves every database file
 *           byte-identical.
 */
#define _GNU_SOURCE
#include <stdlib.h>
#include <string.h>
#include <sys/stat.h>
#include "kv.h"

int ldb_copy(const char *from, const char *to, const ldb_dbopt_t *options);
int ldb_destroy(const char *dbname, const ldb_dbopt_t *options);

#define MAXOPS 16
static const char *DB = "/vfs/db";
static kcfg_t cfg;
static uint64_t n_lock_seqs, n_backup_states, n_destroy, n_cmp, n_eval;
static int stop_now;

typedef struct res_s { int ok; char sig[64]; char err[500]; } res_t;

static void
rfail(res_t *r, const char *sig, const char *msg) {
  if (!r->ok) return;
  r->ok = 0;
  snprintf(r->sig, sizeof(r->sig), "%s", sig);
  snprintf(r->err, sizeof(r->err), "%s", msg);
}

/* ---------------- lock sequences ---------------- */

enum { L_OPEN = 0, L_CLOSE, L_OPEN2, L_FAIL_EXISTS, L_FAIL_CMP, L_FOREIGN, L_NKINDS };
static const char *lname[] = {"open", "close", "second-open", "open(error_if_exists)", "open(other comparator)", "foreign-process-lock"};

typedef struct lockjob_s { int n; int ops[8]; res_t r; } lockjob_t;

static int
other_compare(const ldb_comparator_t *c, const ldb_slice_t *x, const ldb_slice_t *y) {
  size_t n = x->size < y->size ? x->size : y->size;
  int r = n ? memcmp(x->data, y->data, n) : 0;
  (void)c;
  if (r == 0) r = (x->size < y->size) ? -1 : (x->size > y->size);
  return r;
}

static void
lock_body(void *arg) {
  lockjob_t *j = arg;
  kopt_t o;
  ldb_t *a = NULL;
  int i;
  char m[400];
  static ldb_comparator_t other;
  j->r.ok = 1;
  kopt_init(&o, &cfg);
  ldb_comparator_init(&other, "verif.OtherComparator", other_compare, NULL);
  /* the database exists already (created once before the sequence) */
  for (i = 0; i < j->n && j->r.ok; i++) {
    int rc;
    ldb_t *b = NULL;
    switch (j->ops[i]) {
      case L_OPEN:
        if (a) break;
        rc = ldb_open(DB, &o.opt, &a);
        if (rc != LDB_OK) {
          snprintf(m, sizeof(m), "step %d: open of an unlocked database failed with %d (%s): a lock was not released by an earlier close or failed open", i, rc, ldb_strerror(rc));
          rfail(&j->r, "lock-not-released", m);
          a = NULL;
        }
        sch_drain();
        break;
      case L_CLOSE:
        if (a) { ldb_close(a); a = NULL; }
        break;
      case L_OPEN2:
        rc = ldb_open(DB, &o.opt, &b);
        if (a && rc == LDB_OK) {
          rfail(&j->r, "second-handle-opened", "a second ldb_open of the same directory succeeded while a handle is open");
          ldb_close(b);
        } else if (!a && rc == LDB_OK) {
          sch_drain();
          ldb_close(b); /* acts as open+close */
        }
        break;
      case L_FAIL_EXISTS: {
        ldb_dbopt_t o2 = o.opt;
        o2.error_if_exists = 1;
        rc = ldb_open(DB, &o2, &b);
        if (rc == LDB_OK) { rfail(&j->r, "error-if-exists-ignored", "open with error_if_exists succeeded on an existing database"); ldb_close(b); }
        break;
      }
      case L_FAIL_CMP: {
        ldb_dbopt_t o2 = o.opt;
        o2.comparator = &other;
        rc = ldb_open(DB, &o2, &b);
        if (rc == LDB_OK) { rfail(&j->r, "comparator-mismatch-accepted", "open with a different comparator succeeded"); ldb_close(b); }
        break;
      }
      case L_FOREIGN: {
        char lp[300];
        int got;
        snprintf(lp, sizeof(lp), "%s/LOCK", DB);
        got = vfs_foreign_trylock(vfs_cur, lp);
        if (got) vfs_foreign_unlock(vfs_cur, lp);
        if (a && got) {
          snprintf(m, sizeof(m), "step %d: another process obtains the database lock while this process still holds an open handle (the advisory lock was dropped)", i);
          rfail(&j->r, "lock-lost-while-open", m);
        }
        if (!a && !got) {
          snprintf(m, sizeof(m), "step %d: another process cannot lock the database although this process holds no handle", i);
          rfail(&j->r, "lock-not-released", m);
        }
        break;
      }
    }
  }
  if (a) ldb_close(a);
  kopt_clear(&o);
}

static void
create_db_body(void *arg) {
  khist_t h;
  kop_t op;
  (void)arg;
  kh_init(&h, &cfg, DB);
  if (kh_open(&h) != LDB_OK) vh_die("create failed");
  kop_parse(&op, "P0.1", NULL);
  kh_apply(&h, &op);
  kh_clear(&h);
}

static vfs_t *fresh_db(void) {
  sch_cfg_t sc;
  vfs_t *v = vfs_new(), *c;
  memset(&sc, 0, sizeof(sc));
  sc.step_max = 1000000;
  vfs_use(v);
  if (sch_run(create_db_body, NULL, &sc) != SCH_OK) vh_die("create did not complete");
  c = vfs_clone(v);
  vfs_free(v);
  return c;
}

static void
report(const char *kind, const char *payload, const res_t *r) {
  vh_buf_t rp, dt;
  vb_init(&rp); vb_init(&dt);
  vb_printf(&rp, "{\"part\":\"%s\",%s}", kind, payload);
  vb_printf(&dt, "%s: %s", payload, r->err);
  drv_viol(r->sig, dt.p, rp.p);
  vb_free(&rp); vb_free(&dt);
}

static void
run_lock_seq(vfs_t *tmpl, const int *ops, int n) {
  lockjob_t j;
  sch_cfg_t sc;
  vfs_t *v = vfs_clone(tmpl);
  int i;
  memset(&j, 0, sizeof(j));
  j.n = n;
  for (i = 0; i < n; i++) j.ops[i] = ops[i];
  memset(&sc, 0, sizeof(sc));
  sc.step_max = 1000000;
  vfs_use(v);
  {
    char b[200]; int p = 0;
    for (i = 0; i < n; i++) p += snprintf(b + p, sizeof(b) - (size_t)p, "%s%d", i ? "," : "", ops[i]);
    drv_case("{\"part\":\"lock\",\"seq\":[%s]}", b);
  }
  if (sch_run(lock_body, &j, &sc) != SCH_OK) { j.r.ok = 1; rfail(&j.r, "lifecycle-hang", sch_describe_block()); }
  n_lock_seqs++;
  n_eval++;
  if (!j.r.ok) {
    char b[400]; int p = 0;
    p += snprintf(b + p, sizeof(b) - (size_t)p, "\"seq\":[");
    for (i = 0; i < n; i++) p += snprintf(b + p, sizeof(b) - (size_t)p, "%s%d", i ? "," : "", ops[i]);
    p += snprintf(b + p, sizeof(b) - (size_t)p, "],\"names\":\"");
    for (i = 0; i < n; i++) p += snprintf(b + p, sizeof(b) - (size_t)p, "%s%s", i ? " ; " : "", lname[ops[i]]);
    snprintf(b + p, sizeof(b) - (size_t)p, "\"");
    report("lock", b, &j.r);
  }
  vfs_free(v);
}

static void
lock_sequences(int len) {
  vfs_t *tmpl = fresh_db();
  int idx[8], d, i;
  uint64_t c = 0;
  for (d = 1; d <= len && !stop_now; d++) {
    for (i = 0; i < d; i++) idx[i] = 0;
    for (;;) {
      if (drv_mine(c++)) run_lock_seq(tmpl, idx, d);
      for (i = d - 1; i >= 0; i--) { if (++idx[i] < L_NKINDS) break; idx[i] = 0; }
      if (i < 0) break;
    }
    if (drv_deadline_hit()) stop_now = 1;
  }
  vfs_free(tmpl);
}

/* ---------------- backup / copy ---------------- */

typedef struct bjob_s { int n; kop_t ops[MAXOPS]; int starve_last; res_t r; } bjob_t;

static int
same_model(khist_t *h, const kmodel_t *m, char *err, size_t en) {
  if (!ko_gets(h, m, NULL, 1) || !ko_scan(h, m, NULL, NULL, 1)) {
    snprintf(err, en, "%s", h->err);
    return 0;
  }
  return 1;
}

static void
backup_body(void *arg) {
  bjob_t *j = arg;
  khist_t h, b;
  kmodel_t at_backup;
  int i, rc;
  char m[600], e[500];
  kop_t w;
  j->r.ok = 1;
  kh_init(&h, &cfg, DB);
  if (kh_open(&h) != LDB_OK) { rfail(&j->r, "open-failed", "open failed"); kh_clear(&h); return; }
  for (i = 0; i < j->n; i++) {
    if (j->starve_last && i == j->n - 1) h.auto_drain = 0;   /* immutable memtable may still be pending */
    if (kh_apply(&h, &j->ops[i]) != LDB_OK) { rfail(&j->r, "op-status", "operation failed"); kh_clear(&h); return; }
  }
  at_backup = h.model;
  rc = ldb_backup(h.db, "/vfs/bak");
  h.auto_drain = 1;
  if (rc != LDB_OK) {
    snprintf(m, sizeof(m), "ldb_backup returned %d (%s)", rc, ldb_strerror(rc));
    rfail(&j->r, "backup-failed", m);
    kh_clear(&h);
    return;
  }
  /* the copy opens independently and equals the source at that moment */
  kh_init(&b, &cfg, "/vfs/bak");
  if (kh_open(&b) != LDB_OK) {
    snprintf(m, sizeof(m), "the backup does not open: status %d (%s)", b.open_status, ldb_strerror(b.open_status));
    rfail(&j->r, "backup-unopenable", m);
  } else if (!same_model(&b, &at_backup, e, sizeof(e))) {
    snprintf(m, sizeof(m), "backup contents differ from the source at the moment of the backup: %s", e);
    rfail(&j->r, "backup-contents-wrong", m);
  }
  kh_close(&b);
  /* writing to the source does not change the copy; the source stays right */
  kop_parse(&w, "P0.1", NULL);
  kh_apply(&h, &w);
  kop_parse(&w, "D1", NULL);
  kh_apply(&h, &w);
  kop_parse(&w, "F", NULL);
  kh_apply(&h, &w);
  kop_parse(&w, "C", NULL);
  kh_apply(&h, &w);
  if (j->r.ok && !same_model(&h, &h.model, e, sizeof(e))) {
    snprintf(m, sizeof(m), "the source database is wrong after a backup was taken: %s", e);
    rfail(&j->r, "source-damaged-by-backup", m);
  }
  if (j->r.ok) {
    if (kh_open(&b) != LDB_OK) rfail(&j->r, "backup-unopenable", "the backup does not open a second time");
    else if (!same_model(&b, &at_backup, e, sizeof(e))) {
      snprintf(m, sizeof(m), "writes to the source changed the backup: %s", e);
      rfail(&j->r, "backup-not-independent", m);
    }
    /* and the other way round: a write made through the backup, a flush and a reopen of it leave the source alone */
    if (j->r.ok && b.db) {
      b.model = at_backup;
      b.nops = h.nops + 20;
      kop_parse(&w, "P2.1", NULL);
      kh_apply(&b, &w);
      kop_parse(&w, "F", NULL);
      kh_apply(&b, &w);
      kh_close(&b);
      if (kh_open(&b) != LDB_OK || !same_model(&b, &b.model, e, sizeof(e))) {
        snprintf(m, sizeof(m), "the backup is not a usable database of its own (write, flush, reopen): %s", b.db ? e : "does not reopen");
        rfail(&j->r, "backup-not-independent", m);
      }
      if (j->r.ok && !same_model(&h, &h.model, e, sizeof(e))) {
        snprintf(m, sizeof(m), "writes made through the backup changed the source: %s", e);
        rfail(&j->r, "source-damaged-by-backup", m);
      }
      at_backup = b.model;
    }
    kh_close(&b);
  }
  /* a backup onto a destination that already holds a database (the earlier backup, the source's own
     directory) may be refused or may succeed, but it never damages what is already there: the earlier
     backup still opens with the contents of one of the two moments, the source stays right */
  if (j->r.ok) {
    kmodel_t second = h.model;
    int rc2 = ldb_backup(h.db, "/vfs/bak");
    int rc3 = ldb_backup(h.db, DB);
    (void)rc3;
    if (kh_open(&b) != LDB_OK) {
      snprintf(m, sizeof(m), "after a second ldb_backup onto the existing backup (status %d) the earlier backup does not open: status %d (%s)", rc2, b.open_status, ldb_strerror(b.open_status));
      rfail(&j->r, "existing-backup-destroyed", m);
    } else if (!same_model(&b, rc2 == LDB_OK ? &second : &at_backup, e, sizeof(e))) {
      snprintf(m, sizeof(m), "after a second ldb_backup onto the existing backup (status %d) its contents are wrong: %s", rc2, e);
      rfail(&j->r, "existing-backup-destroyed", m);
    }
    kh_close(&b);
    if (j->r.ok && !same_model(&h, &h.model, e, sizeof(e))) {
      snprintf(m, sizeof(m), "the source database is wrong after backups onto existing destinations: %s", e);
      rfail(&j->r, "source-damaged-by-backup", m);
    }
    at_backup = rc2 == LDB_OK ? second : at_backup;
  }
  {
    kmodel_t bak_model = at_backup;
    at_backup = h.model;
    kh_close(&h);
    /* ldb_copy onto the existing backup and onto itself: same rule */
    if (j->r.ok) {
      int rc4 = ldb_copy(DB, "/vfs/bak", &h.o.opt);
      int rc5 = ldb_copy(DB, DB, &h.o.opt);
      (void)rc5;
      if (kh_open(&b) != LDB_OK) {
        snprintf(m, sizeof(m), "after ldb_copy onto the existing backup (status %d) the earlier backup does not open: status %d (%s)", rc4, b.open_status, ldb_strerror(b.open_status));
        rfail(&j->r, "existing-backup-destroyed", m);
      } else if (!same_model(&b, rc4 == LDB_OK ? &at_backup : &bak_model, e, sizeof(e))) {
        snprintf(m, sizeof(m), "after ldb_copy onto the existing backup (status %d) its contents are wrong: %s", rc4, e);
        rfail(&j->r, "existing-backup-destroyed", m);
      }
      kh_close(&b);
    }
  }
  /* ldb_copy of the closed database */
  if (j->r.ok) {
    rc = ldb_copy(DB, "/vfs/cpy", &h.o.opt);
    if (rc != LDB_OK) {
      snprintf(m, sizeof(m), "ldb_copy of a closed database returned %d (%s)", rc, ldb_strerror(rc));
      rfail(&j->r, "copy-failed", m);
    } else {
      khist_t c;
      kh_init(&c, &cfg, "/vfs/cpy");
      if (kh_open(&c) != LDB_OK) rfail(&j->r, "copy-unopenable", "the copy does not open");
      else if (!same_model(&c, &at_backup, e, sizeof(e))) {
        snprintf(m, sizeof(m), "copy contents differ from the source: %s", e);
        rfail(&j->r, "copy-contents-wrong", m);
      }
      /* independence in BOTH directions (the copy shares no mutable file with the source): a write made
         through the copy never shows up in the source, a write made to the source afterwards never shows up
         in the copy; both survive their own reopen */
      c.model = at_backup;
      c.nops = h.nops + 20;   /* value ids of the copy's writes differ from every write of the source */
      if (j->r.ok && c.db) {
        kop_parse(&w, "P2.1", NULL);
        kh_apply(&c, &w);
        kop_parse(&w, "D0", NULL);
        kh_apply(&c, &w);
      }
      kh_close(&c);
      if (j->r.ok && kh_open(&h) == LDB_OK) {
        if (!same_model(&h, &at_backup, e, sizeof(e))) {
          snprintf(m, sizeof(m), "the source changed after ldb_copy (and writes made through the copy): %s", e);
          rfail(&j->r, "source-damaged-by-copy", m);
        }
        h.nops += 2;
        kop_parse(&w, "P0.1", NULL);
        kh_apply(&h, &w);
        kop_parse(&w, "D1", NULL);
        kh_apply(&h, &w);
        kh_close(&h);
        if (j->r.ok) {
          if (kh_open(&c) != LDB_OK) rfail(&j->r, "copy-unopenable", "the copy does not open a second time");
          else if (!same_model(&c, &c.model, e, sizeof(e))) {
            snprintf(m, sizeof(m), "writes made to the source after ldb_copy changed the copy (or the copy lost its own writes): %s", e);
            rfail(&j->r, "copy-not-independent", m);
          }
          kh_close(&c);
        }
        if (j->r.ok) {
          if (kh_open(&h) != LDB_OK) rfail(&j->r, "source-damaged-by-copy", "source does not reopen");
          else if (!same_model(&h, &h.model, e, sizeof(e))) {
            snprintf(m, sizeof(m), "the source is wrong after reopening the copy: %s", e);
            rfail(&j->r, "source-damaged-by-copy", m);
          }
        }
      } else if (j->r.ok) rfail(&j->r, "source-damaged-by-copy", "source does not open after ldb_copy");
      kh_clear(&c);
    }
  }
  kh_clear(&b);
  kh_clear(&h);
}

static kop_t balpha[16];
static int nbalpha;
static void add_b(const char *s) { if (!kop_parse(&balpha[nbalpha], s, NULL)) vh_die("bad op"); nbalpha++; }

static void
run_backup(const kop_t *ops, int n, int starve) {
  bjob_t j;
  sch_cfg_t sc;
  vfs_t *v = vfs_new();
  vh_buf_t hb;
  memset(&j, 0, sizeof(j));
  j.n = n;
  memcpy(j.ops, ops, sizeof(kop_t) * (size_t)n);
  j.starve_last = starve;
  memset(&sc, 0, sizeof(sc));
  sc.hook_points = 1;
  sc.step_max = 4000000;
  vfs_use(v);
  vb_init(&hb);
  khist_print(ops, n, &hb);
  drv_case("{\"part\":\"backup\",\"history\":\"%s\",\"starve\":%d}", hb.p ? hb.p : "", starve);
  if (sch_run(backup_body, &j, &sc) != SCH_OK) { j.r.ok = 1; rfail(&j.r, "lifecycle-hang", sch_describe_block()); }
  n_backup_states++;
  n_eval++;
  if (!j.r.ok) {
    char b[700];
    snprintf(b, sizeof(b), "\"history\":\"%s\",\"starve\":%d", hb.p ? hb.p : "", starve);
    report("backup", b, &j.r);
  }
  vb_free(&hb);
  vfs_free(v);
}

static const char *bscripted[] = {
  "P0.1 F P0.1 F P1.1 F P0.1 F",
  "P0.2 P1.2 P2.2 P0.2 P1.2 P2.2 F P0.2 P1.2 P2.2",
  "P1.1 F D1 F P2.2",
  NULL
};

static void
backup_states(int len) {
  int idx[8], d, i, s;
  uint64_t c = 0;
  kop_t ops[MAXOPS];
  for (s = 0; bscripted[s] && !stop_now; s++) {
    int n = khist_parse(ops, MAXOPS, bscripted[s]);
    if (drv_mine(c++)) run_backup(ops, n, 0);
    if (drv_mine(c++)) run_backup(ops, n, 1);
  }
  for (d = 1; d <= len && !stop_now; d++) {
    for (i = 0; i < d; i++) idx[i] = 0;
    for (;;) {
      for (i = 0; i < d; i++) ops[i] = balpha[idx[i]];
      if (drv_mine(c++)) run_backup(ops, d, 0);
      if (drv_mine(c++)) run_backup(ops, d, 1);
      if (drv_deadline_hit()) { stop_now = 1; break; }
      for (i = d - 1; i >= 0; i--) { if (++idx[i] < nbalpha) break; idx[i] = 0; }
      if (i < 0) break;
    }
  }
}

/* ---------------- destroy / comparator ---------------- */

/* destroy variants: 0 = foreign entries only; 1 = + the database's own LOG / LOG.old and a lost/ directory
 * left by a repair holding own-named and foreign files; 2 = lost/ is itself a database (has CURRENT): not
 * this database's files; 3 = nothing foreign: the directory itself goes away; 4 = the directory does not exist */
static int destroy_variant;

static int
expect_dir(res_t *r, const char *dir, const char **want, int nw, int rc, const char *what) {
  char names[64][64];
  char m[400];
  int n = vfs_list(vfs_cur, dir, names, 64), i, bad = (n != nw), p;
  for (i = 0; i < n && i < nw && !bad; i++)
    if (strcmp(names[i], want[i]) != 0) bad = 1;
  if (!bad)
    return 1;
  p = snprintf(m, sizeof(m), "variant %d: after ldb_destroy (status %d) %s holds:", destroy_variant, rc, what);
  for (i = 0; i < n && p < 300; i++) p += snprintf(m + p, sizeof(m) - (size_t)p, " %s", names[i]);
  p += snprintf(m + p, sizeof(m) - (size_t)p, " ; expected exactly:");
  for (i = 0; i < nw && p < 380; i++) p += snprintf(m + p, sizeof(m) - (size_t)p, " %s", want[i]);
  rfail(r, "destroy-wrong-file-set", m);
  return 0;
}

static void
destroy_body(void *arg) {
  res_t *r = arg;
  khist_t h;
  kop_t ops[MAXOPS];
  int n, i, rc, V = destroy_variant;
  r->ok = 1;
  kh_init(&h, &cfg, DB);
  if (V == 4) {
    rc = ldb_destroy(DB, &h.o.opt);
    if (rc != LDB_OK) rfail(r, "destroy-status", "ldb_destroy of a directory that does not exist reports an error");
    kh_clear(&h);
    return;
  }
  if (kh_open(&h) != LDB_OK) { rfail(r, "open-failed", "open failed"); kh_clear(&h); return; }
  n = khist_parse(ops, MAXOPS, "P0.1 F P0.1 F P1.2 P1.2 P1.2 P1.2 P2.1");
  for (i = 0; i < n; i++) kh_apply(&h, &ops[i]);
  kh_close(&h);
  if (V <= 2) {
    /* foreign entries: ordinary files, names that only resemble database files, a sub-directory */
    vfs_put_file(vfs_cur, "/vfs/db/notes.txt", "keep", 4);
    vfs_put_file(vfs_cur, "/vfs/db/000001.bak", "keep", 4);
    vfs_put_file(vfs_cur, "/vfs/db/MANIFEST", "keep", 4);
    vfs_put_file(vfs_cur, "/vfs/db/CURRENT.old", "keep", 4);
    vfs_put_file(vfs_cur, "/vfs/db/12x.log", "keep", 4);
    mkdir("/vfs/db/sub", 0755);
    vfs_put_file(vfs_cur, "/vfs/db/sub/000005.ldb", "keep", 4);
  }
  if (V >= 1 && V <= 3) {
    vfs_put_file(vfs_cur, "/vfs/db/LOG", "info", 4);
    vfs_put_file(vfs_cur, "/vfs/db/LOG.old", "info", 4);
    mkdir("/vfs/db/lost", 0755);
    vfs_put_file(vfs_cur, "/vfs/db/lost/000007.ldb", "x", 1);
    vfs_put_file(vfs_cur, "/vfs/db/lost/000009.log", "x", 1);
    vfs_put_file(vfs_cur, "/vfs/db/lost/MANIFEST-000004", "x", 1);
    if (V != 3)
      vfs_put_file(vfs_cur, "/vfs/db/lost/readme", "keep", 4);
    if (V == 2)
      vfs_put_file(vfs_cur, "/vfs/db/lost/CURRENT", "MANIFEST-000004\n", 16);
  }
  rc = ldb_destroy(DB, &h.o.opt);
  if (V == 0) {
    static const char *want[] = {"000001.bak", "12x.log", "CURRENT.old", "MANIFEST", "notes.txt", "sub"};
    expect_dir(r, DB, want, 6, rc, "the directory");
  } else if (V == 1) {
    static const char *want[] = {"000001.bak", "12x.log", "CURRENT.old", "MANIFEST", "lost", "notes.txt", "sub"};
    static const char *wantl[] = {"readme"};
    if (expect_dir(r, DB, want, 7, rc, "the directory"))
      expect_dir(r, "/vfs/db/lost", wantl, 1, rc, "lost/");
  } else if (V == 2) {
    static const char *want[] = {"000001.bak", "12x.log", "CURRENT.old", "MANIFEST", "lost", "notes.txt", "sub"};
    static const char *wantl[] = {"000007.ldb", "000009.log", "CURRENT", "MANIFEST-000004", "readme"};
    if (expect_dir(r, DB, want, 7, rc, "the directory"))
      expect_dir(r, "/vfs/db/lost", wantl, 5, rc, "lost/ (a database of its own: it has a CURRENT)");
  } else if (V == 3) {
    if (vfs_lookup(vfs_cur, DB) >= 0) {
      static const char *none[] = {""};
      expect_dir(r, DB, none, 0, rc, "the directory (which should be gone: nothing foreign was in it)");
      if (r->ok) rfail(r, "destroy-wrong-file-set", "variant 3: the emptied database directory was not removed");
    }
  }
  if (r->ok && V <= 2 && vfs_lookup(vfs_cur, "/vfs/db/sub/000005.ldb") < 0)
    rfail(r, "destroy-wrong-file-set", "ldb_destroy removed a file inside a foreign sub-directory");
  if (r->ok && rc != LDB_OK) {
    char m[100];
    snprintf(m, sizeof(m), "variant %d: ldb_destroy returned %d although every own file could be removed", V, rc);
    rfail(r, "destroy-status", m);
  }
  kh_clear(&h);
}

static void
cmp_body(void *arg) {
  res_t *r = arg;
  khist_t h;
  kop_t ops[MAXOPS];
  int n, i, rc;
  uint64_t before, after;
  ldb_dbopt_t o2;
  static ldb_comparator_t other;
  ldb_t *b = NULL;
  r->ok = 1;
  kh_init(&h, &cfg, DB);
  if (kh_open(&h) != LDB_OK) { rfail(r, "open-failed", "open failed"); kh_clear(&h); return; }
  n = khist_parse(ops, MAXOPS, "P0.1 F P0.1 P1.2");
  for (i = 0; i < n; i++) kh_apply(&h, &ops[i]);
  kh_close(&h);
  before = vfs_hash(vfs_cur, DB, 1);
  {
    /* every name that is not exactly the stored one is a different comparator: unrelated, the stored name
     * extended, a strict prefix of it, same length with another last byte, another case, empty */
    const char *stored = h.o.opt.comparator ? h.o.opt.comparator->name : ldb_bytewise_comparator->name;
    static char names[6][96];
    int q;
    snprintf(names[0], sizeof(names[0]), "verif.OtherComparator");
    snprintf(names[1], sizeof(names[1]), "%s2", stored);
    snprintf(names[2], sizeof(names[2]), "%.*s", (int)strlen(stored) - 1, stored);
    snprintf(names[3], sizeof(names[3]), "%.*s#", (int)strlen(stored) - 1, stored);
    snprintf(names[4], sizeof(names[4]), "%s", stored);
    names[4][0] = (char)(names[4][0] ^ 0x20);
    names[5][0] = 0;
    for (q = 0; q < 6 && r->ok; q++) {
      char m[200];
      ldb_comparator_init(&other, names[q], other_compare, NULL);
      o2 = h.o.opt;
      o2.comparator = &other;
      b = NULL;
      rc = ldb_open(DB, &o2, &b);
      if (rc == LDB_OK) {
        snprintf(m, sizeof(m), "open with a comparator named '%s' succeeded on a database created with '%s'", names[q], stored);
        rfail(r, "comparator-mismatch-accepted", m);
        ldb_close(b);
      }
      after = vfs_hash(vfs_cur, DB, 1);
      if (r->ok && before != after) {
        snprintf(m, sizeof(m), "a refused open (comparator '%s' vs stored '%s') changed database files", names[q], stored);
        rfail(r, "refused-open-modified-database", m);
      }
    }
  }
  o2 = h.o.opt;
  o2.error_if_exists = 1;
  rc = ldb_open(DB, &o2, &b);
  if (rc == LDB_OK) { rfail(r, "error-if-exists-ignored", "error_if_exists ignored"); ldb_close(b); }
  after = vfs_hash(vfs_cur, DB, 1);
  if (r->ok && before != after)
    rfail(r, "refused-open-modified-database", "a refused open (error_if_exists) changed database files");
  if (r->ok) {
    if (kh_open(&h) != LDB_OK || !ko_gets(&h, &h.model, NULL, 1))
      rfail(r, "refused-open-modified-database", "the database is not intact after refused opens");
  }
  kh_clear(&h);
}

static void
run_simple(void (*body)(void *), const char *part) {
  res_t r;
  sch_cfg_t sc;
  vfs_t *v = vfs_new();
  memset(&r, 0, sizeof(r));
  memset(&sc, 0, sizeof(sc));
  sc.hook_points = 1;
  sc.step_max = 4000000;
  vfs_use(v);
  drv_case("{\"part\":\"%s\"}", part);
  if (sch_run(body, &r, &sc) != SCH_OK) { r.ok = 1; rfail(&r, "lifecycle-hang", sch_describe_block()); }
  n_eval++;
  if (!r.ok) report(part, "\"x\":0", &r);
  vfs_free(v);
}

int
main(int argc, char **argv) {
  const char *cfgs, *parts;
  char *copy, *save = NULL, *item;
  int locklen, blen, first_item = 1;
  drv_init(argc, argv);
  kv_set_universe(1);
  cfgs = drv_opt("cfgs", "B1");
  parts = drv_opt("parts", "lock,backup,destroy,cmp");
  locklen = (int)drv_opt_long("locklen", 4);
  blen = (int)drv_opt_long("len", 2);
  add_b("P0.1"); add_b("P1.2"); add_b("D0"); add_b("B[P0.1,D1,P2.1]"); add_b("F"); add_b("R0:-:-"); add_b("O");

  if (drv.replay) {
    if (!kcfg_parse(&cfg, "B1")) vh_die("cfg");
    if (strstr(drv.replay, "\"part\":\"lock\"")) {
      const char *p = strstr(drv.replay, "\"seq\":[");
      int ops[8], n = 0;
      vfs_t *tmpl = fresh_db();
      if (!p) vh_die("bad replay");
      p += 7;
      while (*p && *p != ']' && n < 8) { ops[n++] = (int)strtol(p, (char **)&p, 10); if (*p == ',') p++; }
      run_lock_seq(tmpl, ops, n);
    } else if (strstr(drv.replay, "\"part\":\"backup\"")) {
      char hb[600] = "";
      kop_t ops[MAXOPS];
      const char *p = strstr(drv.replay, "\"history\":\"");
      int n, st = 0;
      if (!p) vh_die("bad replay");
      sscanf(p + 11, "%599[^\"]", hb);
      p = strstr(drv.replay, "\"starve\":");
      if (p) st = atoi(p + 9);
      n = khist_parse(ops, MAXOPS, hb);
      if (n < 0) vh_die("bad history");
      run_backup(ops, n, st);
    } else if (strstr(drv.replay, "destroy")) {
      const char *pv = strstr(drv.replay, "destroy");
      destroy_variant = (pv[7] >= '0' && pv[7] <= '4') ? pv[7] - '0' : 0;
      {
        char nm[16];
        snprintf(nm, sizeof(nm), "destroy%d", destroy_variant);
        run_simple(destroy_body, nm);
      }
    } else run_simple(cmp_body, "cmp");
    if (!drv_nviol()) printf("REPLAY-OK\n");
    drv_result("\"evaluations\":1");
    return 0;
  }

  copy = strdup(cfgs);
  for (item = strtok_r(copy, ";", &save); item && !stop_now; item = strtok_r(NULL, ";", &save)) {
    if (!kcfg_parse(&cfg, item)) vh_die("bad cfg");
    if (strstr(parts, "lock") && (first_item || drv.thorough)) lock_sequences(locklen);   /* quick: the first configuration only */
    first_item = 0;
    if (strstr(parts, "backup")) backup_states(blen);
    if (strstr(parts, "destroy") && drv.shard == 0) {
      static const char *dn[] = {"destroy0", "destroy1", "destroy2", "destroy3", "destroy4"};
      for (destroy_variant = 0; destroy_variant < 5; destroy_variant++) { run_simple(destroy_body, dn[destroy_variant]); n_destroy++; }
    }
    if (strstr(parts, "cmp") && drv.shard == 0) { run_simple(cmp_body, "cmp"); n_cmp++; }
    drv_note("cfg %s: lock sequences <= %d over 6 steps; backup/copy after every history <= %d over %d ops (drained and with the last op's background work pending) + 3 scripted layouts; destroy with 6 foreign entries; refused opens", item, locklen, blen, nbalpha);
  }
  free(copy);
  if (drv.shard == 0)
    drv_sample("{\"lock_sequence\":\"open ; second-open ; foreign-process-lock ; close\",\"invariant\":\"foreign lock succeeds iff no handle is open\"}");
  {
    char r[400];
    snprintf(r, sizeof(r), "\"evaluations\":%llu,\"states\":%llu,\"transitions\":%llu,\"traces_validated_against_impl\":%llu,\"lock_sequences\":%llu,\"backup_states\":%llu,\"destroy_runs\":%llu,\"refused_open_runs\":%llu,\"exhaustive\":%s",
             (unsigned long long)n_eval, (unsigned long long)n_eval, (unsigned long long)n_eval, (unsigned long long)n_eval,
             (unsigned long long)n_lock_seqs, (unsigned long long)n_backup_states, (unsigned long long)n_destroy, (unsigned long long)n_cmp, stop_now ? "false" : "true");
    drv_result(r);
  }
  return 0;
}
