/* c17_edit.c - C17 (encode/decode half), explorer E5: bounded exhaustive enumeration.
 *
 * Domains (all enumerated by nested loops, sharded by global case index):
 *   edit    grid of version edits: ldb_edit_export -> byte-identical to the independent
 *           rm_edit_encode of the intended contents (standard field order) -> rm_edit_decode
 *           gives the intended contents -> ldb_edit_import accepts -> imported struct is
 *           field-identical -> re-export byte-identical
 *   lvl     an item (compact pointer / deleted file / new file) at level >= 7 must be
 *           rejected by ldb_edit_import (and by the reference decoder)
 *   prefix  every proper prefix of an encoded edit: lcdb accepts iff the reference accepts,
 *           and then both describe the same edit
 *   v32     varint32 write/size/read against the reference for a range of values
 *   v64     varint64 boundary values
 *   diff    arbitrary byte strings: ldb_edit_import / ldb_varint32_read / ldb_varint64_read
 *           agree with the reference decoders on accept/reject, value and bytes consumed
 *   fold    fixed self-test of the reference fold (rm_state_*), run by shard 0
 *
 * Case text (drv_case / --replay):
 *   edit m=<mask> v=<vi> cs=<cs> L=<lvl> K=<keyshape> F=<n> D=<n> C=<n>
 *   lvl kind=<0..2> level=<n>
 *   prefix m=.. v=.. cs=.. L=.. K=.. F=.. D=.. C=..
 *   v32 chunk=<c>            values [c*2^20, (c+1)*2^20)
 *   v32win lo=<a> hi=<b>     values a..b inclusive
 *   v64 x=<hex>
 *   diff hex=<bytes>
 */
#include <inttypes.h>
#include "drv.h"
#include "rm_manifest.h"

#include "util/buffer.h"
#include "util/coding.h"
#include "util/rbt.h"
#include "util/slice.h"
#include "util/vector.h"
#include "dbformat.h"
#include "version_edit.h"

/* Page faults are very expensive on the verification host and ASan's default 256 MiB
 * quarantine plus periodic release-to-OS keeps touching fresh pages; a small quarantine
 * still catches an immediate use-after-free.  The environment can override this. */
const char *__asan_default_options(void);
const char *
__asan_default_options(void) {
  return "quarantine_size_mb=16:allocator_release_to_os_interval_ms=-1";
}

/* ------------------------------------------------------------------ */
/* declared value domains                                             */
/* ------------------------------------------------------------------ */

#define P2(k) (UINT64_C(1) << (k))
static const uint64_t VALS[] = {
  0, 1, 127, 128, 16383, 16384, P2(21) - 1, P2(21), P2(21) + 1, P2(28) - 1, P2(28), P2(28) + 1,
  P2(32) - 1, P2(32), P2(35) - 1, P2(35), P2(42) - 1, P2(42), P2(49) - 1, P2(49),
  P2(56) - 1, P2(56), P2(63) - 1, P2(63), UINT64_MAX
};
#define NV ((int)(sizeof(VALS) / sizeof(VALS[0])))

enum { K_MIN8, K_9, K_16FF, K_127, K_128, K_300, K_16383, K_16384, NK };
static const size_t KLEN[NK] = {8, 9, 16, 127, 128, 300, 16383, 16384};
#define K_BIG K_16383 /* shapes >= K_BIG are combined only with <= 3 files */

static const int COUNTS[4] = {0, 1, 3, 2000};
static const int CPTRS[3] = {0, 1, 7};
#define NCS 3 /* comparator shapes */

typedef struct ecase_s {
  int m, vi, cs, L, K, F, D, C;
} ecase_t;

static uint64_t n_eval, n_edit, n_lvl, n_prefix, n_prefix_cuts, n_v32, n_v64, n_diff, n_diff_accept, n_fold;
static uint64_t n_edit_items;
static int exhaustive = 1;

/* ------------------------------------------------------------------ */
/* small helpers                                                      */
/* ------------------------------------------------------------------ */

static void
make_key(uint8_t *dst, int K, uint64_t salt) {
  size_t n = KLEN[K], i;
  if (K == K_16FF) {
    memset(dst, 0xff, n);
    return;
  }
  for (i = 0; i < n; i++)
    dst[i] = (uint8_t)(i * 7 + salt * 13 + (i >> 8)); /* arbitrary bytes, includes 0x00 and 0xff */
  /* make distinct salts distinct even for the 8-byte shape */
  for (i = 0; i < 8 && i < n; i++)
    dst[n - 1 - i] ^= (uint8_t)(salt >> (8 * i));
}

static void
hexs(vh_buf_t *b, const uint8_t *p, size_t n) {
  size_t i;
  for (i = 0; i < n; i++)
    vb_printf(b, "%02x", p[i]);
}

static int
unhex(const char *s, uint8_t *out, size_t cap, size_t *n) {
  size_t k = 0;
  while (s[0] && s[1] && s[0] != ' ') {
    unsigned v;
    if (sscanf(s, "%2x", &v) != 1 || k >= cap)
      return 0;
    out[k++] = (uint8_t)v;
    s += 2;
  }
  *n = k;
  return 1;
}

/* ldb_edit_t -> rm_edit_t (reads lcdb's struct; deleted files in set order) */
static void
to_rm(rm_edit_t *r, const ldb_edit_t *e) {
  rb_iter_t it;
  size_t i;
  rm_edit_init(r);
  if (e->has_comparator)
    rm_edit_set_comparator(r, e->comparator.data, e->comparator.size);
  r->has_log_number = e->has_log_number != 0;
  r->has_prev_log_number = e->has_prev_log_number != 0;
  r->has_next_file = e->has_next_file_number != 0;
  r->has_last_seq = e->has_last_sequence != 0;
  r->log_number = e->log_number;
  r->prev_log_number = e->prev_log_number;
  r->next_file = e->next_file_number;
  r->last_seq = e->last_sequence;
  for (i = 0; i < e->compact_pointers.length; i++) {
    const ikey_entry_t *c = e->compact_pointers.items[i];
    rm_edit_add_cptr(r, (uint32_t)c->level, c->key.data, c->key.size);
  }
  rb_set_each(&e->deleted_files, it) {
    const file_entry_t *d = rb_key_ptr(it);
    rm_edit_add_del(r, (uint32_t)d->level, d->number);
  }
  for (i = 0; i < e->new_files.length; i++) {
    const meta_entry_t *f = e->new_files.items[i];
    rm_edit_add_new(r, (uint32_t)f->level, f->meta.number, f->meta.file_size, f->meta.smallest.data,
                    f->meta.smallest.size, f->meta.largest.data, f->meta.largest.size);
  }
}

/* result of one check */
typedef struct verdict_s {
  const char *sig; /* NULL = held */
  char detail[600];
} verdict_t;

#define FAIL(v, s, ...) do { (v)->sig = (s); snprintf((v)->detail, sizeof((v)->detail), __VA_ARGS__); goto done; } while (0)

/* ------------------------------------------------------------------ */
/* edit grid                                                          */
/* ------------------------------------------------------------------ */

static uint8_t cmp_arbitrary[300];

static void
build_edit(const ecase_t *c, ldb_edit_t *e, rm_edit_t *x) {
  static uint8_t k1[16384], k2[16384];
  size_t kn = KLEN[c->K];
  int i;
  ldb_edit_init(e);
  rm_edit_init(x);
  if (c->m & 1) {
    if (c->cs == 0) {
      ldb_edit_set_comparator_name(e, "");
      rm_edit_set_comparator(x, "", 0);
    } else if (c->cs == 1) {
      ldb_edit_set_comparator_name(e, "leveldb.BytewiseComparator");
      rm_edit_set_comparator(x, "leveldb.BytewiseComparator", 26);
    } else {
      /* arbitrary bytes incl. NUL: set the public struct fields directly */
      ldb_buffer_set(&e->comparator, cmp_arbitrary, sizeof(cmp_arbitrary));
      e->has_comparator = 1;
      rm_edit_set_comparator(x, cmp_arbitrary, sizeof(cmp_arbitrary));
    }
  }
  if (c->m & 2) {
    ldb_edit_set_log_number(e, VALS[c->vi]);
    x->has_log_number = 1;
    x->log_number = VALS[c->vi];
  }
  if (c->m & 4) {
    ldb_edit_set_prev_log_number(e, VALS[(c->vi + 1) % NV]);
    x->has_prev_log_number = 1;
    x->prev_log_number = VALS[(c->vi + 1) % NV];
  }
  if (c->m & 8) {
    ldb_edit_set_next_file(e, VALS[(c->vi + 2) % NV]);
    x->has_next_file = 1;
    x->next_file = VALS[(c->vi + 2) % NV];
  }
  if (c->m & 16) {
    ldb_edit_set_last_sequence(e, VALS[(c->vi + 3) % NV]);
    x->has_last_seq = 1;
    x->last_seq = VALS[(c->vi + 3) % NV];
  }
  for (i = 0; i < c->C; i++) {
    ldb_slice_t ks;
    int lvl = (c->L + i) % 7;
    make_key(k1, c->K, 1000 + (uint64_t)i);
    ks = ldb_slice(k1, kn);
    ldb_edit_set_compact_pointer(e, lvl, &ks);
    rm_edit_add_cptr(x, (uint32_t)lvl, k1, kn);
  }
  for (i = 0; i < c->D; i++) {
    int lvl = (c->L + i) % 7;
    uint64_t num = VALS[c->vi] + (uint64_t)i * 3;
    /* deliberate duplicates: the set must hold each (level, number) once */
    if (c->D == 3 && i == 2)
      lvl = c->L, num = VALS[c->vi];
    if (c->D > 3 && i % 10 == 9)
      num = VALS[c->vi] + (uint64_t)(i - 7) * 3; /* same level as item i-7 */
    ldb_edit_remove_file(e, lvl, num);
    rm_edit_add_del(x, (uint32_t)lvl, num);
  }
  rm_edit_canon_dels(x);
  for (i = 0; i < c->F; i++) {
    ldb_slice_t s1, s2;
    int lvl = (c->L + i) % 7;
    uint64_t num = VALS[(c->vi + 4) % NV] + (uint64_t)i;
    uint64_t size = VALS[(c->vi + 5) % NV] - (uint64_t)i;
    if (c->F >= 3 && i == 2)
      num = VALS[(c->vi + 4) % NV]; /* the vector keeps a repeated number */
    make_key(k1, c->K, 2 * (uint64_t)i);
    make_key(k2, c->K, 2 * (uint64_t)i + 1);
    s1 = ldb_slice(k1, kn);
    s2 = ldb_slice(k2, kn);
    ldb_edit_add_file(e, lvl, num, size, &s1, &s2);
    rm_edit_add_new(x, (uint32_t)lvl, num, size, k1, kn, k2, kn);
  }
}

static void
case_text(char *buf, size_t n, const char *kind, const ecase_t *c) {
  snprintf(buf, n, "%s m=%d v=%d cs=%d L=%d K=%d F=%d D=%d C=%d", kind, c->m, c->vi, c->cs, c->L, c->K, c->F, c->D,
           c->C);
}

static int
parse_ecase(const char *s, ecase_t *c) {
  const char *p = strchr(s, ' ');
  if (!p)
    return 0;
  return sscanf(p, " m=%d v=%d cs=%d L=%d K=%d F=%d D=%d C=%d", &c->m, &c->vi, &c->cs, &c->L, &c->K, &c->F, &c->D,
                &c->C) == 8 &&
         c->m >= 0 && c->m < 32 && c->vi >= 0 && c->vi < NV && c->cs >= 0 && c->cs < NCS && c->L >= 0 && c->L < 7 &&
         c->K >= 0 && c->K < NK && c->F >= 0 && c->F <= 100000 && c->D >= 0 && c->D <= 100000 && c->C >= 0 &&
         c->C <= 100000;
}

static void
check_edit(const ecase_t *c, verdict_t *v, int sample) {
  /* The two export buffers are kept across cases (reset, not freed): a multi-megabyte
   * buffer grown by repeated realloc costs thousands of page faults per case under ASan
   * (allocations above 256 KiB are mmap'd and unmapped each time).  Exact-size input
   * blocks, which make over-reads visible, are the business of the C18 driver. */
  static ldb_buffer_t enc1, enc2;
  ldb_edit_t e, parsed;
  rm_edit_t want, got, from_src, from_parsed;
  uint8_t *ref = NULL;
  size_t refn = 0;
  char why[300];
  int rc;

  v->sig = NULL;
  build_edit(c, &e, &want);
  ldb_edit_init(&parsed);
  ldb_buffer_reset(&enc1);
  ldb_buffer_reset(&enc2);
  rm_edit_init(&got);
  rm_edit_init(&from_src);
  rm_edit_init(&from_parsed);

  /* the struct as built holds what was intended (set semantics of deleted files) */
  to_rm(&from_src, &e);
  if (!rm_edit_equal(&from_src, &want, why, sizeof(why)))
    FAIL(v, "c17:edit:struct-differs-from-intent", "after building: %s", why);

  ldb_edit_export(&enc1, &e);

  /* standard layout, byte for byte, by the independent encoder */
  ref = rm_edit_encode(&want, &refn);
  if (refn != enc1.size || (refn && memcmp(ref, enc1.data, refn) != 0)) {
    size_t i = 0;
    while (i < refn && i < enc1.size && ref[i] == enc1.data[i])
      i++;
    FAIL(v, "c17:edit:layout", "exported %zu bytes, reference encoding %zu bytes, first difference at offset %zu",
         enc1.size, refn, i);
  }

  /* independent decoder recovers the intended fields */
  rc = rm_edit_decode(&got, enc1.data, enc1.size);
  if (rc != RM_OK)
    FAIL(v, "c17:edit:reference-decoder-rejects", "reference decoder: %s", rm_strerror(rc));
  if (!rm_edit_equal(&got, &want, why, sizeof(why)))
    FAIL(v, "c17:edit:reference-decode-differs", "reference decode of exported bytes: %s", why);

  /* lcdb's own decoder */
  if (!ldb_edit_import(&parsed, &enc1))
    FAIL(v, "c17:edit:import-rejects", "ldb_edit_import rejected its own export (%zu bytes)", enc1.size);
  to_rm(&from_parsed, &parsed);
  if (!rm_edit_equal(&from_parsed, &want, why, sizeof(why)))
    FAIL(v, "c17:edit:import-field-differs", "imported struct: %s", why);

  ldb_edit_export(&enc2, &parsed);
  if (enc2.size != enc1.size || (enc1.size && memcmp(enc1.data, enc2.data, enc1.size) != 0))
    FAIL(v, "c17:edit:reexport-differs", "re-export %zu bytes vs %zu", enc2.size, enc1.size);

  n_edit_items += (uint64_t)(c->F + c->D + c->C);
  if (sample) {
    vh_buf_t b;
    char ct[160];
    vb_init(&b);
    case_text(ct, sizeof(ct), "edit", c);
    vb_printf(&b, "{\"case\":\"%s\",\"encoded_len\":%zu,\"hex_prefix\":\"", ct, enc1.size);
    hexs(&b, enc1.data, enc1.size < 48 ? enc1.size : 48);
    vb_printf(&b, "\",\"new_files\":%zu,\"deleted_files_in_set\":%zu}", want.nnews, want.ndels);
    drv_sample(b.p);
    vb_free(&b);
  }
  drv_set("edit_len_class", (uint64_t)rm_varint64_len(enc1.size) << 8 | (uint64_t)c->m);
done:
  free(ref);
  rm_edit_free(&want);
  rm_edit_free(&got);
  rm_edit_free(&from_src);
  rm_edit_free(&from_parsed);
  ldb_edit_clear(&parsed);
  ldb_edit_clear(&e);
}

/* ---- levels >= 7 --------------------------------------------------- */

static const long LEVELS_BAD[] = {7, 8, 127, 128, 255, 16383, 16384, 0x7fffffffL, -1L};
#define NLB ((int)(sizeof(LEVELS_BAD) / sizeof(LEVELS_BAD[0])))

static void
check_lvl(int kind, long level, verdict_t *v) {
  ldb_edit_t e, parsed;
  ldb_buffer_t enc;
  rm_edit_t r;
  uint8_t k[9];
  ldb_slice_t ks;
  int ok, rc, want_ok = (level >= 0 && level < 7);
  v->sig = NULL;
  ldb_edit_init(&e);
  ldb_edit_init(&parsed);
  ldb_buffer_init(&enc);
  rm_edit_init(&r);
  make_key(k, K_9, 5);
  ks = ldb_slice(k, 9);
  ldb_edit_set_log_number(&e, 9); /* a valid field in front */
  if (kind == 0)
    ldb_edit_set_compact_pointer(&e, (int)level, &ks);
  else if (kind == 1)
    ldb_edit_remove_file(&e, (int)level, 77);
  else
    ldb_edit_add_file(&e, (int)level, 77, 1000, &ks, &ks);
  ldb_edit_export(&enc, &e);
  ok = ldb_edit_import(&parsed, &enc);
  rc = rm_edit_decode(&r, enc.data, enc.size);
  if (ok != want_ok)
    FAIL(v, want_ok ? "c17:lvl:valid-level-rejected" : "c17:lvl:level-ge-7-accepted",
         "kind %d level %ld: ldb_edit_import returned %d", kind, level, ok);
  if ((rc == RM_OK) != want_ok || (!want_ok && rc != RM_E_LEVEL))
    FAIL(v, "c17:lvl:reference-disagrees", "kind %d level %ld: reference decoder says %s", kind, level,
         rm_strerror(rc));
done:
  rm_edit_free(&r);
  ldb_buffer_clear(&enc);
  ldb_edit_clear(&parsed);
  ldb_edit_clear(&e);
}

/* ---- differential decode of arbitrary bytes ------------------------ */

/* p must be an exact-size heap copy so that an over-read is seen by ASan */
static void
check_diff(const uint8_t *p, size_t n, verdict_t *v) {
  ldb_edit_t parsed;
  ldb_slice_t in;
  ldb_buffer_t enc;
  rm_edit_t r, fp;
  uint8_t *ref = NULL;
  size_t refn = 0;
  char why[300];
  int ok, rc;

  v->sig = NULL;
  ldb_edit_init(&parsed);
  ldb_buffer_init(&enc);
  rm_edit_init(&r);
  rm_edit_init(&fp);
  in = ldb_slice(p, n);
  ok = ldb_edit_import(&parsed, &in);
  rc = rm_edit_decode(&r, p, n);
  drv_set("diff_rm_status", (uint64_t)rc);
  if (ok != (rc == RM_OK))
    FAIL(v, "c17:diff:edit-accept-differs", "ldb_edit_import=%d, reference decoder: %s", ok, rm_strerror(rc));
  if (ok) {
    n_diff_accept++;
    rm_edit_canon_dels(&r);
    to_rm(&fp, &parsed);
    if (!rm_edit_equal(&fp, &r, why, sizeof(why)))
      FAIL(v, "c17:diff:edit-fields-differ", "%s", why);
    ldb_edit_export(&enc, &parsed);
    ref = rm_edit_encode(&r, &refn);
    if (refn != enc.size || (refn && memcmp(ref, enc.data, refn) != 0))
      FAIL(v, "c17:diff:edit-reexport-differs", "re-export %zu bytes vs reference %zu", enc.size, refn);
    drv_set("diff_accept_shape", (uint64_t)(r.has_comparator | r.has_log_number << 1 | r.has_prev_log_number << 2 |
                                            r.has_next_file << 3 | r.has_last_seq << 4) |
                                   (uint64_t)(r.ncptrs > 3 ? 3 : r.ncptrs) << 8 |
                                   (uint64_t)(r.ndels > 3 ? 3 : r.ndels) << 12 |
                                   (uint64_t)(r.nnews > 3 ? 3 : r.nnews) << 16);
  }
  /* varint decoders on the same bytes */
  {
    const uint8_t *q = p;
    size_t qn = n, used;
    uint32_t a = 0, b = 0;
    uint64_t c = 0, d = 0;
    int r1 = ldb_varint32_read(&a, &q, &qn);
    used = rm_varint32_get(p, n, &b);
    if (r1 != (used != 0))
      FAIL(v, "c17:diff:varint32-accept-differs", "ldb_varint32_read=%d reference consumed=%zu", r1, used);
    if (r1 && (a != b || (size_t)(q - p) != used || qn != n - used))
      FAIL(v, "c17:diff:varint32-value-differs", "lcdb %" PRIu32 " (consumed %zu) vs reference %" PRIu32 " (consumed %zu)",
           a, (size_t)(q - p), b, used);
    q = p;
    qn = n;
    r1 = ldb_varint64_read(&c, &q, &qn);
    used = rm_varint64_get(p, n, &d);
    if (r1 != (used != 0))
      FAIL(v, "c17:diff:varint64-accept-differs", "ldb_varint64_read=%d reference consumed=%zu", r1, used);
    if (r1 && (c != d || (size_t)(q - p) != used || qn != n - used))
      FAIL(v, "c17:diff:varint64-value-differs", "lcdb %" PRIu64 " (consumed %zu) vs reference %" PRIu64 " (consumed %zu)",
           c, (size_t)(q - p), d, used);
  }
done:
  free(ref);
  rm_edit_free(&r);
  rm_edit_free(&fp);
  ldb_buffer_clear(&enc);
  ldb_edit_clear(&parsed);
}

static void
check_diff_copy(const uint8_t *s, size_t n, verdict_t *v) {
  uint8_t *p = malloc(n ? n : 1);
  if (n)
    memcpy(p, s, n);
  if (n == 0) {
    /* zero-length input: hand over a pointer whose every byte is out of bounds */
    uint8_t *z = malloc(1);
    free(p);
    p = z;
    check_diff(p + 1, 0, v);
  } else {
    check_diff(p, n, v);
  }
  free(p);
}

/* ---- prefixes ------------------------------------------------------ */

static void
check_prefix(const ecase_t *c, verdict_t *v) {
  ldb_edit_t e;
  rm_edit_t want;
  ldb_buffer_t enc;
  size_t cut;
  v->sig = NULL;
  build_edit(c, &e, &want);
  ldb_buffer_init(&enc);
  ldb_edit_export(&enc, &e);
  for (cut = 0; cut < enc.size; cut++) {
    check_diff_copy(enc.data, cut, v);
    n_prefix_cuts++;
    if (v->sig) {
      size_t l = strlen(v->detail);
      snprintf(v->detail + l, sizeof(v->detail) - l, " [prefix of length %zu of %zu]", cut, enc.size);
      break;
    }
  }
  rm_edit_free(&want);
  ldb_buffer_clear(&enc);
  ldb_edit_clear(&e);
}

/* ---- varints ------------------------------------------------------- */

static void
check_v32_one(uint32_t x, verdict_t *v) {
  uint8_t b[5], rb[5];
  const uint8_t *p;
  size_t n, rn, len, used;
  uint32_t y = 0, z = 0;
  uint64_t w = 0;
  n = (size_t)(ldb_varint32_write(b, x) - b);
  rn = rm_varint32_put(rb, x);
  if (n != rn || n != ldb_varint32_size(x) || n != rm_varint32_len(x) || memcmp(b, rb, n) != 0)
    FAIL(v, "c17:v32:encoding", "x=%" PRIu32 ": wrote %zu bytes, size() %zu, reference %zu bytes", x, n,
         ldb_varint32_size(x), rn);
  p = b;
  len = n;
  if (!ldb_varint32_read(&y, &p, &len) || y != x || len != 0 || p != b + n)
    FAIL(v, "c17:v32:roundtrip", "x=%" PRIu32 ": read back %" PRIu32 ", %zu bytes left", x, y, len);
  used = rm_varint32_get(b, n, &z);
  if (used != n || z != x)
    FAIL(v, "c17:v32:reference-decode", "x=%" PRIu32 ": reference decoded %" PRIu32 " using %zu bytes", x, z, used);
  p = b;
  len = n;
  if (!ldb_varint64_read(&w, &p, &len) || w != x || len != 0)
    FAIL(v, "c17:v32:as-varint64", "x=%" PRIu32 ": varint64 reader gave %" PRIu64, x, w);
  p = b;
  len = n - 1;
  if (ldb_varint32_read(&y, &p, &len))
    FAIL(v, "c17:v32:truncated-accepted", "x=%" PRIu32 ": %zu-byte truncation of a %zu-byte varint accepted", x, n - 1,
         n);
done:
  return;
}

static void
check_v32_range(uint64_t lo, uint64_t hi, verdict_t *v) { /* inclusive, within uint32 */
  uint64_t x;
  v->sig = NULL;
  for (x = lo; x <= hi; x++) {
    check_v32_one((uint32_t)x, v);
    n_v32++;
    if (v->sig)
      return;
  }
}

static void
check_v64(uint64_t x, verdict_t *v) {
  uint8_t b[10], rb[10];
  const uint8_t *p;
  size_t n, rn, len, used;
  uint64_t y = 0, z = 0;
  v->sig = NULL;
  n = (size_t)(ldb_varint64_write(b, x) - b);
  rn = rm_varint64_put(rb, x);
  if (n != rn || n != ldb_varint64_size(x) || n != rm_varint64_len(x) || memcmp(b, rb, n) != 0)
    FAIL(v, "c17:v64:encoding", "x=%" PRIu64 ": wrote %zu bytes, size() %zu, reference %zu bytes", x, n,
         ldb_varint64_size(x), rn);
  p = b;
  len = n;
  if (!ldb_varint64_read(&y, &p, &len) || y != x || len != 0 || p != b + n)
    FAIL(v, "c17:v64:roundtrip", "x=%" PRIu64 ": read back %" PRIu64 ", %zu bytes left", x, y, len);
  used = rm_varint64_get(b, n, &z);
  if (used != n || z != x)
    FAIL(v, "c17:v64:reference-decode", "x=%" PRIu64 ": reference decoded %" PRIu64 " using %zu bytes", x, z, used);
  p = b;
  len = n - 1;
  if (ldb_varint64_read(&y, &p, &len))
    FAIL(v, "c17:v64:truncated-accepted", "x=%" PRIu64 ": truncation accepted", x);
  if (x <= UINT32_MAX) {
    uint32_t s = 0;
    p = b;
    len = n;
    if (!ldb_varint32_read(&s, &p, &len) || s != x)
      FAIL(v, "c17:v64:as-varint32", "x=%" PRIu64 ": varint32 reader gave %" PRIu32, x, s);
  }
  drv_set("v64_len", n);
done:
  return;
}

/* ---- fold self-test ------------------------------------------------ */

static void
check_fold(verdict_t *v) {
  rm_state_t s, t;
  rm_edit_t e1, e2, e3;
  uint8_t k[3][9];
  uint8_t *rec[3];
  const uint8_t *crec[3];
  size_t len[3], bad = 0;
  int i, rc;
  v->sig = NULL;
  for (i = 0; i < 3; i++)
    make_key(k[i], K_9, (uint64_t)i);
  rm_edit_init(&e1);
  rm_edit_init(&e2);
  rm_edit_init(&e3);
  rm_edit_set_comparator(&e1, "leveldb.BytewiseComparator", 26);
  e1.has_log_number = e1.has_next_file = e1.has_last_seq = 1;
  e1.log_number = 3, e1.next_file = 4, e1.last_seq = 0;
  rm_edit_add_new(&e2, 0, 5, 100, k[0], 9, k[1], 9);
  rm_edit_add_new(&e2, 0, 7, 200, k[1], 9, k[2], 9);
  rm_edit_add_new(&e2, 2, 6, 300, k[0], 9, k[2], 9);
  e2.has_log_number = e2.has_next_file = e2.has_last_seq = e2.has_prev_log_number = 1;
  e2.log_number = 8, e2.next_file = 9, e2.last_seq = 42, e2.prev_log_number = 0;
  rm_edit_add_cptr(&e2, 1, k[1], 9);
  /* e3: compaction of 5 and 7 into 10 at level 1; deletes and re-adds 6 at level 2 in one edit */
  rm_edit_add_del(&e3, 0, 5);
  rm_edit_add_del(&e3, 0, 7);
  rm_edit_add_del(&e3, 2, 6);
  rm_edit_add_del(&e3, 3, 99); /* absent */
  rm_edit_add_new(&e3, 1, 10, 250, k[0], 9, k[2], 9);
  rm_edit_add_new(&e3, 2, 6, 301, k[0], 9, k[1], 9);
  e3.has_next_file = e3.has_last_seq = 1;
  e3.next_file = 11, e3.last_seq = 50;
  rm_edit_add_cptr(&e3, 1, k[2], 9);
  rec[0] = rm_edit_encode(&e1, &len[0]);
  rec[1] = rm_edit_encode(&e2, &len[1]);
  rec[2] = rm_edit_encode(&e3, &len[2]);
  for (i = 0; i < 3; i++)
    crec[i] = rec[i];
  rm_state_init(&s);
  rm_state_init(&t);
  rc = rm_state_replay(&s, crec, len, 3, &bad);
  rm_state_apply(&t, &e1);
  rm_state_apply(&t, &e2);
  rm_state_apply(&t, &e3);
  n_fold++;
  if (rc != RM_OK)
    FAIL(v, "c17:fold:selftest", "replay failed at record %zu: %s", bad, rm_strerror(rc));
  if (!rm_state_equal(&s, &t) || rm_state_hash(&s) != rm_state_hash(&t))
    FAIL(v, "c17:fold:selftest", "replay of encoded records differs from direct application");
  if (s.levels[0].nfiles != 0 || s.levels[1].nfiles != 1 || s.levels[1].files[0].number != 10 ||
      s.levels[2].nfiles != 1 || s.levels[2].files[0].number != 6 || s.levels[2].files[0].size != 301 ||
      s.log_number != 8 || s.prev_log_number != 0 || s.next_file != 11 || s.last_seq != 50 || !s.has_comparator ||
      s.comparator.n != 26 || !s.levels[1].has_cptr || memcmp(s.levels[1].cptr.p, k[2], 9) != 0 ||
      s.dels_of_absent != 1 || rm_state_total_files(&s) != 2)
    FAIL(v, "c17:fold:selftest", "folded state is not the expected one");
  /* lcdb's encoder feeds the fold the same way: import(e3 bytes) == e3 */
  {
    ldb_edit_t le;
    ldb_slice_t in = ldb_slice(rec[2], len[2]);
    rm_edit_t back;
    char why[200];
    ldb_edit_init(&le);
    if (!ldb_edit_import(&le, &in)) {
      ldb_edit_clear(&le);
      FAIL(v, "c17:fold:selftest", "ldb_edit_import rejects a reference-encoded edit");
    }
    to_rm(&back, &le);
    rm_edit_canon_dels(&e3);
    if (!rm_edit_equal(&back, &e3, why, sizeof(why))) {
      rm_edit_free(&back);
      ldb_edit_clear(&le);
      FAIL(v, "c17:fold:selftest", "lcdb import of a reference-encoded edit: %s", why);
    }
    rm_edit_free(&back);
    ldb_edit_clear(&le);
  }
done:
  for (i = 0; i < 3; i++)
    free(rec[i]);
  rm_edit_free(&e1);
  rm_edit_free(&e2);
  rm_edit_free(&e3);
  rm_state_free(&s);
  rm_state_free(&t);
}

/* ------------------------------------------------------------------ */
/* dispatcher: one case from its text                                 */
/* ------------------------------------------------------------------ */

static int
run_text(const char *text, verdict_t *v, int sample) {
  ecase_t c;
  v->sig = NULL;
  v->detail[0] = 0;
  if (strncmp(text, "edit ", 5) == 0 && parse_ecase(text, &c)) {
    check_edit(&c, v, sample);
    n_edit++;
  } else if (strncmp(text, "prefix ", 7) == 0 && parse_ecase(text, &c)) {
    check_prefix(&c, v);
    n_prefix++;
  } else if (strncmp(text, "lvl ", 4) == 0) {
    int kind;
    long level;
    if (sscanf(text, "lvl kind=%d level=%ld", &kind, &level) != 2)
      return 0;
    check_lvl(kind, level, v);
    n_lvl++;
  } else if (strncmp(text, "v32 chunk=", 10) == 0) {
    uint64_t ch = strtoull(text + 10, NULL, 0);
    check_v32_range(ch << 20, ((ch + 1) << 20) - 1, v);
  } else if (strncmp(text, "v32win ", 7) == 0) {
    unsigned long long lo, hi;
    if (sscanf(text, "v32win lo=%llu hi=%llu", &lo, &hi) != 2 || hi > UINT32_MAX || lo > hi)
      return 0;
    check_v32_range(lo, hi, v);
  } else if (strncmp(text, "v64 x=", 6) == 0) {
    check_v64(strtoull(text + 6, NULL, 16), v);
    n_v64++;
  } else if (strncmp(text, "diff hex=", 9) == 0) {
    static uint8_t buf[4096];
    size_t n;
    if (!unhex(text + 9, buf, sizeof(buf), &n))
      return 0;
    check_diff_copy(buf, n, v);
    n_diff++;
  } else if (strcmp(text, "fold") == 0) {
    check_fold(v);
  } else {
    return 0;
  }
  return 1;
}

static uint64_t gidx;
static long slow_ms; /* --slow-ms N: development aid, notes cases slower than N ms */

/* announce + run + (on failure) re-run + report */
static void
do_case(const char *text, int sample) {
  verdict_t v, v2;
  vh_buf_t b;
  if (!drv_mine(gidx++))
    return;
  drv_case("%s", text);
  {
    double t0 = slow_ms > 0 ? drv_elapsed() : 0;
    if (!run_text(text, &v, sample))
      vh_die("c17_edit: cannot parse own case text: %s", text);
    if (slow_ms > 0 && (drv_elapsed() - t0) * 1000 > (double)slow_ms)
      drv_note("slow case (%.1f ms): %s", (drv_elapsed() - t0) * 1000, text);
  }
  n_eval++;
  if (!v.sig)
    return;
  run_text(text, &v2, 0);
  if (!v2.sig || strcmp(v.sig, v2.sig) != 0)
    vh_die("c17_edit: violation %s did not reproduce on immediate re-execution of: %s", v.sig, text);
  vb_init(&b);
  vb_json_str(&b, text, strlen(text));
  drv_viol(v.sig, v.detail, b.p);
  vb_free(&b);
}

static int
stop_now(void) {
  if (drv_deadline_hit()) {
    exhaustive = 0;
    return 1;
  }
  return 0;
}

/* ------------------------------------------------------------------ */
/* enumeration                                                        */
/* ------------------------------------------------------------------ */

static void
enum_edits(void) {
  ecase_t c;
  char t[200];
  int fi, di, ci, mi;
  uint64_t k = 0;
  /* G1: every subset of the scalar fields x every value x every comparator shape,
   *     with 0/1 files and deleted files */
  for (c.m = 0; c.m < 32; c.m++)
    for (c.vi = 0; c.vi < NV; c.vi++)
      for (c.cs = 0; c.cs < NCS; c.cs++)
        for (fi = 0; fi < 2; fi++)
          for (di = 0; di < 2; di++) {
            c.L = (c.vi + c.m) % 7;
            c.K = K_MIN8;
            c.F = COUNTS[fi];
            c.D = COUNTS[di];
            c.C = 0;
            case_text(t, sizeof(t), "edit", &c);
            do_case(t, (k++ % 997) == 0);
            if ((k & 255) == 0 && stop_now())
              return;
          }
  /* G2: levels x key shapes x file counts x deleted counts x compact pointers x values,
   *     with no / all scalar fields (thorough: every subset) */
  for (c.L = 0; c.L < 7; c.L++)
    for (c.K = 0; c.K < NK; c.K++)
      for (fi = 0; fi < 4; fi++)
        for (di = 0; di < 4; di++)
          for (ci = 0; ci < 3; ci++)
            for (c.vi = 0; c.vi < NV; c.vi++)
              for (mi = 0; mi < (drv.thorough ? 32 : 2); mi++) {
                c.m = drv.thorough ? mi : (mi ? 31 : 0);
                c.cs = (c.vi + c.L) % NCS;
                c.F = COUNTS[fi];
                c.D = COUNTS[di];
                c.C = CPTRS[ci];
                if (c.K >= K_BIG && c.F > 3)
                  continue; /* declared exclusion: 16 KiB keys only with <= 3 new files */
                /* The 2000-item edits cost ~10 ms each under ASan (their cost is the item list):
                 * thorough keeps masks {0,31} and C in {1,7} for them; quick keeps mask 31, C=1, key shapes
                 * {8 bytes, 300 bytes} and every 4th value (0, 16383, 2^21+1, 2^32-1, 2^42-1,
                 * 2^56-1, 2^64-1). */
                if (c.F > 3 || c.D > 3) {
                  if (drv.thorough ? (!(c.m == 0 || c.m == 31) || c.C == 0)
                                   : (c.m != 31 || c.C != 1 || c.vi % 4 != 0 || !(c.K == K_MIN8 || c.K == K_300)))
                    continue;
                }
                case_text(t, sizeof(t), "edit", &c);
                do_case(t, (k++ % 9973) == 0);
                if ((k & 63) == 0 && stop_now())
                  return;
              }
}

static void
enum_lvl(void) {
  char t[100];
  int kind, i;
  for (kind = 0; kind < 3; kind++) {
    for (i = 0; i < 7; i++) {
      snprintf(t, sizeof(t), "lvl kind=%d level=%d", kind, i);
      do_case(t, 0);
    }
    for (i = 0; i < NLB; i++) {
      snprintf(t, sizeof(t), "lvl kind=%d level=%ld", kind, LEVELS_BAD[i]);
      do_case(t, 0);
    }
  }
}

static void
enum_prefix(void) {
  static const int KS[] = {K_MIN8, K_9, K_127, K_128, K_300};
  ecase_t c;
  char t[200];
  int ki, fi, di, ci;
  for (ki = 0; ki < 5; ki++)
    for (fi = 1; fi < 3; fi++)
      for (di = 1; di < 3; di++)
        for (ci = 1; ci < 3; ci++)
          for (c.vi = 0; c.vi < NV; c.vi += (drv.thorough ? 1 : 6)) {
            c.m = 31;
            c.cs = 1;
            c.L = (ki + c.vi) % 7;
            c.K = KS[ki];
            c.F = COUNTS[fi];
            c.D = COUNTS[di];
            c.C = CPTRS[ci];
            case_text(t, sizeof(t), "prefix", &c);
            do_case(t, 0);
            if (stop_now())
              return;
          }
}

static void
enum_v32(void) {
  char t[100];
  uint64_t ch;
  if (drv.thorough) {
    for (ch = 0; ch < 4096; ch++) {
      snprintf(t, sizeof(t), "v32 chunk=%" PRIu64, ch);
      do_case(t, 0);
      if (stop_now())
        return;
    }
  } else {
    static const int KB[] = {7, 14, 21, 28};
    int i;
    for (ch = 0; ch < 2; ch++) { /* all values < 2^21 */
      snprintf(t, sizeof(t), "v32 chunk=%" PRIu64, ch);
      do_case(t, 0);
    }
    for (i = 0; i < 4; i++) {
      uint64_t c0 = P2(KB[i]);
      snprintf(t, sizeof(t), "v32win lo=%" PRIu64 " hi=%" PRIu64, c0 > 300 ? c0 - 300 : 0, c0 + 300);
      do_case(t, 0);
    }
    snprintf(t, sizeof(t), "v32win lo=%" PRIu64 " hi=%" PRIu64, (uint64_t)UINT32_MAX - 300, (uint64_t)UINT32_MAX);
    do_case(t, 0);
    snprintf(t, sizeof(t), "v32win lo=%" PRIu64 " hi=%" PRIu64, P2(31) - 300, P2(31) + 300);
    do_case(t, 0);
  }
}

static void
enum_v64(void) {
  char t[100];
  int k, d;
  for (k = 0; k < 64; k++)
    for (d = -1; d <= 1; d++) {
      snprintf(t, sizeof(t), "v64 x=%" PRIx64, P2(k) + (uint64_t)(int64_t)d);
      do_case(t, 0);
    }
  /* every 7-bit group boundary +-300, and the top of the range */
  for (k = 7; k < 64; k += 7)
    for (d = -300; d <= 300; d++) {
      snprintf(t, sizeof(t), "v64 x=%" PRIx64, P2(k) + (uint64_t)(int64_t)d);
      do_case(t, 0);
    }
  for (d = 0; d <= 300; d++) {
    snprintf(t, sizeof(t), "v64 x=%" PRIx64, UINT64_MAX - (uint64_t)d);
    do_case(t, 0);
  }
  for (k = 0; k < NV; k++) {
    snprintf(t, sizeof(t), "v64 x=%" PRIx64, VALS[k]);
    do_case(t, 0);
  }
}

static void
diff_string(const uint8_t *s, size_t n) {
  char t[64 + 2 * 32];
  size_t i, l;
  if (!drv_mine(gidx)) { /* cheap skip before formatting */
    gidx++;
    return;
  }
  l = (size_t)snprintf(t, sizeof(t), "diff hex=");
  for (i = 0; i < n; i++)
    l += (size_t)snprintf(t + l, sizeof(t) - l, "%02x", s[i]);
  do_case(t, 0);
}

static void
enum_diff(void) {
  static const uint8_t AL[6] = {0x00, 0x01, 0x07, 0x7f, 0x80, 0xff};
  static const uint8_t CH[3] = {0x80, 0xff, 0x81};
  uint8_t s[16];
  int maxlen = drv.thorough ? 3 : 2, len, i;
  uint32_t x, lim;
  /* all byte strings of length <= maxlen */
  for (len = 0; len <= maxlen; len++) {
    lim = 1u << (8 * len);
    for (x = 0; x < lim; x++) {
      for (i = 0; i < len; i++)
        s[i] = (uint8_t)(x >> (8 * (len - 1 - i)));
      diff_string(s, (size_t)len);
      if ((x & 0xffff) == 0xffff && stop_now())
        return;
    }
  }
  /* all strings of length <= 6 over the boundary alphabet */
  for (len = 1; len <= 6; len++) {
    lim = 1;
    for (i = 0; i < len; i++)
      lim *= 6;
    for (x = 0; x < lim; x++) {
      uint32_t y = x;
      for (i = 0; i < len; i++) {
        s[i] = AL[y % 6];
        y /= 6;
      }
      diff_string(s, (size_t)len);
    }
    if (stop_now())
      return;
  }
  /* continuation chains: k bytes from {0x80,0xff[,0x81]} followed by every last byte, k <= 11 */
  {
    int nch = drv.thorough ? 3 : 2, k;
    for (k = 1; k <= 11; k++) {
      if (drv.thorough && k > 9)
        nch = 2; /* 3^10 * 256 would be 15 M strings; the two longest chains use {0x80,0xff} */
      lim = 1;
      for (i = 0; i < k; i++)
        lim *= (uint32_t)nch;
      for (x = 0; x < lim; x++) {
        uint32_t y = x;
        int last;
        for (i = 0; i < k; i++) {
          s[i] = CH[y % (uint32_t)nch];
          y /= (uint32_t)nch;
        }
        for (last = 0; last < 256; last++) {
          s[k] = (uint8_t)last;
          diff_string(s, (size_t)k + 1);
        }
        if ((x & 0xff) == 0xff && stop_now())
          return;
      }
    }
  }
}

int
main(int argc, char **argv) {
  char res[1200];
  size_t i;
  double t_a, t_b, t_c, t_d, t_e;
  drv_init(argc, argv);
  for (i = 0; i < sizeof(cmp_arbitrary); i++)
    cmp_arbitrary[i] = (uint8_t)(i * 37 + 0xff); /* starts with 0xff, contains 0x00 */

  slow_ms = drv_opt_long("slow-ms", 0);
  if (drv.replay) {
    verdict_t v;
    if (!run_text(drv.replay, &v, 0))
      vh_die("c17_edit: cannot parse replay text: %s", drv.replay);
    if (v.sig) {
      vh_buf_t b;
      vb_init(&b);
      vb_json_str(&b, drv.replay, strlen(drv.replay));
      drv_viol(v.sig, v.detail, b.p);
      vb_free(&b);
    } else {
      printf("NOTE replay held: %s\n", drv.replay);
    }
    drv_result("\"evaluations\":1,\"exhaustive\":true");
    return 0;
  }

  do_case("fold", 0);
  enum_lvl();
  enum_v64();
  t_a = drv_elapsed();
  if (!stop_now())
    enum_edits();
  t_b = drv_elapsed();
  if (!stop_now())
    enum_prefix();
  t_c = drv_elapsed();
  if (!stop_now())
    enum_v32();
  t_d = drv_elapsed();
  if (!stop_now())
    enum_diff();
  t_e = drv_elapsed();

  drv_note("c17_edit %s: edit grid = G1{32 masks x %d values x %d comparator shapes x F,D in {0,1}} + "
           "G2{7 levels x %d key shapes (8..16384 bytes) x F,D in {0,1,3,2000} x C in {0,1,7} x %d values x %s; "
           "16 KiB keys only with F<=3}; varint32: %s; diff: all byte strings of length <= %d + alphabet^<=6 + chains",
           drv.thorough ? "thorough" : "quick", NV, NCS, NK, NV,
           drv.thorough ? "32 masks (masks {0,31} and C in {1,7} for 2000-item edits)"
                        : "masks {0,31} (2000-item edits lowered to mask 31, C=1, key shapes {8,300} bytes, every 4th value: tens of ms each under ASan)",
           drv.thorough ? "all 2^32 values" : "all values < 2^21 and +-300 around 2^7,2^14,2^21,2^28,2^31,2^32-1",
           drv.thorough ? 3 : 2);
  snprintf(res, sizeof(res),
           "\"evaluations\":%" PRIu64 ",\"exhaustive\":%s,\"edit_cases\":%" PRIu64 ",\"edit_items\":%" PRIu64
           ",\"level_cases\":%" PRIu64 ",\"prefix_cases\":%" PRIu64 ",\"prefix_cuts\":%" PRIu64
           ",\"varint32_values\":%" PRIu64 ",\"varint64_values\":%" PRIu64 ",\"diff_strings\":%" PRIu64
           ",\"diff_accepted\":%" PRIu64 ",\"fold_selftests\":%" PRIu64
           ",\"max_t_edit_s\":%.2f,\"max_t_prefix_s\":%.2f,\"max_t_varint32_s\":%.2f,\"max_t_diff_s\":%.2f",
           n_eval + n_v32 + n_prefix_cuts, exhaustive ? "true" : "false", n_edit, n_edit_items, n_lvl, n_prefix, n_prefix_cuts, n_v32, n_v64,
           n_diff, n_diff_accept, n_fold, t_b - t_a, t_c - t_b, t_d - t_c, t_e - t_d);
  drv_result(res);
  return 0;
}
