/* kv.c - see kv.h */
#define _GNU_SOURCE
#include <stdlib.h>
#include <string.h>
#include "kv.h"

int lcdb_verif_raw_options = 0;
double lcdb_verif_l1_bytes = 0;

/* ------------------------------------------------------------------ */
/* configuration                                                      */
/* ------------------------------------------------------------------ */

void
kcfg_set_base(kcfg_t *c, int base) {
  memset(c, 0, sizeof(*c));
  c->base = base;
  c->universe = -1;
  c->max_open_files = 1000;
  c->use_mmap = 1; /* lcdb default */
  if (base == 1) {
    /* stress-small: sizes below the option clips, visible through hook H1 */
    c->wbuf = 4200; c->maxfile = 2500; c->block = 256; c->restart = 2;
    c->l1 = 6000; c->raw = 1;
  } else {
    c->wbuf = 64 << 10; c->maxfile = 1 << 20; c->block = 1024; c->restart = 16;
    c->l1 = 0; c->raw = 0;
  }
}

int
kcfg_parse(kcfg_t *c, const char *text) {
  char buf[512], *tok, *save = NULL;
  strncpy(buf, text, sizeof(buf) - 1);
  buf[sizeof(buf) - 1] = 0;
  kcfg_set_base(c, 1);
  for (tok = strtok_r(buf, ",", &save); tok; tok = strtok_r(NULL, ",", &save)) {
    char *eq = strchr(tok, '=');
    long v = eq ? strtol(eq + 1, NULL, 0) : 0;
    if (strcmp(tok, "B1") == 0) { kcfg_set_base(c, 1); continue; }
    if (strcmp(tok, "B2") == 0) { kcfg_set_base(c, 2); continue; }
    if (!eq) return 0;
    *eq = 0;
    if (!strcmp(tok, "snappy")) c->snappy = (int)v;
    else if (!strcmp(tok, "bloom")) c->bloom = (int)v;
    else if (!strcmp(tok, "mmap")) c->use_mmap = (int)v;
    else if (!strcmp(tok, "reuse")) c->reuse_logs = (int)v;
    else if (!strcmp(tok, "cache")) c->cache = (int)v;
    else if (!strcmp(tok, "cmp")) c->cmp = (int)v;
    else if (!strcmp(tok, "paranoid")) c->paranoid = (int)v;
    else if (!strcmp(tok, "mof")) c->max_open_files = (int)v;
    else if (!strcmp(tok, "wbuf")) c->wbuf = (size_t)v;
    else if (!strcmp(tok, "maxfile")) c->maxfile = (size_t)v;
    else if (!strcmp(tok, "block")) c->block = (size_t)v;
    else if (!strcmp(tok, "restart")) c->restart = (int)v;
    else if (!strcmp(tok, "l1")) c->l1 = (double)v;
    else if (!strcmp(tok, "raw")) c->raw = (int)v;
    else if (!strcmp(tok, "uni")) c->universe = (int)v;
    else return 0;
  }
  return 1;
}

void
kcfg_print(const kcfg_t *c, char *buf, size_t n) {
  int k = snprintf(buf, n, "B%d,snappy=%d,bloom=%d,mmap=%d,reuse=%d,cache=%d,cmp=%d,paranoid=%d,mof=%d,wbuf=%zu,maxfile=%zu,block=%zu,restart=%d,l1=%.0f,raw=%d",
           c->base, c->snappy, c->bloom, c->use_mmap, c->reuse_logs, c->cache, c->cmp, c->paranoid,
           c->max_open_files, c->wbuf, c->maxfile, c->block, c->restart, c->l1, c->raw);
  if (c->universe >= 0 && k > 0 && (size_t)k < n)
    snprintf(buf + k, n - (size_t)k, ",uni=%d", c->universe);
}

static void
logv_discard(void *st, const char *fmt, va_list ap) {
  (void)st; (void)fmt; (void)ap;
}

static int
rev_compare(const ldb_comparator_t *cmp, const ldb_slice_t *x, const ldb_slice_t *y) {
  size_t n = x->size < y->size ? x->size : y->size;
  int r = n ? memcmp(x->data, y->data, n) : 0;
  (void)cmp;
  if (r == 0)
    r = (x->size < y->size) ? -1 : (x->size > y->size ? 1 : 0);
  return -r;
}

static int
nocase_compare(const ldb_comparator_t *cmp, const ldb_slice_t *x, const ldb_slice_t *y) {
  /* case-insensitive bytewise: byte-different keys can be EQUAL under this comparator */
  size_t n = x->size < y->size ? x->size : y->size, i;
  const unsigned char *a = x->data, *b = y->data;
  (void)cmp;
  for (i = 0; i < n; i++) {
    int ca = (a[i] >= 'A' && a[i] <= 'Z') ? a[i] + 32 : a[i];
    int cb = (b[i] >= 'A' && b[i] <= 'Z') ? b[i] + 32 : b[i];
    if (ca != cb) return ca < cb ? -1 : 1;
  }
  return (x->size < y->size) ? -1 : (x->size > y->size ? 1 : 0);
}

int kv_rep_tab[KV_MAXKEYS + 2];

/* equivalence classes of the key universe under the configured comparator: the model is
 * indexed by the class representative (smallest equal index); m->spell[rep] remembers which
 * spelling the newest write used (that is the key an iterator yields) */
void
kv_set_classes(const kcfg_t *c) {
  int i, j;
  for (i = 0; i < kv_nkeys + 2; i++) {
    kv_rep_tab[i] = i;
    for (j = 0; j < i; j++)
      if (kv_cmp(c, kv_keys[i], kv_keylen[i], kv_keys[j], kv_keylen[j]) == 0) { kv_rep_tab[i] = j; break; }
  }
}

void
kopt_init(kopt_t *o, const kcfg_t *c) {
  memset(o, 0, sizeof(*o));
  o->opt = *ldb_dbopt_default;
  o->log = ldb_logger_create(logv_discard, NULL);
  o->opt.info_log = o->log;
  o->opt.create_if_missing = 1;
  o->opt.paranoid_checks = c->paranoid;
  o->opt.write_buffer_size = c->wbuf;
  o->opt.max_file_size = c->maxfile;
  o->opt.block_size = c->block;
  o->opt.block_restart_interval = c->restart;
  o->opt.compression = c->snappy ? LDB_SNAPPY_COMPRESSION : LDB_NO_COMPRESSION;
  o->opt.reuse_logs = c->reuse_logs;
  o->opt.use_mmap = c->use_mmap;
  o->opt.max_open_files = c->max_open_files;
  if (c->bloom) {
    o->bloom = ldb_bloom_create(10);
    o->opt.filter_policy = o->bloom;
  }
  if (c->cache == 1)
    o->cache = ldb_lru_create(0);
  else if (c->cache == 2)
    o->cache = ldb_lru_create(4096);
  o->opt.block_cache = o->cache;
  if (c->cmp == 1) {
    ldb_comparator_init(&o->cmp, "verif.ReverseBytewise", rev_compare, NULL);
    o->opt.comparator = &o->cmp;
  } else if (c->cmp == 2) {
    ldb_comparator_init(&o->cmp, "verif.CaseInsensitive", nocase_compare, NULL);
    o->opt.comparator = &o->cmp;
  }
  kv_set_classes(c);
  lcdb_verif_raw_options = c->raw;
  lcdb_verif_l1_bytes = c->l1;
}

void
kopt_clear(kopt_t *o) {
  if (o->bloom) ldb_bloom_destroy(o->bloom);
  if (o->cache) ldb_lru_destroy(o->cache);
  if (o->log) ldb_logger_destroy(o->log);
  memset(o, 0, sizeof(*o));
}

/* ------------------------------------------------------------------ */
/* keys and values                                                    */
/* ------------------------------------------------------------------ */

int kv_nkeys;
const char *kv_keys[KV_MAXKEYS + 2];
size_t kv_keylen[KV_MAXKEYS + 2];
static char key300[301];

static void
setk(int i, const char *k, size_t n) {
  kv_keys[i] = k;
  kv_keylen[i] = n;
}

void
kv_set_universe(int which) {
  int i = 0;
  if (!key300[0]) {
    memset(key300, 'q', 300);
    key300[0] = 'a'; key300[1] = 'b';
    key300[300] = 0;
  }
  switch (which) {
    case 1:
      setk(i++, "a", 1); setk(i++, "ab", 2); setk(i++, "b", 1);
      break;
    case 2:
      setk(i++, "a", 1); setk(i++, key300, 300); setk(i++, "b", 1);
      break;
    case 3:
      setk(i++, "", 0); setk(i++, "a", 1); setk(i++, "aa", 2); setk(i++, "ab", 2); setk(i++, "b", 1);
      setk(i++, "\xff\xff", 2);
      break;
    case 4:
      setk(i++, "a", 1); setk(i++, "b", 1);
      break;
    case 5:
      /* spellings that a case-insensitive comparator identifies */
      setk(i++, "a", 1); setk(i++, "A", 1); setk(i++, "ab", 2); setk(i++, "B", 1); setk(i++, "b", 1);
      break;
    default:
      setk(i++, "", 0); setk(i++, "a", 1); setk(i++, "ab", 2); setk(i++, "b", 1);
      break;
  }
  kv_nkeys = i;
  /* two probe keys that no operation ever writes */
  setk(i++, "a\x01", 2);
  setk(i++, "zz", 2);
}

int
kv_cmp(const kcfg_t *cfg, const void *a, size_t an, const void *b, size_t bn) {
  size_t n = an < bn ? an : bn;
  int r;
  if (cfg->cmp == 2) {
    ldb_slice_t x = ldb_slice(a, an), y = ldb_slice(b, bn);
    return nocase_compare(NULL, &x, &y);
  }
  r = n ? memcmp(a, b, n) : 0;
  if (r == 0)
    r = (an < bn) ? -1 : (an > bn ? 1 : 0);
  return cfg->cmp == 1 ? -r : r;
}

int
kv_order(const kcfg_t *c, int *order) {
  int i, j, n = 0;
  kv_set_classes(c);
  for (i = 0; i < kv_nkeys; i++)
    if (kv_rep_tab[i] == i)
      order[n++] = i;
  return kv_order_n(c, order, n);
}

int
kv_order_n(const kcfg_t *c, int *order, int kv_nkeys_) {
  int i, j;
#define kv_nkeys kv_nkeys_
  for (i = 1; i < kv_nkeys; i++)
    for (j = i; j > 0; j--) {
      int a = order[j - 1], b = order[j];
      if (kv_cmp(c, kv_keys[a], kv_keylen[a], kv_keys[b], kv_keylen[b]) > 0) {
        order[j - 1] = b; order[j] = a;
      } else break;
    }
  return kv_nkeys;
#undef kv_nkeys
}

size_t
kv_vlen(int sz) {
  switch (sz) {
    case VS_EMPTY: return 0;
    case VS_SHORT: return 10;
    case VS_1K: return 1100;
    case VS_70K: return 70000;
    case VS_1M: return 1258291;
    case VS_TAIL: return 32740;
  }
  return 0;
}

void
kv_vgen(unsigned char *buf, int vid, int sz) {
  size_t n = kv_vlen(sz), i;
  char tag[16];
  uint32_t x = (uint32_t)vid * 2654435761u + 12345u;
  snprintf(tag, sizeof(tag), "v%08d:", vid);
  for (i = 0; i < n && i < 10; i++)
    buf[i] = (unsigned char)tag[i];
  if (vid & 1) {
    for (; i < n; i++) { x = x * 1664525u + 1013904223u; buf[i] = (unsigned char)(x >> 24); }
  } else {
    for (; i < n; i++) buf[i] = (unsigned char)("lcdb-verif-"[i % 11] + (vid % 3));
  }
}

int
kv_vcheck(const void *data, size_t len, int vid, int sz) {
  static unsigned char *tmp;
  if (len != kv_vlen(sz))
    return 0;
  if (len == 0)
    return 1;
  if (!tmp)
    tmp = malloc(kv_vlen(VS_1M));
  kv_vgen(tmp, vid, sz);
  return memcmp(tmp, data, len) == 0;
}

/* identify a value: 1 if the bytes are exactly what write <vid> of some size class produced.
 * Uses a caller-supplied scratch buffer (thread bodies must not share one). */
int
kv_vparse(const void *data, size_t len, int *vid, int *sz, unsigned char *scratch) {
  const unsigned char *d = data;
  int s;
  if (len < 10 || d[0] != 'v' || d[9] != ':')
    return 0;
  *vid = atoi((const char *)d + 1);
  for (s = VS_SHORT; s <= VS_MAX; s++)
    if (kv_vlen(s) == len) {
      *sz = s;
      kv_vgen(scratch, *vid, s);
      return memcmp(scratch, data, len) == 0;
    }
  return 0;
}

uint64_t
kmodel_hash(const kmodel_t *m) {
  uint64_t h = 17;
  int i;
  for (i = 0; i < kv_nkeys; i++)
    h = vh_mix(h, ((uint64_t)m->vid[i] << 16) | ((uint64_t)m->spell[i] << 8) | m->sz[i]);
  return h;
}

/* ------------------------------------------------------------------ */
/* operations: text form                                              */
/* ------------------------------------------------------------------ */

/* P<k>.<sz>[!]  D<k>[!]  B[P0.1,D0,...][!]  M<n>[!]  F  R<level>:<lo>:<hi>  C  O  S  s<i>  I  i<i>  W  G<k>
 * '!' = sync; lo/hi = key index or '-' */
void
kop_print(const kop_t *op, vh_buf_t *b) {
  int j;
  switch (op->kind) {
    case OP_PUT: vb_printf(b, "P%d.%d%s", op->u[0].key, op->u[0].sz, op->sync ? "!" : ""); break;
    case OP_DEL: vb_printf(b, "D%d%s", op->u[0].key, op->sync ? "!" : ""); break;
    case OP_BATCH:
      vb_printf(b, "B[");
      for (j = 0; j < op->n; j++) {
        if (op->u[j].del) vb_printf(b, "%sD%d", j ? "," : "", op->u[j].key);
        else vb_printf(b, "%sP%d.%d", j ? "," : "", op->u[j].key, op->u[j].sz);
      }
      vb_printf(b, "]%s", op->sync ? "!" : "");
      break;
    case OP_BIGBATCH: vb_printf(b, "M%d%s", op->n, op->sync ? "!" : ""); break;
    case OP_FLUSH: vb_printf(b, "F"); break;
    case OP_CRANGE:
      vb_printf(b, "R%d:", op->level);
      if (op->lo < 0) vb_printf(b, "-:"); else vb_printf(b, "%d:", op->lo);
      if (op->hi < 0) vb_printf(b, "-"); else vb_printf(b, "%d", op->hi);
      break;
    case OP_CALL: vb_printf(b, "C"); break;
    case OP_REOPEN: vb_printf(b, "O"); break;
    case OP_SSTREN: vb_printf(b, "X"); break;
    case OP_SNAP: vb_printf(b, "S"); break;
    case OP_REL: vb_printf(b, "s%d", op->idx); break;
    case OP_ITOPEN: vb_printf(b, "I"); break;
    case OP_ITCLOSE: vb_printf(b, "i%d", op->idx); break;
    case OP_DRAIN: vb_printf(b, "W"); break;
    case OP_G100: vb_printf(b, "G%d", op->idx); break;
    default: vb_printf(b, "?"); break;
  }
}

static int
num(const char **s) {
  int v = 0, any = 0;
  while (**s >= '0' && **s <= '9') { v = v * 10 + (**s - '0'); (*s)++; any = 1; }
  return any ? v : -1;
}

static int
parse_upd(kupd_t *u, const char **s) {
  int k;
  if (**s == 'P') {
    (*s)++;
    k = num(s); if (k < 0 || **s != '.') return 0;
    (*s)++;
    u->key = (unsigned char)k; u->del = 0;
    k = num(s); if (k < 0) return 0;
    u->sz = (unsigned char)k;
    return 1;
  }
  if (**s == 'D') {
    (*s)++;
    k = num(s); if (k < 0) return 0;
    u->key = (unsigned char)k; u->del = 1; u->sz = 0;
    return 1;
  }
  return 0;
}

int
kop_parse(kop_t *op, const char *s, const char **end) {
  int k;
  memset(op, 0, sizeof(*op));
  op->lo = op->hi = -1;
  switch (*s) {
    case 'P': case 'D':
      op->kind = (unsigned char)*s;
      if (!parse_upd(&op->u[0], &s)) return 0;
      op->n = 1;
      break;
    case 'B':
      op->kind = OP_BATCH;
      s++;
      if (*s != '[') return 0;
      s++;
      while (*s && *s != ']') {
        if (op->n >= 3) return 0;
        if (!parse_upd(&op->u[op->n], &s)) return 0;
        op->n++;
        if (*s == ',') s++;
      }
      if (*s != ']') return 0;
      s++;
      break;
    case 'M':
      op->kind = OP_BIGBATCH; s++;
      k = num(&s); if (k < 0) return 0;
      op->n = (unsigned char)k;
      break;
    case 'F': op->kind = OP_FLUSH; s++; break;
    case 'C': op->kind = OP_CALL; s++; break;
    case 'O': op->kind = OP_REOPEN; s++; break;
    case 'X': op->kind = OP_SSTREN; s++; break;
    case 'S': op->kind = OP_SNAP; s++; break;
    case 'I': op->kind = OP_ITOPEN; s++; break;
    case 'W': op->kind = OP_DRAIN; s++; break;
    case 's': case 'i': case 'G':
      op->kind = (unsigned char)*s; s++;
      k = num(&s); if (k < 0) return 0;
      op->idx = (unsigned char)k;
      break;
    case 'R':
      op->kind = OP_CRANGE; s++;
      k = num(&s); if (k < 0 || *s != ':') return 0;
      op->level = (signed char)k; s++;
      if (*s == '-') { op->lo = -1; s++; } else { k = num(&s); if (k < 0) return 0; op->lo = (signed char)k; }
      if (*s != ':') return 0;
      s++;
      if (*s == '-') { op->hi = -1; s++; } else { k = num(&s); if (k < 0) return 0; op->hi = (signed char)k; }
      break;
    default: return 0;
  }
  if (*s == '!') { op->sync = 1; s++; }
  if (end) *end = s;
  return 1;
}

/* history text: operations separated by blanks; "N*(op op ...)" repeats a group N times */
int
khist_parse(kop_t *ops, int max, const char *s) {
  int n = 0;
  while (*s) {
    while (*s == ' ') s++;
    if (!*s) break;
    if (*s >= '0' && *s <= '9') {
      const char *q = s;
      int rep = 0, i, m, r;
      char inner[600];
      const char *close;
      while (*q >= '0' && *q <= '9') { rep = rep * 10 + (*q - '0'); q++; }
      if (q[0] == '*' && q[1] == '(' && (close = strchr(q, ')')) != NULL && (size_t)(close - q - 2) < sizeof(inner)) {
        kop_t grp[32];
        memcpy(inner, q + 2, (size_t)(close - q - 2));
        inner[close - q - 2] = 0;
        m = khist_parse(grp, 32, inner);
        if (m < 0) return -1;
        for (r = 0; r < rep; r++)
          for (i = 0; i < m; i++) {
            if (n >= max) return -1;
            ops[n++] = grp[i];
          }
        s = close + 1;
        continue;
      }
      return -1;
    }
    if (n >= max || !kop_parse(&ops[n], s, &s)) return -1;
    n++;
  }
  return n;
}

void
khist_print(const kop_t *ops, int n, vh_buf_t *b) {
  int i;
  for (i = 0; i < n; i++) {
    if (i) vb_printf(b, " ");
    kop_print(&ops[i], b);
  }
}

/* ------------------------------------------------------------------ */
/* history executor                                                   */
/* ------------------------------------------------------------------ */

int kh_vid(int opidx, int j) { return (opidx + 1) * 8 + j; }

void
kv_marker_key(int opidx, char *buf) {
  buf[0] = 'm';
  buf[1] = (char)('0' + (opidx / 10) % 10);
  buf[2] = (char)('0' + opidx % 10);
  buf[3] = 0;
}

void
kh_init(khist_t *h, const kcfg_t *cfg, const char *dbname) {
  memset(h, 0, sizeof(*h));
  h->cfg = *cfg;
  h->dbname = dbname;
  h->auto_drain = 1;
  kopt_init(&h->o, cfg);
}

int
kh_open(khist_t *h) {
  int rc = ldb_open(h->dbname, &h->o.opt, &h->db);
  h->open_status = rc;
  if (getenv("VH_DEBUG_FAULT"))
    fprintf(stderr, "  ldb_open(%s) -> %d, fault fired=%d calls=%ld\n", h->dbname, rc, vfs_cur ? vfs_cur->fault.fired : -1, vfs_cur ? vfs_cur->ncalls : -1);
  if (rc != LDB_OK)
    h->db = NULL;
  else if (h->auto_drain)
    sch_drain();
  return rc;
}

static void
drop_readers(khist_t *h) {
  int i;
  for (i = 0; i < h->niters; i++)
    ldb_iter_destroy(h->iters[i].it);
  h->niters = 0;
  if (h->db)
    for (i = 0; i < h->nsnaps; i++)
      ldb_release(h->db, h->snaps[i].snap);
  h->nsnaps = 0;
}

void
kh_close(khist_t *h) {
  drop_readers(h);
  if (h->db) {
    ldb_close(h->db);
    h->db = NULL;
  }
}

void
kh_clear(khist_t *h) {
  kh_close(h);
  kopt_clear(&h->o);
}

static void
bigbatch_upd(int i, kupd_t *u) {
  u->key = (unsigned char)(i % kv_nkeys);
  u->del = 0;
  u->sz = (i % 7 == 0) ? VS_1K : VS_SHORT;
}

#define R(k) (kv_rep_tab[(k)])

void
kh_model_apply(kmodel_t *m, const kop_t *op, int opidx) {
  int j;
  switch (op->kind) {
    case OP_PUT:
      m->vid[R(op->u[0].key)] = kh_vid(opidx, 0);
      m->sz[R(op->u[0].key)] = op->u[0].sz;
      m->spell[R(op->u[0].key)] = op->u[0].key;
      break;
    case OP_DEL:
      m->vid[R(op->u[0].key)] = 0;
      m->sz[R(op->u[0].key)] = 0;
      m->spell[R(op->u[0].key)] = 0;
      break;
    case OP_BATCH:
      for (j = 0; j < op->n; j++) {
        int r = R(op->u[j].key);
        if (op->u[j].del) { m->vid[r] = 0; m->sz[r] = 0; m->spell[r] = 0; }
        else { m->vid[r] = kh_vid(opidx, j); m->sz[r] = op->u[j].sz; m->spell[r] = op->u[j].key; }
      }
      break;
    case OP_BIGBATCH:
      for (j = 0; j < op->n * 100; j++) {
        kupd_t u;
        bigbatch_upd(j, &u);
        m->vid[R(u.key)] = kh_vid(opidx, 0);
        m->sz[R(u.key)] = u.sz;
        m->spell[R(u.key)] = u.key;
      }
      break;
    default: break;
  }
}

static void
batch_add(ldb_batch_t *b, const kupd_t *u, int vid, unsigned char *vbuf) {
  ldb_slice_t k = ldb_slice(kv_keys[u->key], kv_keylen[u->key]);
  if (u->del) {
    ldb_batch_del(b, &k);
  } else {
    ldb_slice_t v;
    kv_vgen(vbuf, vid, u->sz);
    v = ldb_slice(vbuf, kv_vlen(u->sz));
    ldb_batch_put(b, &k, &v);
  }
}

static int
do_write(khist_t *h, const kop_t *op) {
  static unsigned char *vbuf;
  ldb_writeopt_t wo = *ldb_writeopt_default;
  ldb_batch_t batch;
  kack_t *a = NULL;
  int rc, j, opidx = h->nops;
  if (!vbuf)
    vbuf = malloc(kv_vlen(VS_1M));
  wo.sync = op->sync;
  ldb_batch_init(&batch);
  if (h->markers && !(op->kind == OP_BATCH && op->n == 0)) {
    /* unique marker key per batch: makes the surviving batch set observable
       (a deliberately EMPTY batch stays empty: it has no effect whose survival could matter) */
    char mk[8];
    ldb_slice_t k, v;
    kv_marker_key(opidx, mk);
    kv_vgen(vbuf, kh_vid(opidx, 7), VS_SHORT);
    k = ldb_slice(mk, 3);
    v = ldb_slice(vbuf, kv_vlen(VS_SHORT));
    ldb_batch_put(&batch, &k, &v);
  }
  if (op->kind == OP_BIGBATCH) {
    for (j = 0; j < op->n * 100; j++) {
      kupd_t u;
      bigbatch_upd(j, &u);
      batch_add(&batch, &u, kh_vid(opidx, 0), vbuf);
    }
  } else {
    for (j = 0; j < op->n; j++)
      batch_add(&batch, &op->u[j], kh_vid(opidx, j), vbuf);
  }
  if (h->nacks < KH_MAXACK) {
    a = &h->acks[h->nacks++];
    memset(a, 0, sizeof(*a));
    a->opidx = opidx;
    a->vid0 = kh_vid(opidx, 0);
    a->sync = op->sync;
    a->empty = (op->kind == OP_BATCH && op->n == 0);
    a->op = *op;
    a->j_begin = vfs_cur ? vfs_jlen(vfs_cur) : 0;
    a->c_begin = vfs_cur ? vfs_cur->ncalls : 0;
  }
  if (!h->markers && (op->kind == OP_PUT || op->kind == OP_DEL) && op->n == 1) {
    /* a single update without a marker goes through the convenience entry points */
    const kupd_t *u = &op->u[0];
    ldb_slice_t k = ldb_slice(kv_keys[u->key], kv_keylen[u->key]);
    if (op->kind == OP_DEL) {
      rc = ldb_del(h->db, &k, &wo);
    } else {
      ldb_slice_t v;
      kv_vgen(vbuf, kh_vid(opidx, 0), u->sz);
      v = ldb_slice(vbuf, kv_vlen(u->sz));
      rc = ldb_put(h->db, &k, &v, &wo);
    }
  } else {
    rc = ldb_write(h->db, &batch, &wo);
  }
  if (a) {
    a->status = rc;
    a->j_end = vfs_cur ? vfs_jlen(vfs_cur) : 0;
    a->c_end = vfs_cur ? vfs_cur->ncalls : 0;
  }
  ldb_batch_clear(&batch);
  if (rc == LDB_OK)
    kh_model_apply(&h->model, op, opidx);
  return rc;
}

int
kh_apply(khist_t *h, const kop_t *op) {
  int rc = LDB_OK, i;
  if (!h->db && op->kind != OP_REOPEN)
    return LDB_INVALID;
  switch (op->kind) {
    case OP_PUT: case OP_DEL: case OP_BATCH: case OP_BIGBATCH:
      rc = do_write(h, op);
      break;
    case OP_FLUSH:
      h->iter_open_at_structural = h->niters > 0;
      rc = ldb_test_compact_memtable(h->db);
      break;
    case OP_CRANGE: {
      ldb_slice_t lo, hi;
      h->iter_open_at_structural = h->niters > 0;
      if (op->lo >= 0) lo = ldb_slice(kv_keys[op->lo], kv_keylen[op->lo]);
      if (op->hi >= 0) hi = ldb_slice(kv_keys[op->hi], kv_keylen[op->hi]);
      ldb_test_compact_range(h->db, op->level, op->lo >= 0 ? &lo : NULL, op->hi >= 0 ? &hi : NULL);
      break;
    }
    case OP_CALL:
      h->iter_open_at_structural = h->niters > 0;
      ldb_compact(h->db, NULL, NULL);
      break;
    case OP_REOPEN:
      h->iter_open_at_structural = 0;
      kh_close(h);
      rc = kh_open(h);
      break;
    case OP_SSTREN: {
      /* close; give every table the legacy LevelDB name NNNNNN.sst; reopen */
      char names[256][64];
      int nn, q;
      h->iter_open_at_structural = 0;
      kh_close(h);
      nn = vfs_list(vfs_cur, h->dbname, names, 256);
      for (q = 0; q < nn; q++) {
        size_t l = strlen(names[q]);
        if (l > 4 && strcmp(names[q] + l - 4, ".ldb") == 0) {
          char a[400], b2[400];
          snprintf(a, sizeof(a), "%s/%s", h->dbname, names[q]);
          snprintf(b2, sizeof(b2), "%s/%.*s.sst", h->dbname, (int)(l - 4), names[q]);
          rename(a, b2);
        }
      }
      rc = kh_open(h);
      break;
    }
    case OP_SNAP:
      if (h->nsnaps < KH_MAXSNAP) {
        h->snaps[h->nsnaps].snap = ldb_snapshot(h->db);
        h->snaps[h->nsnaps].model = h->model;
        h->snaps[h->nsnaps].born = h->nops;
        h->nsnaps++;
      }
      break;
    case OP_REL:
      if (op->idx < h->nsnaps) {
        ldb_release(h->db, h->snaps[op->idx].snap);
        for (i = op->idx; i + 1 < h->nsnaps; i++)
          h->snaps[i] = h->snaps[i + 1];
        h->nsnaps--;
      }
      break;
    case OP_ITOPEN:
      if (h->niters < KH_MAXITER) {
        h->iters[h->niters].it = ldb_iterator(h->db, NULL);
        h->iters[h->niters].model = h->model;
        h->iters[h->niters].born = h->nops;
        h->niters++;
      }
      break;
    case OP_ITCLOSE:
      if (op->idx < h->niters) {
        ldb_iter_destroy(h->iters[op->idx].it);
        for (i = op->idx; i + 1 < h->niters; i++)
          h->iters[i] = h->iters[i + 1];
        h->niters--;
      }
      break;
    case OP_DRAIN:
      sch_drain();
      break;
    case OP_G100: {
      ldb_slice_t k = ldb_slice(kv_keys[op->idx], kv_keylen[op->idx]);
      for (i = 0; i < 100; i++) {
        int r = ldb_has(h->db, &k, NULL);
        int want = h->model.vid[R(op->idx)] ? LDB_OK : LDB_NOTFOUND;
        if (r != want)
          rc = r ? r : LDB_INVALID;
      }
      break;
    }
    default:
      vh_die("bad op kind %d", op->kind);
  }
  h->nops++;
  h->last_status = rc;
  if (h->auto_drain && h->db)
    sch_drain();
  return rc;
}

/* ------------------------------------------------------------------ */
/* oracles                                                            */
/* ------------------------------------------------------------------ */

static void
describe_val(char *out, size_t n, const void *data, size_t len) {
  char tag[12];
  size_t k = len < 10 ? len : 10;
  memcpy(tag, data, k);
  tag[k] = 0;
  for (size_t i = 0; i < k; i++)
    if (tag[i] < 32 || tag[i] > 126) tag[i] = '?';
  snprintf(out, n, "%s(len=%zu)", tag, len);
}

static void
keyname(char *out, size_t n, int k) {
  if (kv_keylen[k] > 20)
    snprintf(out, n, "#%d(len=%zu)", k, kv_keylen[k]);
  else {
    size_t i, p = 0;
    p += (size_t)snprintf(out + p, n - p, "#%d'", k);
    for (i = 0; i < kv_keylen[k] && p + 6 < n; i++) {
      unsigned char c = (unsigned char)kv_keys[k][i];
      if (c >= 32 && c < 127) out[p++] = (char)c;
      else p += (size_t)snprintf(out + p, n - p, "\\x%02x", c);
    }
    snprintf(out + p, n - p, "'");
  }
}

int
ko_gets(khist_t *h, const kmodel_t *m, const ldb_snapshot_t *snap, int verify) {
  ldb_readopt_t ro = *ldb_readopt_default;
  int k;
  ro.verify_checksums = verify;
  ro.snapshot = snap;
  for (k = 0; k < kv_nkeys + 2; k++) {
    ldb_slice_t key = ldb_slice(kv_keys[k], kv_keylen[k]);
    ldb_slice_t val;
    int vid = (k < kv_nkeys || R(k) < kv_nkeys) ? m->vid[R(k)] : 0;
    int sz = (k < kv_nkeys || R(k) < kv_nkeys) ? m->sz[R(k)] : 0;
    int rc = ldb_get(h->db, &key, &val, &ro);
    int rh;
    char kn[64], vd[64];
    keyname(kn, sizeof(kn), k);
    if (vid) {
      if (rc != LDB_OK) {
        snprintf(h->err, sizeof(h->err), "get %s%s: status %d (%s), expected value v%08d size-class %d",
                 kn, snap ? " @snapshot" : "", rc, ldb_strerror(rc), vid, sz);
        return 0;
      }
      if (!kv_vcheck(val.data, val.size, vid, sz)) {
        describe_val(vd, sizeof(vd), val.data, val.size);
        snprintf(h->err, sizeof(h->err), "get %s%s: got %s, expected v%08d(len=%zu)", kn, snap ? " @snapshot" : "",
                 vd, vid, kv_vlen(sz));
        ldb_free(val.data);
        return 0;
      }
      ldb_free(val.data);
    } else {
      if (rc == LDB_OK) {
        describe_val(vd, sizeof(vd), val.data, val.size);
        snprintf(h->err, sizeof(h->err), "get %s%s: got %s, expected not-found", kn, snap ? " @snapshot" : "", vd);
        ldb_free(val.data);
        return 0;
      }
      if (rc != LDB_NOTFOUND) {
        snprintf(h->err, sizeof(h->err), "get %s%s: status %d (%s), expected not-found", kn, snap ? " @snapshot" : "",
                 rc, ldb_strerror(rc));
        return 0;
      }
    }
    rh = ldb_has(h->db, &key, &ro);
    if (rh != (vid ? LDB_OK : LDB_NOTFOUND)) {
      snprintf(h->err, sizeof(h->err), "has %s: status %d, expected %s", kn, rh, vid ? "OK" : "not-found");
      return 0;
    }
  }
  return 1;
}

static int
check_entry(khist_t *h, ldb_iter_t *it, const kmodel_t *m, int k, const char *dir) {
  ldb_slice_t key = ldb_iter_key(it), val = ldb_iter_value(it);
  char kn[64], vd[64];
  int sp = m->spell[k];   /* the spelling used by the newest write is what an iterator yields */
  keyname(kn, sizeof(kn), sp);
  if (key.size != kv_keylen[sp] || (key.size && memcmp(key.data, kv_keys[sp], key.size) != 0)) {
    describe_val(vd, sizeof(vd), key.data, key.size);
    snprintf(h->err, sizeof(h->err), "%s scan: at expected key %s the iterator is on key %s", dir, kn, vd);
    return 0;
  }
  if (!kv_vcheck(val.data, val.size, m->vid[k], m->sz[k])) {
    describe_val(vd, sizeof(vd), val.data, val.size);
    snprintf(h->err, sizeof(h->err), "%s scan: key %s has value %s, expected v%08d(len=%zu)", dir, kn, vd, m->vid[k],
             kv_vlen(m->sz[k]));
    return 0;
  }
  return 1;
}

int
ko_scan(khist_t *h, const kmodel_t *m, const ldb_snapshot_t *snap, ldb_iter_t *use_iter, int verify) {
  ldb_readopt_t ro = *ldb_iteropt_default;
  ldb_iter_t *it;
  int order[KV_MAXKEYS], n = kv_order(&h->cfg, order), i, ok = 1, rc;
  ro.verify_checksums = verify;
  ro.snapshot = snap;
  it = use_iter ? use_iter : ldb_iterator(h->db, &ro);
  ldb_iter_first(it);
  for (i = 0; i < n && ok; i++) {
    int k = order[i];
    if (!m->vid[k])
      continue;
    if (!ldb_iter_valid(it)) {
      char kn[64];
      keyname(kn, sizeof(kn), k);
      snprintf(h->err, sizeof(h->err), "forward scan%s ended before live key %s (iterator status %d)",
               snap ? " @snapshot" : (use_iter ? " (held iterator)" : ""), kn, ldb_iter_status(it));
      ok = 0;
      break;
    }
    ok = check_entry(h, it, m, k, "forward");
    ldb_iter_next(it);
  }
  if (ok && ldb_iter_valid(it)) {
    char vd[64];
    ldb_slice_t key = ldb_iter_key(it);
    describe_val(vd, sizeof(vd), key.data, key.size);
    snprintf(h->err, sizeof(h->err), "forward scan yields extra key %s", vd);
    ok = 0;
  }
  if (ok) {
    ldb_iter_last(it);
    for (i = n - 1; i >= 0 && ok; i--) {
      int k = order[i];
      if (!m->vid[k])
        continue;
      if (!ldb_iter_valid(it)) {
        char kn[64];
        keyname(kn, sizeof(kn), k);
        snprintf(h->err, sizeof(h->err), "backward scan ended before live key %s (iterator status %d)", kn,
                 ldb_iter_status(it));
        ok = 0;
        break;
      }
      ok = check_entry(h, it, m, k, "backward");
      ldb_iter_prev(it);
    }
    if (ok && ldb_iter_valid(it)) {
      snprintf(h->err, sizeof(h->err), "backward scan yields an extra key");
      ok = 0;
    }
  }
  rc = ldb_iter_status(it);
  if (ok && rc != LDB_OK) {
    snprintf(h->err, sizeof(h->err), "iterator status %d (%s) after complete scans", rc, ldb_strerror(rc));
    ok = 0;
  }
  if (!use_iter)
    ldb_iter_destroy(it);
  return ok;
}

int
ko_snapshots(khist_t *h) {
  int i;
  for (i = 0; i < h->nsnaps; i++) {
    if (!ko_gets(h, &h->snaps[i].model, h->snaps[i].snap, 0))
      return 0;
    if (!ko_scan(h, &h->snaps[i].model, h->snaps[i].snap, NULL, 0))
      return 0;
  }
  return 1;
}

int
ko_held_iters(khist_t *h) {
  int i;
  for (i = 0; i < h->niters; i++)
    if (!ko_scan(h, &h->iters[i].model, NULL, h->iters[i].it, 0))
      return 0;
  return 1;
}

/* ------------------------------------------------------------------ */
/* reference cursor                                                   */
/* ------------------------------------------------------------------ */

void
kcur_init(kcursor_t *c, const kmodel_t *m, const kcfg_t *cfg) {
  int order[KV_MAXKEYS], n = kv_order(cfg, order), i;
  c->n = 0;
  for (i = 0; i < n; i++)
    if (m->vid[order[i]])
      c->keys[c->n++] = m->spell[order[i]];
  c->pos = -1;
}

void
kcur_call(kcursor_t *c, int call, const char *t, size_t tn, const kcfg_t *cfg) {
  int i;
  switch (call) {
    case CU_FIRST: c->pos = c->n ? 0 : -1; break;
    case CU_LAST: c->pos = c->n ? c->n - 1 : -1; break;
    case CU_NEXT:
      if (c->pos >= 0) { c->pos++; if (c->pos >= c->n) c->pos = -1; }
      break;
    case CU_PREV:
      if (c->pos >= 0) c->pos--;
      break;
    case CU_SEEK: case CU_GE:
      c->pos = -1;
      for (i = 0; i < c->n; i++)
        if (kv_cmp(cfg, kv_keys[c->keys[i]], kv_keylen[c->keys[i]], t, tn) >= 0) { c->pos = i; break; }
      break;
    case CU_GT:
      c->pos = -1;
      for (i = 0; i < c->n; i++)
        if (kv_cmp(cfg, kv_keys[c->keys[i]], kv_keylen[c->keys[i]], t, tn) > 0) { c->pos = i; break; }
      break;
    case CU_LE:
      c->pos = -1;
      for (i = c->n - 1; i >= 0; i--)
        if (kv_cmp(cfg, kv_keys[c->keys[i]], kv_keylen[c->keys[i]], t, tn) <= 0) { c->pos = i; break; }
      break;
    case CU_LT:
      c->pos = -1;
      for (i = c->n - 1; i >= 0; i--)
        if (kv_cmp(cfg, kv_keys[c->keys[i]], kv_keylen[c->keys[i]], t, tn) < 0) { c->pos = i; break; }
      break;
  }
}

/* ------------------------------------------------------------------ */
/* layout / directory helpers                                         */
/* ------------------------------------------------------------------ */

/* parse "leveldb.sstables": lines "--- level N ---" then " num:size[...]".
 * Returns number of files; fills nums/levels. */
int
kv_parse_sstables(ldb_t *db, uint64_t *nums, int *levels, int max) {
  char *s = NULL, *p;
  int n = 0, level = -1;
  if (!ldb_property(db, "leveldb.sstables", &s) || !s)
    return -1;
  for (p = s; *p;) {
    char *e = strchr(p, '\n');
    size_t len = e ? (size_t)(e - p) : strlen(p);
    if (len > 10 && strncmp(p, "--- level ", 10) == 0) {
      level = atoi(p + 10);
    } else if (len > 1 && p[0] == ' ' && p[1] >= '0' && p[1] <= '9') {
      if (n < max) {
        nums[n] = strtoull(p + 1, NULL, 10);
        levels[n] = level;
        n++;
      }
    }
    if (!e)
      break;
    p = e + 1;
  }
  ldb_free(s);
  return n;
}


/* (b) directory holds exactly the live files */
int
kv_files_exact_check(ldb_t *db, const char *dbdir, char *err, size_t en) {
  return kv_files_exact_check2(db, dbdir, -1, err, en);
}

/* min_log >= 0: the log number recorded in the live MANIFEST - every log file numbered >= min_log
 * is live (lcdb replays them all at the next open), anything older is garbage */
int
kv_files_exact_check2(ldb_t *db, const char *dbdir, long long min_log, char *err, size_t en) {
  char names[256][64];
  uint64_t nums[64];
  int levels[64], n, nn, i, j, nlogs = 0, ncur = 0, nman = 0;
  char cur[128] = "";
  int ci;
  n = kv_parse_sstables(db, nums, levels, 64);
  nn = vfs_list(vfs_cur, dbdir, names, 256);
  {
    char cp[300];
    snprintf(cp, sizeof(cp), "%s/CURRENT", dbdir);
    ci = vfs_lookup(vfs_cur, cp);
  }
  if (ci >= 0) {
    const vinode_t *ino = vfs_inode(vfs_cur, ci);
    size_t l = ino->len < 100 ? ino->len : 100;
    memcpy(cur, ino->data, l);
    cur[l] = 0;
    if (l && cur[l - 1] == '\n')
      cur[l - 1] = 0;
  }
  for (i = 0; i < nn; i++) {
    const char *nm = names[i];
    size_t l = strlen(nm);
    if (strcmp(nm, "CURRENT") == 0) { ncur++; continue; }
    if (strcmp(nm, "LOCK") == 0) continue;
    if (strcmp(nm, "LOG") == 0 || strcmp(nm, "LOG.old") == 0) continue;
    if (strncmp(nm, "MANIFEST-", 9) == 0) {
      nman++;
      if (strcmp(nm, cur) != 0) {
        snprintf(err, en, "stale descriptor %s left in the directory (CURRENT names %s)", nm, cur);
        return 0;
      }
      continue;
    }
    if (l > 4 && strcmp(nm + l - 4, ".log") == 0) {
      nlogs++;
      if (min_log >= 0 && (long long)strtoull(nm, NULL, 10) < min_log) {
        snprintf(err, en, "obsolete write-ahead log %s (older than the log number %lld recorded in the MANIFEST) left after the operation completed", nm, min_log);
        return 0;
      }
      continue;
    }
    if (l > 4 && (strcmp(nm + l - 4, ".ldb") == 0 || strcmp(nm + l - 4, ".sst") == 0)) {
      uint64_t num = strtoull(nm, NULL, 10);
      for (j = 0; j < n; j++)
        if (nums[j] == num)
          break;
      if (j == n) {
        snprintf(err, en, "orphan table file %s (not part of the current version) left after the operation completed", nm);
        return 0;
      }
      continue;
    }
    if (l > 6 && strcmp(nm + l - 6, ".dbtmp") == 0) {
      snprintf(err, en, "temporary file %s left in the directory", nm);
      return 0;
    }
    snprintf(err, en, "unexpected file %s in the database directory", nm);
    return 0;
  }
  if (ncur != 1 || nman != 1) {
    snprintf(err, en, "directory has %d CURRENT and %d MANIFEST files", ncur, nman);
    return 0;
  }
  if ((min_log < 0 && nlogs != 1) || nlogs < 1) {
    snprintf(err, en, "%d write-ahead logs left after the operation completed (expected exactly the live one)", nlogs);
    return 0;
  }
  return 1;
}


/* ------------------------------------------------------------------ */
/* observation of a database whose batches carried marker keys        */
/* ------------------------------------------------------------------ */

static int
parse_vid(const ldb_slice_t *v, int *vid, int *sz) {
  const unsigned char *d = v->data;
  int s;
  if (v->size < 10 || d[0] != 'v' || d[9] != ':')
    return 0;
  *vid = atoi((const char *)d + 1);
  for (s = VS_SHORT; s <= VS_MAX; s++)
    if (kv_vlen(s) == v->size) {
      *sz = s;
      return kv_vcheck(v->data, v->size, *vid, s);
    }
  return 0;
}

void
kv_observe(ldb_t *db, const kack_t *acks, int nacks, kobs_t *o) {
  int k, i;
  ldb_iter_t *it;
  int seen_user[KV_MAXKEYS] = {0};
  uint32_t seen_mark = 0;
  o->U = 0;
  memset(&o->m, 0, sizeof(o->m));
  for (k = 0; k < kv_nkeys; k++) {
    ldb_slice_t key = ldb_slice(kv_keys[k], kv_keylen[k]), val;
    int rc = ldb_get(db, &key, &val, NULL);
    if (rc == LDB_OK) {
      int vid, sz;
      if (!parse_vid(&val, &vid, &sz)) {
        o->bad = 1;
        snprintf(o->err, sizeof(o->err), "key #%d holds bytes that no issued write produced (len=%zu)", k, val.size);
      } else {
        o->m.vid[k] = vid;
        o->m.sz[k] = (unsigned char)sz;
        o->m.spell[k] = (unsigned char)k;   /* observation drivers use comparators without equivalent spellings */
      }
      ldb_free(val.data);
    } else if (rc != LDB_NOTFOUND) {
      o->bad = 1;
      snprintf(o->err, sizeof(o->err), "get of key #%d returned status %d (%s) after recovery", k, rc, ldb_strerror(rc));
    }
  }
  for (i = 0; i < nacks; i++) {
    char mk[8];
    ldb_slice_t key, val;
    int rc;
    kv_marker_key(acks[i].opidx, mk);
    key = ldb_slice(mk, 3);
    rc = ldb_get(db, &key, &val, NULL);
    if (rc == LDB_OK) {
      int vid, sz;
      if (!parse_vid(&val, &vid, &sz) || vid != kh_vid(acks[i].opidx, 7)) {
        o->bad = 1;
        snprintf(o->err, sizeof(o->err), "marker of batch %d holds foreign bytes", i);
      }
      o->U |= 1u << i;
      ldb_free(val.data);
    } else if (rc != LDB_NOTFOUND) {
      o->bad = 1;
      snprintf(o->err, sizeof(o->err), "get of marker %d returned status %d after recovery", i, rc);
    }
  }
  /* full scan must show exactly the same entries */
  it = ldb_iterator(db, NULL);
  for (ldb_iter_first(it); ldb_iter_valid(it); ldb_iter_next(it)) {
    ldb_slice_t key = ldb_iter_key(it), val = ldb_iter_value(it);
    int vid, sz, found = 0;
    if (!parse_vid(&val, &vid, &sz)) {
      o->bad = 1;
      snprintf(o->err, sizeof(o->err), "scan yields a value no issued write produced");
      continue;
    }
    for (k = 0; k < kv_nkeys; k++)
      if (key.size == kv_keylen[k] && (key.size == 0 || memcmp(key.data, kv_keys[k], key.size) == 0)) {
        found = 1;
        seen_user[k] = 1;
        if (o->m.vid[k] != vid || o->m.sz[k] != sz) {
          o->bad = 1;
          snprintf(o->err, sizeof(o->err), "scan and get disagree on key #%d (scan v%d, get v%d)", k, vid, o->m.vid[k]);
        }
      }
    if (!found && key.size == 3 && ((char *)key.data)[0] == 'm') {
      for (i = 0; i < nacks; i++) {
        char mk[8];
        kv_marker_key(acks[i].opidx, mk);
        if (memcmp(mk, key.data, 3) == 0) {
          found = 1;
          seen_mark |= 1u << i;
        }
      }
    }
    if (!found) {
      o->bad = 1;
      snprintf(o->err, sizeof(o->err), "scan yields a key that was never written (len=%zu)", key.size);
    }
  }
  if (ldb_iter_status(it) != LDB_OK) {
    o->bad = 1;
    snprintf(o->err, sizeof(o->err), "iterator status %d after recovery", ldb_iter_status(it));
  }
  ldb_iter_destroy(it);
  for (k = 0; k < kv_nkeys; k++)
    if ((o->m.vid[k] != 0) != seen_user[k] && !o->bad) {
      o->bad = 1;
      snprintf(o->err, sizeof(o->err), "scan and get disagree on the presence of key #%d", k);
    }
  if (seen_mark != o->U && !o->bad) {
    o->bad = 1;
    snprintf(o->err, sizeof(o->err), "scan and get disagree on the marker set (%x vs %x)", seen_mark, o->U);
  }
  o->hash = vh_mix(kmodel_hash(&o->m), o->U);
}



/* ------------------------------------------------------------------ */
/* recovery must not hand out the number of a log that is in the image */
/* ------------------------------------------------------------------ */

/* v = a crash image on which a recovery (ldb_open ...) has just run: its base snapshot is the image, its
 * journal is what the recovery did.  A log created by the recovery must not carry the number of a
 * write-ahead log present in the image (C13: file numbers are never reused for a different live file; the
 * descriptor is exempt: lcdb, like LevelDB, fixes the new MANIFEST's number before it looks at the logs).
 * Returns 1 and sets err on a clash. */
int
kv_recovery_number_clash(const vfs_t *v, const char *dbdir, char *err, size_t en) {
  uint64_t logs[64];
  int nlogs = 0, i, j;
  size_t dl = strlen(dbdir);
  for (i = 0; i < v->nbase && nlogs < 64; i++) {
    const char *p = v->base[i].path;
    size_t l = strlen(p);
    if (strncmp(p, dbdir, dl) == 0 && p[dl] == '/' && !strchr(p + dl + 1, '/') && l > 4 && strcmp(p + l - 4, ".log") == 0)
      logs[nlogs++] = strtoull(p + dl + 1, NULL, 10);
  }
  for (j = 0; j < v->njournal; j++) {
    const vjent_t *e = &v->journal[j];
    const char *p = e->path;
    size_t l;
    uint64_t n;
    if ((e->kind != J_CREATE && e->kind != J_REPLACE) || !p)
      continue;
    l = strlen(p);
    if (strncmp(p, dbdir, dl) != 0 || p[dl] != '/' || strchr(p + dl + 1, '/') || l < 5)
      continue;
    /* only a LOG named like an image log is judged: lcdb (like LevelDB) marks a log's number as used after it
     * has replayed it, so a table written while replaying NNNNNN.log may be called NNNNNN.ldb; the two names
     * never collide and the log is deleted once the recovery commits */
    if (strcmp(p + l - 4, ".log") != 0)
      continue;
    n = strtoull(p + dl + 1, NULL, 10);
    for (i = 0; i < nlogs; i++)
      if (logs[i] == n) {
        snprintf(err, en, "recovery creates %s although the crash image holds the write-ahead log %06llu.log: the number of a log still to be replayed was handed out again",
                 p + dl + 1, (unsigned long long)n);
        return 1;
      }
  }
  return 0;
}
