/* drv.c - see drv.h */
#define _GNU_SOURCE
#include <fcntl.h>
#include <sys/mman.h>
#include <sys/syscall.h>
#include <unistd.h>
#include "drv.h"

drv_args_t drv;
static struct timespec t0;
static char *case_buf;
static int nviol, nsample;
static vh_set_t printed_sets;
static int sets_init;

static double
now_s(void) {
  struct timespec t;
  clock_gettime(CLOCK_MONOTONIC, &t);
  return (double)(t.tv_sec - t0.tv_sec) + (double)(t.tv_nsec - t0.tv_nsec) / 1e9;
}

const char *
drv_opt(const char *name, const char *dflt) {
  int i;
  for (i = 1; i + 1 < drv.argc; i++)
    if (drv.argv[i][0] == '-' && drv.argv[i][1] == '-' && strcmp(drv.argv[i] + 2, name) == 0)
      return drv.argv[i + 1];
  return dflt;
}

long
drv_opt_long(const char *name, long dflt) {
  const char *s = drv_opt(name, NULL);
  return s ? strtol(s, NULL, 0) : dflt;
}

void
drv_init(int argc, char **argv) {
  const char *s, *cf;
  clock_gettime(CLOCK_MONOTONIC, &t0);
  memset(&drv, 0, sizeof(drv));
  drv.argc = argc;
  drv.argv = argv;
  drv.nshards = 1;
  s = drv_opt("tier", "quick");
  drv.thorough = strcmp(s, "thorough") == 0;
  s = drv_opt("shard", "0/1");
  if (sscanf(s, "%d/%d", &drv.shard, &drv.nshards) != 2 || drv.nshards < 1 || drv.shard < 0 || drv.shard >= drv.nshards)
    vh_die("bad --shard");
  drv.replay = drv_opt("replay", NULL);
  drv.deadline_s = atof(drv_opt("deadline", "0"));
  drv.seed = drv_opt_long("seed", 0);
  cf = getenv("VH_CASE_FILE");
  if (cf) {
    int fd = (int)syscall(SYS_openat, AT_FDCWD, cf, O_RDWR | O_CREAT, 0644);
    if (fd >= 0) {
      if (syscall(SYS_ftruncate, fd, 8192) == 0) {
        void *p = (void *)syscall(SYS_mmap, NULL, 8192, PROT_READ | PROT_WRITE, MAP_SHARED, fd, 0);
        if (p != MAP_FAILED)
          case_buf = p;
      }
      syscall(SYS_close, fd);
    }
  }
  setvbuf(stdout, NULL, _IOLBF, 0);
}

int drv_mine(uint64_t index) { return (int)(index % (uint64_t)drv.nshards) == drv.shard; }
double drv_elapsed(void) { return now_s(); }
int drv_deadline_hit(void) { return drv.deadline_s > 0 && now_s() > drv.deadline_s; }
int drv_nviol(void) { return nviol; }

void
drv_case(const char *fmt, ...) {
  va_list ap;
  if (!case_buf)
    return;
  va_start(ap, fmt);
  vsnprintf(case_buf, 8190, fmt, ap);
  va_end(ap);
}

void
drv_viol(const char *sig, const char *detail, const char *replay_json) {
  vh_buf_t b;
  nviol++;
  if (nviol > 50)
    return; /* enough to report; the count is still in RESULT */
  vb_init(&b);
  vb_printf(&b, "{\"sig\":");
  vb_json_str(&b, sig, strlen(sig));
  vb_printf(&b, ",\"detail\":");
  vb_json_str(&b, detail, strlen(detail));
  vb_printf(&b, ",\"replay\":%s}", replay_json && *replay_json ? replay_json : "null");
  printf("VIOL %s\n", b.p);
  fflush(stdout);
  vb_free(&b);
}

void
drv_sample(const char *json) {
  if (nsample++ < 6)
    printf("SAMPLE %s\n", json);
}

void
drv_set(const char *name, uint64_t h) {
  uint64_t k;
  if (!sets_init) {
    vs_init(&printed_sets);
    sets_init = 1;
  }
  k = vh_mix(vh_hash64(name, strlen(name), 7), h);
  if (printed_sets.n > 200000)
    return;
  if (vs_add(&printed_sets, k))
    printf("SET %s %016llx\n", name, (unsigned long long)h);
}

void
drv_note(const char *fmt, ...) {
  va_list ap;
  printf("NOTE ");
  va_start(ap, fmt);
  vprintf(fmt, ap);
  va_end(ap);
  printf("\n");
}

void
drv_result(const char *json_fields) {
  printf("RESULT {%s%s\"violations\":%d,\"wall_s\":%.3f}\n", json_fields, (json_fields && *json_fields) ? "," : "",
         nviol, now_s());
  fflush(stdout);
}
