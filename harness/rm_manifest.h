/* rm_manifest.h - independent reference codec for LevelDB MANIFEST records
 * (VersionEdit) and a fold of an edit list into the metadata state it denotes.
 *
 * Written from the LevelDB format description (doc/impl.md, doc/log_format.md and
 * the VersionEdit tag table), NOT from lcdb's sources:
 *
 *   record    := field*
 *   field     := varint32 tag, payload
 *   tag 1  comparator name      : length-prefixed string (varint32 len, bytes)
 *   tag 2  log number           : varint64
 *   tag 3  next file number     : varint64
 *   tag 4  last sequence        : varint64
 *   tag 5  compact pointer      : varint32 level, length-prefixed internal key
 *   tag 6  deleted file         : varint32 level, varint64 file number
 *   tag 7  new file             : varint32 level, varint64 number, varint64 size,
 *                                 length-prefixed smallest, length-prefixed largest
 *   tag 8  (historic, large value refs) - rejected
 *   tag 9  prev log number      : varint64
 *
 * varint: little-endian base 128, bit 7 = "more bytes follow"; a varint32 has at
 * most 5 bytes, a varint64 at most 10.  Like the LevelDB reference decoder, bits
 * of the last byte that do not fit the 32/64-bit result are dropped, and
 * non-minimal encodings (e.g. 0x81 0x00 for 1) are accepted.
 * An internal key is user_key ++ 8-byte (sequence<<8|type) trailer, so a key
 * shorter than 8 bytes is malformed; levels are 0..RM_NUM_LEVELS-1.
 *
 * Every global symbol in this module is prefixed rm_.
 */
#ifndef RM_MANIFEST_H
#define RM_MANIFEST_H

#include <stddef.h>
#include <stdint.h>

#define RM_NUM_LEVELS 7

/* ---- varints ------------------------------------------------------- */

size_t rm_varint32_len(uint32_t v);
size_t rm_varint64_len(uint64_t v);
size_t rm_varint32_put(uint8_t *dst, uint32_t v);   /* returns bytes written (<= 5) */
size_t rm_varint64_put(uint8_t *dst, uint64_t v);   /* returns bytes written (<= 10) */
/* decode from [p, p+n): returns bytes consumed (>= 1) or 0 on malformed/truncated */
size_t rm_varint32_get(const uint8_t *p, size_t n, uint32_t *v);
size_t rm_varint64_get(const uint8_t *p, size_t n, uint64_t *v);

/* ---- one VersionEdit ----------------------------------------------- */

typedef struct rm_str_s {
  uint8_t *p;   /* owned copy (NULL when n == 0) */
  size_t n;
} rm_str_t;

typedef struct rm_cptr_s {
  uint32_t level;
  rm_str_t key;
} rm_cptr_t;

typedef struct rm_delfile_s {
  uint32_t level;
  uint64_t number;
} rm_delfile_t;

typedef struct rm_newfile_s {
  uint32_t level;
  uint64_t number;
  uint64_t size;
  rm_str_t smallest;
  rm_str_t largest;
} rm_newfile_t;

typedef struct rm_edit_s {
  int has_comparator, has_log_number, has_prev_log_number, has_next_file, has_last_seq;
  rm_str_t comparator;
  uint64_t log_number, prev_log_number, next_file, last_seq;
  /* in order of appearance in the record */
  rm_cptr_t *cptrs;    size_t ncptrs, cap_cptrs;
  rm_delfile_t *dels;  size_t ndels, cap_dels;
  rm_newfile_t *news;  size_t nnews, cap_news;
} rm_edit_t;

enum {
  RM_OK = 0,
  RM_E_TAG_VARINT,      /* truncated / overlong tag */
  RM_E_UNKNOWN_TAG,
  RM_E_TRUNCATED,       /* payload varint or string cut short */
  RM_E_LEVEL,           /* level >= RM_NUM_LEVELS */
  RM_E_SHORT_KEY        /* internal key shorter than 8 bytes */
};

void rm_edit_init(rm_edit_t *e);
void rm_edit_free(rm_edit_t *e);
/* builders (used for expected values and by tests) */
void rm_edit_set_comparator(rm_edit_t *e, const void *p, size_t n);
void rm_edit_add_cptr(rm_edit_t *e, uint32_t level, const void *k, size_t kn);
void rm_edit_add_del(rm_edit_t *e, uint32_t level, uint64_t number);
void rm_edit_add_new(rm_edit_t *e, uint32_t level, uint64_t number, uint64_t size,
                     const void *sk, size_t skn, const void *lk, size_t lkn);
/* sort deleted files by (level, number) and drop duplicates: the set a
 * LevelDB VersionEdit holds (std::set<pair<int,uint64_t>>) in its iteration order */
void rm_edit_canon_dels(rm_edit_t *e);

/* Decode one record.  Returns RM_OK or an RM_E_* code; on error *e holds the
 * fields decoded so far (still to be freed with rm_edit_free). */
int rm_edit_decode(rm_edit_t *e, const uint8_t *p, size_t n);
const char *rm_strerror(int code);

/* Encode in the field order LevelDB's VersionEdit::EncodeTo emits: comparator,
 * log number, prev log number, next file, last sequence, compact pointers,
 * deleted files, new files.  Returns a malloc'd buffer, length in *n. */
uint8_t *rm_edit_encode(const rm_edit_t *e, size_t *n);

/* field-wise equality (lists compared in order); on mismatch a short
 * description is written to why[whylen] */
int rm_edit_equal(const rm_edit_t *a, const rm_edit_t *b, char *why, size_t whylen);

/* ---- fold of an edit list ------------------------------------------ */

typedef struct rm_level_s {
  rm_newfile_t *files; size_t nfiles, cap;   /* kept sorted by file number */
  int has_cptr;
  rm_str_t cptr;
} rm_level_t;

typedef struct rm_state_s {
  int has_comparator, has_log_number, has_prev_log_number, has_next_file, has_last_seq;
  rm_str_t comparator;
  uint64_t log_number, prev_log_number, next_file, last_seq;
  rm_level_t levels[RM_NUM_LEVELS];
  uint64_t edits_applied;
  uint64_t dels_of_absent;   /* deletions naming a file that was not live (diagnostic) */
  uint64_t dup_adds;         /* additions of a (level, number) that was already live */
} rm_state_t;

void rm_state_init(rm_state_t *s);
void rm_state_free(rm_state_t *s);
/* Apply one edit the way LevelDB's VersionSet::Builder does: scalar fields
 * override when present, compact pointers overwrite per level, then the
 * deletions of the edit are applied, then its additions (so an edit that both
 * deletes and adds file N at a level leaves N live). */
void rm_state_apply(rm_state_t *s, const rm_edit_t *e);
/* Decode + apply every record of a list; returns RM_OK or the first decode error
 * (records[i], lens[i]); *bad receives the failing index. */
int rm_state_replay(rm_state_t *s, const uint8_t *const *records, const size_t *lens,
                    size_t nrecords, size_t *bad);
size_t rm_state_total_files(const rm_state_t *s);
/* order-independent 64-bit signature of the whole state (for canonicalisers) */
uint64_t rm_state_hash(const rm_state_t *s);
int rm_state_equal(const rm_state_t *a, const rm_state_t *b);

#endif
