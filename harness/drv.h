/* drv.h - common driver support: command line, output protocol, case tracking.
 *
 * Output protocol (stdout, one record per line, consumed by tools/runcheck.py):
 *   VIOL <json>     a violation, already re-executed once and reproduced:
 *                   {"sig": "<stable signature>", "detail": "...", "replay": <json>}
 *   SAMPLE <json>   an example of an explored case (a few per run)
 *   SET <name> <hex64>   member of a named set whose UNION over shards is counted
 *   NOTE <text>     free text copied into the evidence
 *   RESULT <json>   final counters of this shard; numeric fields are summed over
 *                   shards, "exhaustive" is and-ed, "caps" lists are concatenated
 * A driver exits 0 after printing RESULT (violations or not); exit 2 = harness
 * error; any other death (sanitizer report, signal) is attributed to the case
 * last announced with drv_case().
 */
#ifndef DRV_H
#define DRV_H

#include <stdarg.h>
#include <stdint.h>
#include <stdio.h>
#include <stdlib.h>
#include <string.h>
#include <time.h>
#include "vh.h"

typedef struct drv_args_s {
  int thorough;            /* --tier thorough */
  int shard, nshards;      /* --shard i/n */
  const char *replay;      /* --replay <text> : re-execute one case */
  double deadline_s;       /* --deadline <seconds> (0 = none): stop cleanly, exhaustive=false */
  long seed;               /* --seed */
  int argc; char **argv;   /* all args, for driver-specific options */
} drv_args_t;

extern drv_args_t drv;

void drv_init(int argc, char **argv);
const char *drv_opt(const char *name, const char *dflt); /* --name value */
long drv_opt_long(const char *name, long dflt);
int drv_mine(uint64_t index);      /* index belongs to this shard */
int drv_deadline_hit(void);
double drv_elapsed(void);

void drv_case(const char *fmt, ...);   /* announce the case about to run */
void drv_viol(const char *sig, const char *detail, const char *replay_json);
void drv_sample(const char *json);
void drv_set(const char *name, uint64_t h);
void drv_note(const char *fmt, ...);
void drv_result(const char *json_fields);  /* without braces, e.g. "\"evaluations\":5" */
int drv_nviol(void);

#endif
