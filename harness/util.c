/* util.c - small helpers shared by all drivers */
#include <stdarg.h>
#include <stdlib.h>
#include <string.h>
#include "vh.h"

uint64_t
vh_mix(uint64_t a, uint64_t b) {
  uint64_t x = a ^ (b + 0x9e3779b97f4a7c15ull + (a << 6) + (a >> 2));
  x ^= x >> 30; x *= 0xbf58476d1ce4e5b9ull;
  x ^= x >> 27; x *= 0x94d049bb133111ebull;
  x ^= x >> 31;
  return x;
}

uint64_t
vh_hash64(const void *p, size_t n, uint64_t seed) {
  const unsigned char *s = p;
  uint64_t h = 0xcbf29ce484222325ull ^ (seed * 0x100000001b3ull);
  size_t i;
  for (i = 0; i < n; i++) {
    h ^= s[i];
    h *= 0x100000001b3ull;
  }
  return vh_mix(h, n);
}

void vb_init(vh_buf_t *b) { b->p = NULL; b->n = b->cap = 0; }
void vb_free(vh_buf_t *b) { free(b->p); b->p = NULL; b->n = b->cap = 0; }

static void
vb_need(vh_buf_t *b, size_t extra) {
  if (b->n + extra + 1 > b->cap) {
    b->cap = (b->n + extra + 1) * 2 + 64;
    b->p = realloc(b->p, b->cap);
    if (!b->p) vh_die("oom");
  }
}

void
vb_printf(vh_buf_t *b, const char *fmt, ...) {
  va_list ap;
  int n;
  va_start(ap, fmt);
  n = vsnprintf(NULL, 0, fmt, ap);
  va_end(ap);
  vb_need(b, (size_t)n);
  va_start(ap, fmt);
  vsnprintf(b->p + b->n, (size_t)n + 1, fmt, ap);
  va_end(ap);
  b->n += (size_t)n;
}

void
vb_json_str(vh_buf_t *b, const void *sv, size_t n) {
  const unsigned char *s = sv;
  size_t i;
  vb_need(b, n * 6 + 2);
  b->p[b->n++] = '"';
  for (i = 0; i < n; i++) {
    unsigned char c = s[i];
    if (c == '"' || c == '\\') { b->p[b->n++] = '\\'; b->p[b->n++] = (char)c; }
    else if (c < 0x20 || c >= 0x7f) { b->n += (size_t)sprintf(b->p + b->n, "\\u%04x", c); }
    else b->p[b->n++] = (char)c;
  }
  b->p[b->n++] = '"';
  b->p[b->n] = 0;
}

void vs_init(vh_set_t *s) { s->cap = 1024; s->n = 0; s->tab = calloc(s->cap, 8); }
void vs_free(vh_set_t *s) { free(s->tab); s->tab = NULL; s->cap = s->n = 0; }

int
vs_has(const vh_set_t *s, uint64_t k) {
  size_t i;
  if (k == 0) k = 1;
  for (i = k & (s->cap - 1); s->tab[i]; i = (i + 1) & (s->cap - 1))
    if (s->tab[i] == k) return 1;
  return 0;
}

int
vs_add(vh_set_t *s, uint64_t k) {
  size_t i;
  if (k == 0) k = 1;
  if ((s->n + 1) * 2 > s->cap) {
    vh_set_t t;
    size_t j;
    t.cap = s->cap * 2; t.n = 0; t.tab = calloc(t.cap, 8);
    if (!t.tab) vh_die("oom");
    for (j = 0; j < s->cap; j++)
      if (s->tab[j]) {
        for (i = s->tab[j] & (t.cap - 1); t.tab[i]; i = (i + 1) & (t.cap - 1)) ;
        t.tab[i] = s->tab[j];
        t.n++;
      }
    free(s->tab);
    *s = t;
  }
  for (i = k & (s->cap - 1); s->tab[i]; i = (i + 1) & (s->cap - 1))
    if (s->tab[i] == k) return 0;
  s->tab[i] = k;
  s->n++;
  return 1;
}

void
vh_die(const char *fmt, ...) {
  va_list ap;
  fflush(stdout);
  fprintf(stderr, "HARNESS-ERROR: ");
  va_start(ap, fmt);
  vfprintf(stderr, fmt, ap);
  va_end(ap);
  fprintf(stderr, "\n");
  fflush(stderr);
  _Exit(2);
}
