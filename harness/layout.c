/* layout.c - C14 oracle: the level structure the database reports is well-formed.
 *
 * Everything is decoded with the INDEPENDENT codecs (ref_codecs.c: log + table
 * format, rm_manifest.c: version edits), from the bytes in the VFS:
 *   - CURRENT -> MANIFEST -> fold of all edits = files per level (number, size, bounds)
 *   - that fold must equal what "leveldb.sstables" reports (numbers, sizes, levels)
 *   - every table file: size as recorded, entries strictly increasing in internal-key
 *     order (no duplicates), all within [smallest, largest] as recorded
 *   - levels >= 1: files ordered and non-overlapping (internal-key order)
 *   - for every user key: versions in a shallower level, or in a level-0 file with a
 *     larger number, are strictly newer than those below / in older level-0 files
 */
#define _GNU_SOURCE
#include <stdlib.h>
#include <string.h>
#include "kv.h"
#include "ref.h"
#include "rm_manifest.h"
#include "layout.h"

static int
ikey_cmp(const kcfg_t *cfg, const uint8_t *a, size_t an, const uint8_t *b, size_t bn) {
  int r;
  uint64_t ta, tb;
  if (an < 8 || bn < 8)
    return an < bn ? -1 : (an > bn ? 1 : 0);
  r = kv_cmp(cfg, a, an - 8, b, bn - 8);
  if (r)
    return r;
  ta = ref_le64(a + an - 8);
  tb = ref_le64(b + bn - 8);
  /* larger (sequence,type) sorts first */
  return ta > tb ? -1 : (ta < tb ? 1 : 0);
}

static const vinode_t *
file_of(const char *dbdir, const char *name) {
  char p[512];
  int i;
  snprintf(p, sizeof(p), "%s/%s", dbdir, name);
  i = vfs_lookup(vfs_cur, p);
  return i < 0 ? NULL : vfs_inode(vfs_cur, i);
}

static const vinode_t *
table_file(const char *dbdir, uint64_t num) {
  char nm[64];
  const vinode_t *f;
  snprintf(nm, sizeof(nm), "%06llu.ldb", (unsigned long long)num);
  f = file_of(dbdir, nm);
  if (f)
    return f;
  snprintf(nm, sizeof(nm), "%06llu.sst", (unsigned long long)num);
  return file_of(dbdir, nm);
}

int
lay_manifest_state(const char *dbdir, rm_state_t *st, char *err, size_t en) {
  const vinode_t *cur = file_of(dbdir, "CURRENT"), *man;
  char name[128];
  size_t l;
  ref_reclist_t recs;
  size_t drops, i, bad = 0;
  const uint8_t **ptrs;
  int rc;
  if (!cur || cur->len < 2 || cur->len > 100 || cur->data[cur->len - 1] != '\n') {
    snprintf(err, en, "CURRENT is missing or malformed");
    return 0;
  }
  l = cur->len - 1;
  memcpy(name, cur->data, l);
  name[l] = 0;
  man = file_of(dbdir, name);
  if (!man) {
    snprintf(err, en, "CURRENT names %s which does not exist", name);
    return 0;
  }
  ref_reclist_init(&recs);
  drops = ref_log_decode(man->data, man->len, 0, &recs);
  if (drops) {
    snprintf(err, en, "%s: independent log decoder reports %zu dropped regions", name, drops);
    ref_reclist_free(&recs);
    return 0;
  }
  ptrs = malloc(sizeof(*ptrs) * (recs.n + 1));
  for (i = 0; i < recs.n; i++)
    ptrs[i] = (const uint8_t *)recs.data.p + recs.off[i];
  rm_state_init(st);
  rc = rm_state_replay(st, ptrs, recs.len, recs.n, &bad);
  free(ptrs);
  ref_reclist_free(&recs);
  if (rc != RM_OK) {
    snprintf(err, en, "%s: record %zu does not decode as a version edit (%s)", name, bad, rm_strerror(rc));
    rm_state_free(st);
    return 0;
  }
  return 1;
}

/* C17 (fault stage): the file set the database reports == the fold of the MANIFEST that CURRENT names.
 * 1 = equal, 0 = different (err set), -1 = the MANIFEST does not decode cleanly (no verdict) */
int
lay_reported_equals_manifest(ldb_t *db, const char *dbdir, char *err, size_t en) {
  rm_state_t st;
  uint64_t nums[128];
  int levels[128], n, ok = 1;
  size_t i, total;
  if (!lay_manifest_state(dbdir, &st, err, en))
    return -1;
  n = kv_parse_sstables(db, nums, levels, 128);
  total = rm_state_total_files(&st);
  if ((size_t)n != total) {
    snprintf(err, en, "the database reports %d tables, replaying the MANIFEST that CURRENT names gives %zu", n, total);
    ok = 0;
  }
  for (i = 0; ok && i < (size_t)n; i++) {
    size_t j;
    int found = 0;
    if (levels[i] < 0 || levels[i] >= RM_NUM_LEVELS) { ok = 0; break; }
    for (j = 0; j < st.levels[levels[i]].nfiles; j++)
      if (st.levels[levels[i]].files[j].number == nums[i])
        found = 1;
    if (!found) {
      snprintf(err, en, "table #%llu is reported at level %d but replaying the MANIFEST that CURRENT names does not place it there", (unsigned long long)nums[i], levels[i]);
      ok = 0;
    }
  }
  rm_state_free(&st);
  return ok;
}

/* C13 (fault stage): every table the database reports exists in the directory */
int
lay_reported_tables_exist(ldb_t *db, const char *dbdir, char *err, size_t en) {
  uint64_t nums[128];
  int levels[128], n, i;
  n = kv_parse_sstables(db, nums, levels, 128);
  for (i = 0; i < n; i++)
    if (!table_file(dbdir, nums[i])) {
      snprintf(err, en, "table #%llu (level %d) is part of the current version but is not in the directory", (unsigned long long)nums[i], levels[i]);
      return 0;
    }
  return 1;
}

/* C17 (fault stage): CURRENT, if present, names a MANIFEST that exists. 1 = fine, 0 = dangling (err set) */
int
lay_current_names_existing_manifest(const char *dbdir, char *err, size_t en) {
  const vinode_t *cur = file_of(dbdir, "CURRENT");
  char name[128];
  size_t l;
  if (!cur)
    return 1;   /* no CURRENT at all: a database that was never completely created */
  if (cur->len < 2 || cur->len > 100 || cur->data[cur->len - 1] != '\n') {
    snprintf(err, en, "CURRENT is malformed (%zu bytes)", cur->len);
    return 0;
  }
  l = cur->len - 1;
  memcpy(name, cur->data, l);
  name[l] = 0;
  if (!file_of(dbdir, name)) {
    snprintf(err, en, "CURRENT names %s, which does not exist", name);
    return 0;
  }
  return 1;
}

/* C13 (fault stage): every table named by the fold of the MANIFEST that CURRENT names exists.
 * 1 = yes, 0 = one is missing (err set), -1 = the MANIFEST does not decode cleanly (no verdict) */
int
lay_manifest_tables_exist(const char *dbdir, char *err, size_t en) {
  rm_state_t st;
  int level, ok = 1;
  if (!lay_manifest_state(dbdir, &st, err, en))
    return -1;
  for (level = 0; ok && level < RM_NUM_LEVELS; level++) {
    size_t f;
    for (f = 0; f < st.levels[level].nfiles; f++)
      if (!table_file(dbdir, st.levels[level].files[f].number)) {
        snprintf(err, en, "table #%llu (level %d) is named by the MANIFEST that CURRENT points to but is not in the directory",
                 (unsigned long long)st.levels[level].files[f].number, level);
        ok = 0;
        break;
      }
  }
  rm_state_free(&st);
  return ok;
}

typedef struct ventry_s { int level; uint64_t file; int key; uint64_t seq; } ventry_t;

int
lay_check(ldb_t *db, const char *dbdir, const kcfg_t *cfg, lay_stats_t *stats, char *err, size_t en) {
  rm_state_t st;
  uint64_t nums[128];
  int levels[128], n, level, ok = 1;
  size_t i, total = 0;
  ventry_t *ve = NULL;
  size_t nve = 0, capve = 0;
  if (!lay_manifest_state(dbdir, &st, err, en))
    return 0;
  /* reported layout == manifest fold */
  n = kv_parse_sstables(db, nums, levels, 128);
  total = rm_state_total_files(&st);
  if ((size_t)n != total) {
    snprintf(err, en, "the database reports %d tables, replaying the MANIFEST gives %zu", n, total);
    ok = 0;
  }
  for (i = 0; ok && i < (size_t)n; i++) {
    size_t j;
    int found = 0;
    if (levels[i] < 0 || levels[i] >= RM_NUM_LEVELS) { ok = 0; break; }
    for (j = 0; j < st.levels[levels[i]].nfiles; j++)
      if (st.levels[levels[i]].files[j].number == nums[i])
        found = 1;
    if (!found) {
      snprintf(err, en, "table #%llu is reported at level %d but the MANIFEST replay does not place it there", (unsigned long long)nums[i], levels[i]);
      ok = 0;
    }
  }
  for (level = 0; ok && level < RM_NUM_LEVELS; level++) {
    rm_level_t *L = &st.levels[level];
    size_t f;
    /* order of files inside the level: by smallest key (levels >= 1) */
    size_t *order = malloc(sizeof(size_t) * (L->nfiles + 1));
    for (f = 0; f < L->nfiles; f++) order[f] = f;
    if (level > 0) {
      size_t a, b;
      for (a = 1; a < L->nfiles; a++)
        for (b = a; b > 0; b--) {
          rm_newfile_t *x = &L->files[order[b - 1]], *y = &L->files[order[b]];
          if (ikey_cmp(cfg, (uint8_t *)x->smallest.p, x->smallest.n, (uint8_t *)y->smallest.p, y->smallest.n) > 0) {
            size_t t = order[b - 1]; order[b - 1] = order[b]; order[b] = t;
          } else break;
        }
      for (a = 1; ok && a < L->nfiles; a++) {
        rm_newfile_t *x = &L->files[order[a - 1]], *y = &L->files[order[a]];
        if (ikey_cmp(cfg, (uint8_t *)x->largest.p, x->largest.n, (uint8_t *)y->smallest.p, y->smallest.n) >= 0) {
          snprintf(err, en, "level %d: tables #%llu and #%llu overlap", level, (unsigned long long)x->number, (unsigned long long)y->number);
          ok = 0;
        }
      }
    }
    for (f = 0; ok && f < L->nfiles; f++) {
      rm_newfile_t *nf = &L->files[f];
      const vinode_t *ino = table_file(dbdir, nf->number);
      ref_table_t t;
      size_t e;
      if (stats) stats->files++;
      if (!ino) {
        snprintf(err, en, "level %d table #%llu is not in the directory", level, (unsigned long long)nf->number);
        ok = 0;
        break;
      }
      if (ino->len != nf->size) {
        snprintf(err, en, "table #%llu: recorded size %llu, file has %zu bytes", (unsigned long long)nf->number, (unsigned long long)nf->size, ino->len);
        ok = 0;
        break;
      }
      if (nf->smallest.n < 8 || nf->largest.n < 8) {
        snprintf(err, en, "table #%llu: recorded bounds are not internal keys", (unsigned long long)nf->number);
        ok = 0;
        break;
      }
      ref_table_init(&t);
      if (ref_table_read(ino->data, ino->len, cfg->bloom ? "leveldb.BuiltinBloomFilter2" : NULL, 8, cfg->restart, &t) != 0) {
        snprintf(err, en, "table #%llu does not decode with the independent reader: %s", (unsigned long long)nf->number, t.err);
        ok = 0;
      } else if (t.n == 0) {
        snprintf(err, en, "table #%llu is empty", (unsigned long long)nf->number);
        ok = 0;
      } else {
        const uint8_t *pool = (const uint8_t *)t.pool.p;
        /* the property says "within its stated bounds": smallest <= first and last <= largest */
        if (ikey_cmp(cfg, (uint8_t *)nf->smallest.p, nf->smallest.n, pool + t.e[0].koff, t.e[0].klen) > 0) {
          snprintf(err, en, "table #%llu: first entry sorts before the recorded smallest key", (unsigned long long)nf->number);
          ok = 0;
        }
        if (ok && ikey_cmp(cfg, pool + t.e[t.n - 1].koff, t.e[t.n - 1].klen, (uint8_t *)nf->largest.p, nf->largest.n) > 0) {
          snprintf(err, en, "table #%llu: last entry sorts after the recorded largest key", (unsigned long long)nf->number);
          ok = 0;
        }
        for (e = 0; ok && e < t.n; e++) {
          int k, found = -1;
          uint64_t tr;
          if (t.e[e].klen < 8) {
            snprintf(err, en, "table #%llu: entry %zu is not an internal key", (unsigned long long)nf->number, e);
            ok = 0;
            break;
          }
          if (e > 0 && ikey_cmp(cfg, pool + t.e[e - 1].koff, t.e[e - 1].klen, pool + t.e[e].koff, t.e[e].klen) >= 0) {
            snprintf(err, en, "table #%llu: entries %zu and %zu are out of order or duplicated", (unsigned long long)nf->number, e - 1, e);
            ok = 0;
            break;
          }
          if (stats) stats->entries++;
          tr = ref_le64(pool + t.e[e].koff + t.e[e].klen - 8);
          for (k = 0; k < kv_nkeys + 2; k++)
            if (t.e[e].klen - 8 == kv_keylen[k] && (kv_keylen[k] == 0 || memcmp(pool + t.e[e].koff, kv_keys[k], kv_keylen[k]) == 0))
              found = k;
          if (found >= 0) {
            if (nve == capve) {
              capve = capve ? capve * 2 : 256;
              ve = realloc(ve, capve * sizeof(*ve));
            }
            ve[nve].level = level; ve[nve].file = nf->number; ve[nve].key = kv_rep_tab[found]; ve[nve].seq = tr >> 8;
            nve++;
          }
        }
      }
      ref_table_free(&t);
    }
    free(order);
  }
  /* newer data is never below older data */
  for (i = 0; ok && i < nve; i++) {
    size_t j;
    for (j = 0; ok && j < nve; j++) {
      int upper;
      if (ve[i].key != ve[j].key || (ve[i].level == ve[j].level && ve[i].file == ve[j].file))
        continue;
      /* is i "above" j? shallower level, or both level 0 and larger file number */
      upper = (ve[i].level < ve[j].level) || (ve[i].level == 0 && ve[j].level == 0 && ve[i].file > ve[j].file);
      if (upper && ve[i].seq <= ve[j].seq) {
        snprintf(err, en, "user key #%d: sequence %llu in level %d table #%llu is not newer than sequence %llu in level %d table #%llu below it",
                 ve[i].key, (unsigned long long)ve[i].seq, ve[i].level, (unsigned long long)ve[i].file,
                 (unsigned long long)ve[j].seq, ve[j].level, (unsigned long long)ve[j].file);
        ok = 0;
      }
    }
  }
  free(ve);
  rm_state_free(&st);
  return ok;
}

/* C13 (b): the directory holds exactly the live files, where "live logs" = every log numbered >= the
 * log number recorded in the live MANIFEST (decoded independently) or == its prev log number */
int
lay_files_exact_check(ldb_t *db, const char *dbdir, char *err, size_t en) {
  rm_state_t st;
  long long min_log;
  if (!lay_manifest_state(dbdir, &st, err, en))
    return 0;
  min_log = st.has_log_number ? (long long)st.log_number : 0;
  rm_state_free(&st);
  return kv_files_exact_check2(db, dbdir, min_log, err, en);
}
