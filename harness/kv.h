/* kv.h - boring reference model of the key-value API + history executor on the
 * real lcdb, shared by the history (E2), crash (E3), fault (E4) and schedule
 * (E1) drivers.  Uses only the public API of lcdb.h plus the three non-static
 * test entry points of db_impl.h. */
#ifndef KV_H
#define KV_H

#include <lcdb.h>
#include "drv.h"
#include "vh.h"

int ldb_test_compact_memtable(ldb_t *db);
void ldb_test_compact_range(ldb_t *db, int level, const ldb_slice_t *begin, const ldb_slice_t *end);

extern int lcdb_verif_raw_options;
extern double lcdb_verif_l1_bytes;

/* ---------------- configuration ---------------- */

typedef struct kcfg_s {
  int base;            /* 1 = B1 stress-small (raw sizes via hook H1/H2), 2 = B2 in-range */
  size_t wbuf, maxfile, block;
  int restart;
  int snappy, bloom, use_mmap, reuse_logs;
  int cache;           /* 0 default 8MiB, 1 zero capacity, 2 tiny (4 KiB) */
  int cmp;             /* 0 bytewise, 1 reverse bytewise, 2 case-insensitive (byte-different keys can be equal) */
  int paranoid;
  int max_open_files;
  double l1;           /* H2 level-1 byte budget (0 = pinned 10 MiB) */
  int raw;             /* H1 */
  int universe;        /* key universe for this configuration (-1 = the driver's default) */
} kcfg_t;

void kcfg_set_base(kcfg_t *c, int base);
int  kcfg_parse(kcfg_t *c, const char *text);   /* "B1,snappy=1,bloom=1,..." */
void kcfg_print(const kcfg_t *c, char *buf, size_t n);

typedef struct kopt_s {
  ldb_dbopt_t opt;
  ldb_lru_t *cache;
  ldb_bloom_t *bloom;
  ldb_logger_t *log;
  ldb_comparator_t cmp;
} kopt_t;

void kopt_init(kopt_t *o, const kcfg_t *c);
void kopt_clear(kopt_t *o);

/* ---------------- keys and values ---------------- */

#define KV_MAXKEYS 8
extern int kv_nkeys;                 /* size of the key universe in use */
extern const char *kv_keys[KV_MAXKEYS + 2];   /* + 2 never-written probe keys */
extern size_t kv_keylen[KV_MAXKEYS + 2];
void kv_set_universe(int which);     /* 0: {"", a, ab, b}  1: 3 keys {a, ab, b}  2: with 300-byte key */
int kv_order(const kcfg_t *c, int *order);  /* class representatives in comparator order; returns n */
int kv_order_n(const kcfg_t *c, int *order, int n);
extern int kv_rep_tab[KV_MAXKEYS + 2];      /* key index -> representative of its comparator-equivalence class */
void kv_set_classes(const kcfg_t *c);

/* value size classes */
/* VS_TAIL: a put of this size to a 1-byte key into a fresh log ends the log 3 bytes before a 32 KiB block
 * boundary (0-byte key: 4, 2-byte key: 2): no room for a record header in the block when the log is reused */
enum { VS_EMPTY = 0, VS_SHORT = 1, VS_1K = 2, VS_70K = 3, VS_1M = 4, VS_TAIL = 5, VS_MAX = 5 };
size_t kv_vlen(int sz);
void kv_vgen(unsigned char *buf, int vid, int sz);   /* fills kv_vlen(sz) bytes */
int kv_vcheck(const void *data, size_t len, int vid, int sz); /* 1 if equal */
int kv_vparse(const void *data, size_t len, int *vid, int *sz, unsigned char *scratch);

/* ---------------- model ---------------- */

typedef struct kmodel_s {
  int vid[KV_MAXKEYS];           /* 0 = absent, else id of the write that produced the value;
                                    indexed by the comparator-equivalence class representative */
  unsigned char sz[KV_MAXKEYS];
  unsigned char spell[KV_MAXKEYS]; /* key index (spelling) the newest write of the class used */
} kmodel_t;

uint64_t kmodel_hash(const kmodel_t *m);

/* ---------------- operations ---------------- */

enum { OP_PUT = 'P', OP_DEL = 'D', OP_BATCH = 'B', OP_FLUSH = 'F', OP_CRANGE = 'R', OP_CALL = 'C',
       OP_REOPEN = 'O', OP_SSTREN = 'X', OP_SNAP = 'S', OP_REL = 's', OP_ITOPEN = 'I', OP_ITCLOSE = 'i',
       OP_DRAIN = 'W', OP_G100 = 'G', OP_BIGBATCH = 'M' };

typedef struct kupd_s { unsigned char key, del, sz; } kupd_t;

typedef struct kop_s {
  unsigned char kind;
  unsigned char sync;
  unsigned char n;           /* BATCH: number of updates; BIGBATCH: count/100 */
  kupd_t u[3];               /* PUT/DEL use u[0] */
  signed char level;         /* CRANGE */
  signed char lo, hi;        /* CRANGE: key index or -1 = unbounded */
  unsigned char idx;         /* REL/ITCLOSE: which; G100: key */
} kop_t;

int  kop_parse(kop_t *op, const char *s, const char **end);  /* 1 ok */
void kop_print(const kop_t *op, vh_buf_t *b);
int  khist_parse(kop_t *ops, int max, const char *s);        /* returns count or -1 */
void khist_print(const kop_t *ops, int n, vh_buf_t *b);

/* ---------------- history executor ---------------- */

#define KH_MAXSNAP 3
#define KH_MAXITER 2
#define KH_MAXACK 64

typedef struct kack_s {
  int opidx;         /* index of the op in the history */
  int vid0;          /* first value id of the batch */
  int sync;
  int empty;         /* an empty batch: no marker, nothing to survive */
  int status;        /* what ldb_write returned */
  int j_begin, j_end;/* journal indices when the call began / returned */
  long c_begin, c_end; /* VFS call counters likewise */
  kop_t op;
} kack_t;

typedef struct khist_s {
  kcfg_t cfg;
  kopt_t o;
  const char *dbname;
  ldb_t *db;
  kmodel_t model;
  int nops;                    /* ops applied so far */
  struct { const ldb_snapshot_t *snap; kmodel_t model; int born; } snaps[KH_MAXSNAP];
  int nsnaps;
  struct { ldb_iter_t *it; kmodel_t model; int born; } iters[KH_MAXITER];
  int niters;
  kack_t acks[KH_MAXACK];
  int nacks;
  int auto_drain;              /* drain background work after every op */
  int markers;                 /* every write batch also puts a unique marker key m<opidx> */
  int last_status;
  int open_status;
  int iter_open_at_structural; /* an iterator was held when the last flush/compaction/reopen began */
  char err[600];               /* last oracle complaint */
} khist_t;

void kh_init(khist_t *h, const kcfg_t *cfg, const char *dbname);
int  kh_open(khist_t *h);       /* ldb_open with create_if_missing; returns status */
void kh_close(khist_t *h);      /* releases snapshots/iterators, closes */
void kh_clear(khist_t *h);
int  kh_apply(khist_t *h, const kop_t *op);   /* returns lcdb status of the op (LDB_OK...) */
void kh_model_apply(kmodel_t *m, const kop_t *op, int opidx);  /* model side only */
int  kh_vid(int opidx, int j);   /* value id of update j of op opidx */
void kv_marker_key(int opidx, char *buf);   /* 3 chars + NUL */

/* oracles: return 1 if the property holds, else 0 with h->err filled */
int ko_gets(khist_t *h, const kmodel_t *m, const ldb_snapshot_t *snap, int verify);
int ko_scan(khist_t *h, const kmodel_t *m, const ldb_snapshot_t *snap, ldb_iter_t *use_iter, int verify);
int ko_snapshots(khist_t *h);          /* every live snapshot: gets + scans */
int ko_held_iters(khist_t *h);         /* every held iterator re-walked */

/* "leveldb.sstables" -> file numbers + levels; directory == live files check (C13 b) */
int kv_parse_sstables(ldb_t *db, uint64_t *nums, int *levels, int max);
int kv_recovery_number_clash(const vfs_t *v, const char *dbdir, char *err, size_t en);
int kv_files_exact_check(ldb_t *db, const char *dbdir, char *err, size_t en);
int kv_files_exact_check2(ldb_t *db, const char *dbdir, long long min_log, char *err, size_t en);

typedef struct kobs_s {
  int open_rc;
  uint32_t U;                /* marker bitmap (by ack index) */
  uint32_t alien_markers;
  kmodel_t m;                /* observed user-key contents */
  int bad;                   /* scan/get inconsistency, alien key or value */
  int garbage;               /* directory != live files after recovery */
  char err[400];
  uint64_t hash;
} kobs_t;

/* read everything back (gets of user keys and of the marker of every recorded batch, plus a
 * full scan that must agree); fills U (bit i = batch acks[i] present) and the observed model */
void kv_observe(ldb_t *db, const kack_t *acks, int nacks, kobs_t *o);

/* reference cursor for C07 */
enum { CU_FIRST = 0, CU_LAST, CU_NEXT, CU_PREV, CU_SEEK, CU_GE, CU_GT, CU_LE, CU_LT, CU_NCALLS };
typedef struct kcursor_s { int n; int keys[KV_MAXKEYS]; int pos; /* -1 invalid */ } kcursor_t;
void kcur_init(kcursor_t *c, const kmodel_t *m, const kcfg_t *cfg);
void kcur_call(kcursor_t *c, int call, const char *target, size_t tlen, const kcfg_t *cfg);
int  kv_cmp(const kcfg_t *cfg, const void *a, size_t an, const void *b, size_t bn);

#endif
