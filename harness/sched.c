/* sched.c - deterministic serialising scheduler.
 *
 * lcdb is compiled with -Dpthread_mutex_lock=vf_mutex_lock ... (12 renames),
 * so every thread primitive it uses lands here.  Threads are ucontext fibers
 * inside ONE OS thread; a switch happens only at a scheduling point, and
 * which thread runs next is decided by the explorer's choice sequence
 * (replay a prefix, then option 0 = "current thread continues if enabled,
 * else lowest enabled id").  Mutexes and condition variables are modelled
 * here: state lives in the pthread_mutex_t / pthread_cond_t memory itself.
 *
 * This TU is compiled WITHOUT -fsanitize=thread in the tsan flavour (its own
 * bookkeeping is shared by all fibers by design); it announces to TSan only
 * the happens-before edges that the modelled primitives really create:
 * mutex release->acquire, create->start, exit->join.  Fiber switches use
 * __tsan_switch_to_fiber(..., no_sync).
 */
#define _GNU_SOURCE
#include <errno.h>
#include <pthread.h>
#include <stdarg.h>
#include <stdlib.h>
#include <string.h>
#include <sys/mman.h>
#include "vh.h"

#if defined(__SANITIZE_ADDRESS__)
#define VH_ASAN 1
#elif defined(__has_feature)
#if __has_feature(address_sanitizer)
#define VH_ASAN 1
#endif
#endif

#ifdef VH_ASAN
void __sanitizer_start_switch_fiber(void **fake, const void *bottom, size_t size);
void __sanitizer_finish_switch_fiber(void *fake, const void **bottom_old, size_t *size_old);
void __asan_unpoison_memory_region(void const volatile *addr, size_t size);
#endif
#ifdef VH_TSAN
void *__tsan_get_current_fiber(void);
void *__tsan_create_fiber(unsigned flags);
void __tsan_destroy_fiber(void *fiber);
void __tsan_switch_to_fiber(void *fiber, unsigned flags);
void __tsan_acquire(void *addr);
void __tsan_release(void *addr);
#define TSAN_ACQ(p) __tsan_acquire((void *)(p))
#define TSAN_REL(p) __tsan_release((void *)(p))
#else
#define TSAN_ACQ(p) ((void)0)
#define TSAN_REL(p) ((void)0)
#endif

#define MAXT 12
#define HOME MAXT
#define STACK_SZ (1024 * 1024)

enum { T_FREE = 0, T_RUN, T_BLK_MUTEX, T_BLK_COND, T_BLK_JOIN, T_BLK_DRAIN, T_DONE };

typedef struct vmutex_s {
  int owner;        /* tid+1, 0 = free */
  int pad;
} vmutex_t;

typedef struct vthr_s {
  int state;
  const void *wait_obj;
  vmutex_t *wait_mutex;
  int wait_tid;
  void *sp;                 /* saved stack pointer while switched out */
  unsigned char *stack;
  size_t stack_sz;
  void (*fn)(void *);
  void *(*pfn)(void *);
  void *arg;
  void *fake_stack;
  void *tsan_fiber;
  int detached;
} vthr_t;

static vthr_t thr[MAXT + 1];
static int nthr, cur = HOME;
static sch_cfg_t cfg;
static int run_status;
static int npos;
static int trace_cap;
static unsigned char *stack_pool[MAXT];
static int stack_dirty[MAXT];
static char block_text[512];

sch_point_t *sch_trace;
int sch_trace_len;
long sch_steps, sch_total_steps;
int sch_active;
uint64_t sch_clock;

/* Minimal x86-64 context switch (callee-saved registers + stack pointer).
 * swapcontext() costs a sigprocmask system call per switch and, under ASan,
 * a shadow wipe of the whole target stack; fibers here never touch the signal
 * mask and are announced to the sanitizers explicitly. */
void vh_ctx_switch(void **save_sp, void *new_sp);
__asm__(".text\n"
        ".globl vh_ctx_switch\n"
        ".type vh_ctx_switch,@function\n"
        "vh_ctx_switch:\n"
        "  pushq %rbp\n  pushq %rbx\n  pushq %r12\n  pushq %r13\n  pushq %r14\n  pushq %r15\n"
        "  movq %rsp, (%rdi)\n"
        "  movq %rsi, %rsp\n"
        "  popq %r15\n  popq %r14\n  popq %r13\n  popq %r12\n  popq %rbx\n  popq %rbp\n"
        "  ret\n"
        ".size vh_ctx_switch, .-vh_ctx_switch\n");

static void
switch_to(int next) {
  int prev = cur;
  if (next == prev)
    return;
  cur = next;
#ifdef VH_ASAN
  __sanitizer_start_switch_fiber(thr[prev].state == T_DONE ? NULL : &thr[prev].fake_stack,
                                 thr[next].stack, thr[next].stack_sz);
#endif
#ifdef VH_TSAN
  __tsan_switch_to_fiber(thr[next].tsan_fiber, 1 /* no_sync */);
#endif
  vh_ctx_switch(&thr[prev].sp, thr[next].sp);
#ifdef VH_ASAN
  __sanitizer_finish_switch_fiber(thr[cur].fake_stack, NULL, NULL);
#endif
}

void
sch_abort_run(int status) {
  if (!sch_active)
    vh_die("sch_abort_run outside a run");
  run_status = status;
  switch_to(HOME);
  vh_die("resumed an abandoned execution");
}

static int
base_enabled(int t) {
  switch (thr[t].state) {
    case T_RUN: return 1;
    case T_BLK_MUTEX: return thr[t].wait_mutex->owner == 0;
    case T_BLK_JOIN: return thr[thr[t].wait_tid].state == T_DONE;
    default: return 0;
  }
}

/* enabled threads: current first (if enabled), then ascending id.  A thread
 * in sch_drain() is enabled only when no other thread is. */
static int
enabled_list(int *en) {
  int n = 0, t, nbase = 0;
  for (t = 0; t < nthr; t++)
    if (base_enabled(t))
      nbase++;
  if (cur != HOME && base_enabled(cur))
    en[n++] = cur;
  if (cfg.starve_default) {
    /* second base scheduler: highest id first (lcdb's background thread before the foreground) */
    for (t = nthr - 1; t >= 0; t--)
      if (t != cur && base_enabled(t))
        en[n++] = t;
  } else {
    for (t = 0; t < nthr; t++)
      if (t != cur && base_enabled(t))
        en[n++] = t;
  }
  if (nbase == 0)
    for (t = 0; t < nthr; t++)
      if (thr[t].state == T_BLK_DRAIN)
        en[n++] = t;
  return n;
}

static int quiet;        /* choices are not recorded and always default (setup phases) */
static uint64_t evt_counter;

void
sch_quiet(int on) {
  VH_ENTER;
  quiet = on;
}

uint64_t
sch_event(void) {
  VH_ENTER;
  return ++evt_counter;
}

static int
pick(int kind, int nopt, int cur_enabled) {
  int c = 0;
  if (nopt < 2 || quiet)
    return 0;
  if (npos < cfg.nprefix) {
    c = cfg.prefix[npos];
    if (c < 0 || c >= nopt)
      sch_abort_run(SCH_BADCHOICE);
  }
  if (npos >= trace_cap) {
    trace_cap = trace_cap ? trace_cap * 2 : 1024;
    sch_trace = realloc(sch_trace, trace_cap * sizeof(sch_point_t));
    if (!sch_trace)
      vh_die("oom");
  }
  sch_trace[npos].kind = (unsigned char)kind;
  sch_trace[npos].nopt = (unsigned char)nopt;
  sch_trace[npos].chosen = (unsigned char)c;
  sch_trace[npos].cur_enabled = (unsigned char)cur_enabled;
  sch_trace[npos].sig = 0;
  npos++;
  sch_trace_len = npos;
  return c;
}

static void
count_step(void) {
  sch_steps++;
  sch_total_steps++;
  sch_clock++;
  if (sch_steps > cfg.step_max)
    sch_abort_run(SCH_STEPMAX);
}

static void
describe_block(void) {
  int t, n = 0;
  n += snprintf(block_text + n, sizeof(block_text) - n, "no enabled thread:");
  for (t = 0; t < nthr && n < (int)sizeof(block_text) - 40; t++) {
    const char *s = "?";
    switch (thr[t].state) {
      case T_RUN: s = "run"; break;
      case T_BLK_MUTEX: s = "mutex"; break;
      case T_BLK_COND: s = "cond"; break;
      case T_BLK_JOIN: s = "join"; break;
      case T_BLK_DRAIN: s = "drain"; break;
      case T_DONE: s = "done"; break;
    }
    n += snprintf(block_text + n, sizeof(block_text) - n, " t%d=%s", t, s);
  }
}

const char *
sch_describe_block(void) {
  return block_text;
}

/* a point where the current thread could continue */
static void
point(int kind) {
  int en[MAXT + 1], n, c;
  count_step();
  n = enabled_list(en);
  if (n < 2)
    return;
  c = pick(kind, n, 1);
  if (en[c] != cur)
    switch_to(en[c]);
}

/* the current thread cannot continue: hand over */
static void
block(void) {
  int en[MAXT + 1], n, c;
  count_step();
  n = enabled_list(en);
  if (n == 0) {
    describe_block();
    sch_abort_run(SCH_DEADLOCK);
  }
  c = pick(thr[cur].state == T_DONE ? PT_EXIT : PT_BLOCK, n, 0);
  switch_to(en[c]);
}

static void
fiber_main(void) {
#ifdef VH_ASAN
  {
    const void *ob; size_t os;
    __sanitizer_finish_switch_fiber(NULL, &ob, &os);
    (void)ob; (void)os;
  }
#endif
  TSAN_ACQ(&thr[cur]);
  if (thr[cur].fn)
    thr[cur].fn(thr[cur].arg);
  else
    thr[cur].pfn(thr[cur].arg);
  TSAN_REL(&thr[cur]);
  thr[cur].state = T_DONE;
  {
    int t, alive = 0;
    for (t = 0; t < nthr; t++)
      if (thr[t].state != T_DONE)
        alive = 1;
    if (!alive) {
      run_status = SCH_OK;
      switch_to(HOME);
    }
  }
  block();
  vh_die("finished fiber resumed");
}

static int
new_thread(void (*fn)(void *), void *(*pfn)(void *), void *arg) {
  int t = nthr;
  if (t >= MAXT)
    vh_die("too many threads");
  nthr++;
  memset(&thr[t], 0, sizeof(thr[t]));
  if (!stack_pool[t]) {
    stack_pool[t] = mmap(NULL, STACK_SZ, PROT_READ | PROT_WRITE,
                         MAP_PRIVATE | MAP_ANONYMOUS, -1, 0);
    if (stack_pool[t] == MAP_FAILED)
      vh_die("stack mmap");
  }
#ifdef VH_ASAN
  if (stack_dirty[t]) {
    __asan_unpoison_memory_region(stack_pool[t], STACK_SZ);
    stack_dirty[t] = 0;
  }
#endif
  thr[t].stack = stack_pool[t];
  thr[t].stack_sz = STACK_SZ;
  thr[t].fn = fn;
  thr[t].pfn = pfn;
  thr[t].arg = arg;
  thr[t].state = T_RUN;
  {
    /* initial frame: six zeroed callee-saved registers, then the entry address
     * that vh_ctx_switch's "ret" jumps to, then a dummy return slot so that the
     * entry function sees the ABI's stack alignment (rsp % 16 == 8) */
    uint64_t *top = (uint64_t *)(thr[t].stack + thr[t].stack_sz);
    top[-1] = 0;
    top[-2] = (uint64_t)(uintptr_t)fiber_main;
    top[-3] = top[-4] = top[-5] = top[-6] = top[-7] = top[-8] = 0;
    thr[t].sp = &top[-8];
  }
#ifdef VH_TSAN
  thr[t].tsan_fiber = __tsan_create_fiber(0);
#endif
  TSAN_REL(&thr[t]);
  return t;
}

int
sch_run(void (*body)(void *), void *arg, const sch_cfg_t *c) {
  int t;
  if (sch_active)
    vh_die("nested sch_run");
  cfg = *c;
  if (cfg.step_max <= 0)
    cfg.step_max = 200000;
  nthr = 0;
  npos = 0;
  quiet = 0;
  evt_counter = 0;
  sch_trace_len = 0;
  sch_steps = 0;
  run_status = SCH_OK;
  block_text[0] = 0;
  cur = HOME;
  memset(&thr[HOME], 0, sizeof(thr[HOME]));
  thr[HOME].state = T_RUN;
#ifdef VH_TSAN
  thr[HOME].tsan_fiber = __tsan_get_current_fiber();
#endif
#ifdef VH_ASAN
  {
    /* bounds of the OS thread's stack, needed when switching back to HOME */
    static void *sp; static size_t sz;
    if (!sp) {
      pthread_attr_t a;
      pthread_getattr_np(pthread_self(), &a);
      pthread_attr_getstack(&a, &sp, &sz);
      pthread_attr_destroy(&a);
    }
    thr[HOME].stack = sp;
    thr[HOME].stack_sz = sz;
  }
#endif
  sch_active = 1;
  new_thread(body, NULL, arg);
  switch_to(0);
  /* back home: finished or abandoned */
  sch_active = 0;
  cur = HOME;
  if (run_status != SCH_OK)
    for (t = 0; t < nthr; t++)
      stack_dirty[t] = 1;
  for (t = 0; t < nthr; t++)
    TSAN_ACQ(&thr[t]);
#ifdef VH_TSAN
  for (t = 0; t < nthr; t++)
    if (thr[t].tsan_fiber)
      __tsan_destroy_fiber(thr[t].tsan_fiber);
#endif
  (void)t;
  return run_status;
}

int sch_self(void) { return cur == HOME ? 0 : cur; }
int sch_nthreads(void) { return nthr; }

int
sch_others_enabled(void) {
  int t;
  for (t = 0; t < nthr; t++)
    if (t != cur && base_enabled(t))
      return 1;
  return 0;
}

int
sch_spawn(void (*fn)(void *), void *arg) {
  VH_ENTER;
  int t;
  if (!sch_active)
    vh_die("sch_spawn outside sch_run");
  t = new_thread(fn, NULL, arg);
  return t;
}

void
sch_join(int tid) {
  VH_ENTER;
  while (thr[tid].state != T_DONE) {
    thr[cur].state = T_BLK_JOIN;
    thr[cur].wait_tid = tid;
    block();
  }
  thr[cur].state = T_RUN;
  TSAN_ACQ(&thr[tid]);
}

void
sch_drain(void) {
  VH_ENTER;
  if (!sch_active)
    return;
  while (sch_others_enabled()) {
    thr[cur].state = T_BLK_DRAIN;
    block();
    thr[cur].state = T_RUN;
  }
}

void
sch_io_point(const void *obj) {
  (void)obj;
  if (sch_active && cfg.io_points && cur != HOME)
    point(PT_IO);
}

void
sch_yield_point(void) {
  if (sch_active && cur != HOME)
    point(PT_YIELD);
}

/* hooks H3 (db_impl.c, kinds 0/1) and H4 (skiplist.c, kind 2 = release store that publishes a
 * node, kind 3 = acquire load).  cfg.hook_points is a mask: 1 = H3, 2 = H4 stores, 4 = H4 loads,
 * 8 = a point before every pthread_cond_signal / broadcast */
void lcdb_verif_point(const void *obj, int kind);
void
lcdb_verif_point(const void *obj, int kind) {
  int bit = (kind <= 1) ? 1 : (kind == 2 ? 2 : 4);
  (void)obj;
  if (!sch_active || cur == HOME || !(cfg.hook_points & bit))
    return;
  {
    VH_ENTER;
    point(PT_HOOK);
  }
}

/* ------------------------------------------------------------------ */
/* the 12 renamed pthread entry points                                */
/* ------------------------------------------------------------------ */

int vf_mutex_init(pthread_mutex_t *pm, const pthread_mutexattr_t *a);
int vf_mutex_destroy(pthread_mutex_t *pm);
int vf_mutex_lock(pthread_mutex_t *pm);
int vf_mutex_unlock(pthread_mutex_t *pm);
int vf_cond_init(pthread_cond_t *pc, const pthread_condattr_t *a);
int vf_cond_destroy(pthread_cond_t *pc);
int vf_cond_signal(pthread_cond_t *pc);
int vf_cond_broadcast(pthread_cond_t *pc);
int vf_cond_wait(pthread_cond_t *pc, pthread_mutex_t *pm);
int vf_create(pthread_t *th, const pthread_attr_t *a, void *(*fn)(void *), void *arg);
int vf_detach(pthread_t th);
int vf_join(pthread_t th, void **ret);

int
vf_mutex_init(pthread_mutex_t *pm, const pthread_mutexattr_t *a) {
  VH_ENTER;
  (void)a;
  memset(pm, 0, sizeof(*pm));
  return 0;
}

int
vf_mutex_destroy(pthread_mutex_t *pm) {
  VH_ENTER;
  vmutex_t *m = (vmutex_t *)pm;
  if (m->owner != 0)
    return EBUSY; /* lcdb aborts: destroying a held mutex is a bug */
  memset(pm, 0xdd, sizeof(*pm));
  m->owner = -1;
  return 0;
}

/* a synchronisation object used after pthread_*_destroy: reported like a sanitizer finding (the orchestrator
 * attributes the abort to the announced case), not as a harness error */
static void
sync_misuse(const char *what) {
  fprintf(stderr, "==SyncMisuse== %s (thread %d)\nSUMMARY: SyncSanitizer: %s\n", what, cur, what);
  fflush(stderr);
  abort();
}

static int
cond_is_destroyed(const pthread_cond_t *pc) {
  const volatile unsigned char *b = (const volatile unsigned char *)pc;   /* also an ASan-checked read of the object */
  return b[0] == 0xdd && b[1] == 0xdd && b[2] == 0xdd && b[3] == 0xdd && b[sizeof(*pc) - 1] == 0xdd;
}

static void
acquire_loop(vmutex_t *m) {
  while (m->owner != 0) {
    if (m->owner == -1)
      sync_misuse("lock of a destroyed mutex");
    if (m->owner == cur + 1) {
      snprintf(block_text, sizeof(block_text), "thread %d relocks a mutex it holds", cur);
      sch_abort_run(SCH_DEADLOCK);
    }
    thr[cur].state = T_BLK_MUTEX;
    thr[cur].wait_mutex = m;
    block();
  }
  thr[cur].state = T_RUN;
  m->owner = cur + 1;
  TSAN_ACQ(m);
}

int
vf_mutex_lock(pthread_mutex_t *pm) {
  VH_ENTER;
  vmutex_t *m = (vmutex_t *)pm;
  if (!sch_active || cur == HOME) {
    if (m->owner != 0)
      vh_die("contended mutex outside the scheduler");
    m->owner = 1;
    return 0;
  }
  point(PT_LOCK);
  acquire_loop(m);
  return 0;
}

int
vf_mutex_unlock(pthread_mutex_t *pm) {
  VH_ENTER;
  vmutex_t *m = (vmutex_t *)pm;
  if (!sch_active || cur == HOME) {
    m->owner = 0;
    return 0;
  }
  if (m->owner != cur + 1)
    return EPERM; /* lcdb aborts */
  TSAN_REL(m);
  m->owner = 0;
  return 0;
}

int
vf_cond_init(pthread_cond_t *pc, const pthread_condattr_t *a) {
  VH_ENTER;
  (void)a;
  memset(pc, 0, sizeof(*pc));
  return 0;
}

int
vf_cond_destroy(pthread_cond_t *pc) {
  VH_ENTER;
  int t;
  if (sch_active)
    for (t = 0; t < nthr; t++)
      if (thr[t].state == T_BLK_COND && thr[t].wait_obj == pc)
        return EBUSY;
  memset(pc, 0xdd, sizeof(*pc));
  return 0;
}

int
vf_cond_wait(pthread_cond_t *pc, pthread_mutex_t *pm) {
  VH_ENTER;
  vmutex_t *m = (vmutex_t *)pm;
  if (!sch_active || cur == HOME)
    vh_die("cond_wait outside the scheduler (would block forever)");
  if (m->owner != cur + 1)
    return EPERM;
  if (cfg.allow_spurious) {
    count_step();
    if (pick(PT_SPURIOUS, 2, 1) == 1) {
      TSAN_REL(m);
      m->owner = 0;
      point(PT_LOCK);
      acquire_loop(m);
      return 0;
    }
  }
  TSAN_REL(m);
  m->owner = 0;
  thr[cur].state = T_BLK_COND;
  thr[cur].wait_obj = pc;
  thr[cur].wait_mutex = m;
  block();
  /* we were signalled (state became BLK_MUTEX) and the mutex is free */
  acquire_loop(m);
  return 0;
}

static void
wake(int t) {
  thr[t].state = T_BLK_MUTEX; /* enabled as soon as its mutex is free */
  thr[t].wait_obj = NULL;
}

int
vf_cond_signal(pthread_cond_t *pc) {
  VH_ENTER;
  int w[MAXT], n = 0, t, c;
  if (!sch_active)
    return 0;
  if (cur != HOME && (cfg.hook_points & 8))
    point(PT_YIELD);   /* a switch between the unlock that usually precedes a signal and the signal itself */
  if (cond_is_destroyed(pc))
    sync_misuse("pthread_cond_signal on a destroyed condition variable");
  for (t = 0; t < nthr; t++)
    if (thr[t].state == T_BLK_COND && thr[t].wait_obj == pc)
      w[n++] = t;
  if (n == 0)
    return 0;
  c = (n > 1) ? pick(PT_SIGNAL, n, 1) : 0;
  wake(w[c]);
  return 0;
}

int
vf_cond_broadcast(pthread_cond_t *pc) {
  VH_ENTER;
  int t;
  if (!sch_active)
    return 0;
  if (cur != HOME && (cfg.hook_points & 8))
    point(PT_YIELD);
  if (cond_is_destroyed(pc))
    sync_misuse("pthread_cond_broadcast on a destroyed condition variable");
  for (t = 0; t < nthr; t++)
    if (thr[t].state == T_BLK_COND && thr[t].wait_obj == pc)
      wake(t);
  return 0;
}

int
vf_create(pthread_t *th, const pthread_attr_t *a, void *(*fn)(void *), void *arg) {
  VH_ENTER;
  int t;
  (void)a;
  if (!sch_active || cur == HOME)
    vh_die("pthread_create outside the scheduler");
  t = new_thread(NULL, fn, arg);
  *th = (pthread_t)(t + 1);
  point(PT_CREATE);
  return 0;
}

int
vf_detach(pthread_t th) {
  VH_ENTER;
  int t = (int)th - 1;
  if (t < 0 || t >= nthr)
    return ESRCH;
  thr[t].detached = 1;
  return 0;
}

int
vf_join(pthread_t th, void **ret) {
  VH_ENTER;
  int t = (int)th - 1;
  if (ret)
    *ret = NULL;
  if (t < 0 || t >= nthr)
    return ESRCH;
  sch_join(t);
  return 0;
}
