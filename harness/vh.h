/* vh.h - shared declarations of the verification harness (scheduler, VFS,
 * JSON/evidence helpers).  Everything here runs in ONE OS thread: lcdb's
 * threads are fibers switched only at scheduling points (see sched.c). */
#ifndef VH_H
#define VH_H

#include <stddef.h>
#include <stdint.h>
#include <stdio.h>

/* In the tsan flavour the harness' own bookkeeping (shared by all fibers by
 * design) must be invisible to the race detector: every harness entry point
 * that lcdb or a thread body can reach starts with VH_ENTER, which suspends
 * access recording for the calling fiber until the function returns. */
#ifdef VH_TSAN
void __tsan_ignore_thread_begin(void);
void __tsan_ignore_thread_end(void);
static inline void vh_leave_(int *p) { (void)p; __tsan_ignore_thread_end(); }
#define VH_ENTER __attribute__((cleanup(vh_leave_))) int vh_scope_ = (__tsan_ignore_thread_begin(), 0); (void)vh_scope_
#else
#define VH_ENTER ((void)0)
#endif

/* ------------------------------------------------------------------ */
/* scheduler (sched.c)                                                */
/* ------------------------------------------------------------------ */

enum { SCH_OK = 0, SCH_DEADLOCK = 1, SCH_STEPMAX = 2, SCH_BADCHOICE = 3,
       SCH_ABORTED = 4 };

enum { PT_LOCK = 1, PT_HOOK = 2, PT_IO = 3, PT_CREATE = 4, PT_BLOCK = 5,
       PT_SIGNAL = 6, PT_YIELD = 7, PT_EXIT = 8, PT_SPURIOUS = 9 };

typedef struct sch_point_s {
  unsigned char kind;        /* PT_* */
  unsigned char nopt;        /* number of options (>= 2, only choice points are recorded) */
  unsigned char chosen;      /* index taken */
  unsigned char cur_enabled; /* 1 if option 0 is "current thread continues" */
  uint64_t sig;              /* happens-before state signature at this point */
} sch_point_t;

typedef struct sch_cfg_s {
  const int *prefix;   /* choices to replay */
  int nprefix;
  int io_points;       /* scheduling point at every journalled VFS call */
  int hook_points;     /* mask: 1 = H3 (unlocked flag loads), 2 = H4 skip-list publishing stores, 4 = H4 loads,
                          8 = before every cond signal/broadcast */
  long step_max;       /* max scheduling points per execution */
  int starve_default;  /* base scheduler at hand-over points: 0 = lowest id first, 1 = highest id first */
  int allow_spurious;  /* cond-wait may return spuriously as a deviation */
} sch_cfg_t;

extern sch_point_t *sch_trace;   /* recorded choice points of the last run */
extern int sch_trace_len;
extern long sch_steps;           /* all scheduling points passed (incl. forced) */
extern long sch_total_steps;     /* accumulated over all runs */
extern int sch_active;           /* inside sch_run */
extern uint64_t sch_clock;       /* logical clock: increments at every point */

/* Run body(arg) as thread 0 under the scheduler; returns SCH_*.  All
 * threads created inside (sch_spawn or lcdb's own pthread_create) are
 * fibers.  On SCH_DEADLOCK / SCH_STEPMAX the execution is abandoned. */
int sch_run(void (*body)(void *), void *arg, const sch_cfg_t *cfg);

int  sch_spawn(void (*fn)(void *), void *arg); /* foreground thread, returns tid */
void sch_join(int tid);
void sch_drain(void);        /* run all other threads until none is enabled */
int  sch_self(void);
int  sch_nthreads(void);
int  sch_others_enabled(void);
void sch_io_point(const void *obj);      /* called by vfs.c */
void sch_yield_point(void);              /* select()/sleep */
const char *sch_describe_block(void);    /* human text for a deadlock */
void sch_abort_run(int status);          /* abandon the current execution */
void sch_quiet(int on);                  /* 1: choices not recorded, always default (setup phases) */
uint64_t sch_event(void);                /* global event stamp (total order of invocations/returns) */

/* ------------------------------------------------------------------ */
/* in-memory file system (vfs.c)                                      */
/* ------------------------------------------------------------------ */

#define VFS_PREFIX "/vfs/"
#define VFS_FD_BASE 100000

enum { J_CREATE = 1, J_REPLACE, J_WRITE, J_FSYNC, J_FSYNCDIR, J_RENAME,
       J_UNLINK, J_LINK, J_MKDIR, J_RMDIR, J_CLOSE };

/* call kinds for fault injection / call log */
enum { C_OPEN = 1, C_WRITE, C_FSYNC, C_RENAME, C_UNLINK, C_CLOSE, C_MKDIR,
       C_RMDIR, C_LINK, C_READ, C_LSEEK, C_MMAP, C_FCNTL, C_OPENDIR,
       C_STAT, C_ACCESS, C_FSTAT, C_NKINDS };

typedef struct vinode_s {
  int id;                /* index in vfs->inodes */
  uint64_t ino;          /* globally unique st_ino */
  unsigned char *data;
  size_t len, cap;
  size_t synced_len;
  size_t base_len;       /* length at the last vfs_base_snapshot() */
  int is_dir;
  int nlink;
  int opens;
  int locked;            /* fcntl lock held by this process */
  int foreign_locked;    /* lock held by the simulated foreign process */
} vinode_t;

typedef struct vjent_s {
  unsigned char kind;    /* J_* */
  unsigned char tid;
  int ino;               /* inode id (file ops) */
  int ino2;              /* replaced / target inode id */
  size_t off, len;       /* WRITE: offset and length; len after = off+len */
  char *path;            /* dir ops: path (CREATE/REPLACE/UNLINK/MKDIR/RMDIR/RENAME from/LINK from) */
  char *path2;           /* RENAME/LINK: destination */
  int dirseq;            /* ordinal among directory ops, -1 if none */
} vjent_t;

typedef struct vcall_s {
  unsigned char kind;    /* C_* */
  unsigned char tid;
  int jidx;              /* journal length when the call was made */
  size_t len;            /* bytes requested for read/write */
  char name[40];         /* basename of the file concerned */
} vcall_t;

typedef struct vname_s {
  char *path;
  int ino;
} vname_t;

typedef struct vfd_s {
  int used;
  int ino;
  size_t off;
  int flags;
} vfd_t;

typedef struct vfault_s {
  long at;               /* call index (0-based among faultable calls) or -1 */
  int persistent;        /* all faultable calls of the same class from 'at' on fail */
  int err;               /* errno to return */
  long short_n;          /* >=0: write/read transfers only short_n bytes first */
  int kind_filter;       /* persistent mode: only calls of this kind class (0=all mutating) */
  int fired;             /* number of times a fault was delivered */
  int pending_err;       /* the call after a short transfer fails */
  /* selector plan (schedule-independent site name): the sel_ord-th (1-based) call of kind sel_kind on a
   * file whose base name contains sel_name fails once with err; sel_seen counts the matches so far */
  int sel_kind, sel_ord, sel_seen;
  long sel_short;        /* >= 0 (with sel_kind read/write): that call transfers only sel_short bytes and NO error follows
                            (a legal short transfer, not a failure); -1: the call fails with err */
  char sel_name[16];
} vfault_t;

typedef struct vfs_s {
  vinode_t **inodes; int ninodes, capinodes;
  vname_t *names; int nnames, capnames;
  vname_t *base; int nbase;          /* namespace at the last base snapshot */
  vfd_t *fds; int nfds;
  vjent_t *journal; int njournal, capjournal;
  int ndirops;
  vcall_t *calls; long ncalls, capcalls;
  int log_calls;
  vfault_t fault;
  int readdir_desc;      /* directory listing order deviation */
  long rlimit_nofile;
  uint64_t trunc_live_events; /* O_TRUNC hit an existing non-empty file */
  uint64_t unlink_open_events;
} vfs_t;

extern vfs_t *vfs_cur;
extern long vfs_default_rlimit;

vfs_t *vfs_new(void);
void vfs_free(vfs_t *v);
vfs_t *vfs_clone(const vfs_t *v);       /* current namespace + contents, no fds/journal */
void vfs_use(vfs_t *v);
void vfs_fault_clear(vfs_t *v);
void vfs_drop_process_state(vfs_t *v);  /* close all fds, drop locks (process death) */

/* journal queries */
int  vfs_jlen(const vfs_t *v);
int  vfs_ndirops_before(const vfs_t *v, int t);
int  vfs_watermark(const vfs_t *v, int t);          /* # dir ops durable at t */
size_t vfs_written_len(const vfs_t *v, int ino, int t);
size_t vfs_synced_len(const vfs_t *v, int ino, int t);
void vfs_lens_at(const vfs_t *v, int t, size_t *written, size_t *synced); /* arrays of v->ninodes */

/* crash image: namespace after the first D dir ops (counting from the start
 * of v's journal, applied on top of v's base namespace), each file cut to
 * lens[ino] (callers fill lens for all inodes; SIZE_MAX = written len at t) */
vfs_t *vfs_image(const vfs_t *v, int t, int D, const size_t *lens);

/* direct access for oracles */
int  vfs_lookup(const vfs_t *v, const char *path);              /* inode id or -1 */
const vinode_t *vfs_inode(const vfs_t *v, int ino);
int  vfs_list(const vfs_t *v, const char *dir, char names[][64], int max);
int  vfs_put_file(vfs_t *v, const char *path, const void *data, size_t len);
int  vfs_remove(vfs_t *v, const char *path);
uint64_t vfs_hash(const vfs_t *v, const char *dir, int skip_info);   /* content hash of a directory */
int  vfs_foreign_trylock(vfs_t *v, const char *path);  /* 1 = foreign process got the lock */
void vfs_foreign_unlock(vfs_t *v, const char *path);
void vfs_base_snapshot(vfs_t *v);  /* forget journal; current state becomes the base */
const char *vfs_jkind(int k);
const char *vfs_ckind(int k);
void vfs_dump_journal(const vfs_t *v, FILE *f, int from, int to);

/* ------------------------------------------------------------------ */
/* misc helpers (util.c)                                              */
/* ------------------------------------------------------------------ */

uint64_t vh_hash64(const void *p, size_t n, uint64_t seed);
uint64_t vh_mix(uint64_t a, uint64_t b);

typedef struct vh_buf_s { char *p; size_t n, cap; } vh_buf_t;
void vb_init(vh_buf_t *b);
void vb_free(vh_buf_t *b);
void vb_printf(vh_buf_t *b, const char *fmt, ...);
void vb_json_str(vh_buf_t *b, const void *s, size_t n);  /* quoted + escaped */

/* 64-bit open-addressing hash set */
typedef struct vh_set_s { uint64_t *tab; size_t cap, n; } vh_set_t;
void vs_init(vh_set_t *s);
void vs_free(vh_set_t *s);
int  vs_add(vh_set_t *s, uint64_t k);   /* 1 if newly added */
int  vs_has(const vh_set_t *s, uint64_t k);

void vh_die(const char *fmt, ...);      /* harness error: exit 2 */

#endif
