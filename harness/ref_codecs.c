/* ref_codecs.c - independent reference codecs, see ref.h.
 *
 * Sources: LevelDB doc/log_format.md, doc/table_format.md, the comments of the
 * public headers about the torn-tail rules, and the Snappy format description
 * (format_description.txt).  No lcdb header is included on purpose.
 */
#include <stdio.h>
#include <stdlib.h>
#include <string.h>
#include "ref.h"

/* ------------------------------------------------------------------ */
/* buffer                                                             */
/* ------------------------------------------------------------------ */

static void
ref_oom(void) {
  fprintf(stderr, "ref_codecs: out of memory\n");
  exit(2);
}

void ref_buf_init(ref_buf_t *b) { b->p = NULL; b->n = b->cap = 0; }
void ref_buf_free(ref_buf_t *b) { free(b->p); b->p = NULL; b->n = b->cap = 0; }
void ref_buf_reset(ref_buf_t *b) { b->n = 0; }

void
ref_buf_reserve(ref_buf_t *b, size_t extra) {
  if (b->n + extra > b->cap) {
    size_t c = (b->n + extra) * 2 + 64;
    uint8_t *q = realloc(b->p, c);
    if (!q)
      ref_oom();
    b->p = q;
    b->cap = c;
  }
}

void
ref_buf_append(ref_buf_t *b, const void *p, size_t n) {
  if (n == 0)
    return;
  ref_buf_reserve(b, n);
  memmove(b->p + b->n, p, n);
  b->n += n;
}

void
ref_buf_fill(ref_buf_t *b, int byte, size_t n) {
  if (n == 0)
    return;
  ref_buf_reserve(b, n);
  memset(b->p + b->n, byte, n);
  b->n += n;
}

void
ref_buf_push(ref_buf_t *b, int byte) {
  ref_buf_reserve(b, 1);
  b->p[b->n++] = (uint8_t)byte;
}

/* ------------------------------------------------------------------ */
/* CRC-32C                                                            */
/* ------------------------------------------------------------------ */

#define REF_CRC_POLY 0x82F63B78u

uint32_t
ref_crc32c_bitwise(uint32_t crc, const uint8_t *p, size_t n) {
  uint32_t r = crc ^ 0xFFFFFFFFu;
  size_t i;
  int k;
  for (i = 0; i < n; i++) {
    r ^= p[i];
    for (k = 0; k < 8; k++)
      r = (r & 1u) ? (r >> 1) ^ REF_CRC_POLY : (r >> 1);
  }
  return r ^ 0xFFFFFFFFu;
}

static uint32_t ref_crc_tab[256];
static int ref_crc_tab_ready;

static void
ref_crc_make_table(void) {
  uint32_t i;
  int k;
  for (i = 0; i < 256; i++) {
    uint32_t r = i;
    for (k = 0; k < 8; k++)
      r = (r & 1u) ? (r >> 1) ^ REF_CRC_POLY : (r >> 1);
    ref_crc_tab[i] = r;
  }
  ref_crc_tab_ready = 1;
}

uint32_t
ref_crc32c(uint32_t crc, const uint8_t *p, size_t n) {
  uint32_t r = crc ^ 0xFFFFFFFFu;
  size_t i;
  if (!ref_crc_tab_ready)
    ref_crc_make_table();
  for (i = 0; i < n; i++)
    r = ref_crc_tab[(r ^ p[i]) & 0xFFu] ^ (r >> 8);
  return r ^ 0xFFFFFFFFu;
}

uint32_t
ref_crc_mask(uint32_t crc) {
  return (uint32_t)(((crc >> 15) | (crc << 17)) + 0xa282ead8u);
}

uint32_t
ref_crc_unmask(uint32_t masked) {
  uint32_t rot = (uint32_t)(masked - 0xa282ead8u);
  return (rot >> 17) | (rot << 15);
}

/* ------------------------------------------------------------------ */
/* fixed ints, varints                                                */
/* ------------------------------------------------------------------ */

uint32_t
ref_le32(const uint8_t *p) {
  return (uint32_t)p[0] | ((uint32_t)p[1] << 8) | ((uint32_t)p[2] << 16) | ((uint32_t)p[3] << 24);
}

uint64_t
ref_le64(const uint8_t *p) {
  return (uint64_t)ref_le32(p) | ((uint64_t)ref_le32(p + 4) << 32);
}

void
ref_put_le32(uint8_t *p, uint32_t v) {
  p[0] = (uint8_t)v;
  p[1] = (uint8_t)(v >> 8);
  p[2] = (uint8_t)(v >> 16);
  p[3] = (uint8_t)(v >> 24);
}

void
ref_put_le64(uint8_t *p, uint64_t v) {
  ref_put_le32(p, (uint32_t)v);
  ref_put_le32(p + 4, (uint32_t)(v >> 32));
}

size_t
ref_varint64_put(uint8_t *dst, uint64_t v) {
  size_t i = 0;
  while (v >= 0x80) {
    dst[i++] = (uint8_t)(v | 0x80);
    v >>= 7;
  }
  dst[i++] = (uint8_t)v;
  return i;
}

size_t
ref_varint32_put(uint8_t *dst, uint32_t v) {
  return ref_varint64_put(dst, v);
}

size_t
ref_varint64_get(const uint8_t *p, size_t n, uint64_t *v) {
  uint64_t r = 0;
  size_t i;
  for (i = 0; i < n && i < 10; i++) {
    r |= (uint64_t)(p[i] & 0x7F) << (7 * i);
    if (!(p[i] & 0x80)) {
      *v = r;
      return i + 1;
    }
  }
  return 0;
}

size_t
ref_varint32_get(const uint8_t *p, size_t n, uint32_t *v) {
  uint64_t r = 0;
  size_t i;
  for (i = 0; i < n && i < 5; i++) {
    r |= (uint64_t)(p[i] & 0x7F) << (7 * i);
    if (!(p[i] & 0x80)) {
      *v = (uint32_t)r;
      return i + 1;
    }
  }
  return 0;
}

/* ------------------------------------------------------------------ */
/* log format                                                         */
/* ------------------------------------------------------------------ */

void ref_layout_init(ref_layout_t *l) { l->f = NULL; l->n = l->cap = 0; }
void ref_layout_free(ref_layout_t *l) { free(l->f); l->f = NULL; l->n = l->cap = 0; }

static void
ref_layout_add(ref_layout_t *l, size_t off, size_t len, int type, int rec) {
  if (l->n == l->cap) {
    l->cap = l->cap ? l->cap * 2 : 16;
    l->f = realloc(l->f, l->cap * sizeof(*l->f));
    if (!l->f)
      ref_oom();
  }
  l->f[l->n].off = off;
  l->f[l->n].len = len;
  l->f[l->n].type = type;
  l->f[l->n].rec = rec;
  l->n++;
}

void
ref_log_encode(ref_buf_t *out, size_t start, const uint8_t *const *recs, const size_t *lens, size_t nrec,
               ref_layout_t *lay) {
  size_t pos = start; /* file offset of the next byte to be written */
  size_t r;
  for (r = 0; r < nrec; r++) {
    const uint8_t *src = recs[r];
    size_t left = lens[r];
    int first = 1;
    for (;;) {
      size_t room = REF_LOG_BLOCK - (pos % REF_LOG_BLOCK); /* 1..32768 */
      size_t take;
      int type, last;
      uint8_t hdr[REF_LOG_HEADER];
      uint32_t crc;
      if (room < REF_LOG_HEADER) { /* a header never straddles blocks: zero trailer */
        ref_buf_fill(out, 0, room);
        pos += room;
        room = REF_LOG_BLOCK;
      }
      take = room - REF_LOG_HEADER;
      if (take > left)
        take = left;
      last = (take == left);
      type = first ? (last ? REF_LOG_FULL : REF_LOG_FIRST) : (last ? REF_LOG_LAST : REF_LOG_MIDDLE);
      hdr[4] = (uint8_t)(take & 0xFF);
      hdr[5] = (uint8_t)(take >> 8);
      hdr[6] = (uint8_t)type;
      crc = ref_crc32c(0, &hdr[6], 1);
      crc = ref_crc32c(crc, src, take);
      ref_put_le32(hdr, ref_crc_mask(crc));
      if (lay)
        ref_layout_add(lay, pos, take, type, (int)r);
      ref_buf_append(out, hdr, REF_LOG_HEADER);
      ref_buf_append(out, src, take);
      pos += REF_LOG_HEADER + take;
      src += take;
      left -= take;
      first = 0;
      if (last)
        break;
    }
  }
}

void
ref_reclist_init(ref_reclist_t *r) {
  ref_buf_init(&r->data);
  ref_buf_init(&r->tmp);
  r->off = r->len = NULL;
  r->n = r->cap = 0;
}

void
ref_reclist_free(ref_reclist_t *r) {
  ref_buf_free(&r->data);
  ref_buf_free(&r->tmp);
  free(r->off);
  free(r->len);
  r->off = r->len = NULL;
  r->n = r->cap = 0;
}

void
ref_reclist_reset(ref_reclist_t *r) {
  ref_buf_reset(&r->data);
  r->n = 0;
}

void
ref_reclist_add(ref_reclist_t *r, const void *p, size_t n) {
  if (r->n == r->cap) {
    r->cap = r->cap ? r->cap * 2 : 16;
    r->off = realloc(r->off, r->cap * sizeof(size_t));
    r->len = realloc(r->len, r->cap * sizeof(size_t));
    if (!r->off || !r->len)
      ref_oom();
  }
  r->off[r->n] = r->data.n;
  r->len[r->n] = n;
  r->n++;
  ref_buf_append(&r->data, p, n);
}

size_t
ref_log_decode(const uint8_t *file, size_t n, size_t initial_offset, ref_reclist_t *out) {
  size_t drops = 0;
  size_t boff;
  int in_frag = 0;        /* a FIRST has been seen and not yet completed */
  int resync = initial_offset > 0; /* skip the tail of a record begun before initial_offset */
  ref_buf_t acc;
  ref_reclist_reset(out);
  acc = out->tmp; /* borrowed, handed back at the end */
  acc.n = 0;

  boff = initial_offset - (initial_offset % REF_LOG_BLOCK);
  if (initial_offset % REF_LOG_BLOCK > REF_LOG_BLOCK - 6)
    boff += REF_LOG_BLOCK; /* initial offset lies in a trailer: start at the next block */

  for (; boff < n; boff += REF_LOG_BLOCK) {
    size_t blen = (n - boff < REF_LOG_BLOCK) ? n - boff : REF_LOG_BLOCK;
    int short_block = blen < REF_LOG_BLOCK; /* only the final block can be short */
    size_t p = 0;
    for (;;) {
      size_t rem = blen - p;
      const uint8_t *h = file + boff + p;
      size_t len;
      int type, bad = 0, report = 0;
      if (rem < REF_LOG_HEADER) {
        if (short_block)
          goto eof; /* nothing, or a torn header at the end of the file */
        break;      /* block trailer */
      }
      len = (size_t)h[4] | ((size_t)h[5] << 8);
      type = h[6];
      if (REF_LOG_HEADER + len > rem) {
        if (short_block)
          goto eof; /* torn payload at the end of the file */
        bad = 1;
        report = 1; /* a length that leaves the block */
      } else if (type == 0 && len == 0) {
        bad = 1;    /* preallocated region: skipped without a report */
      } else if (ref_crc_unmask(ref_le32(h)) != ref_crc32c(0, h + 6, 1 + len)) {
        bad = 1;
        report = 1;
      }
      if (bad) {
        /* the length field cannot be trusted: give up the rest of this block */
        if (report && boff + p >= initial_offset)
          drops++;
        if (in_frag) {
          drops++;  /* the record under assembly is lost too */
          in_frag = 0;
          ref_buf_reset(&acc);
        }
        break;
      }
      p += REF_LOG_HEADER + len;
      if ((size_t)(h - file) < initial_offset)
        continue;   /* physical record that starts before the initial offset: not ours */
      if (resync) {
        if (type == REF_LOG_MIDDLE)
          continue;
        resync = 0;
        if (type == REF_LOG_LAST)
          continue;
      }
      switch (type) {
        case REF_LOG_FULL:
          if (in_frag && acc.n > 0)
            drops++; /* FIRST without its end */
          in_frag = 0;
          ref_buf_reset(&acc);
          ref_reclist_add(out, h + REF_LOG_HEADER, len);
          break;
        case REF_LOG_FIRST:
          if (in_frag && acc.n > 0)
            drops++;
          ref_buf_reset(&acc);
          ref_buf_append(&acc, h + REF_LOG_HEADER, len);
          in_frag = 1;
          break;
        case REF_LOG_MIDDLE:
          if (!in_frag)
            drops++; /* orphan */
          else
            ref_buf_append(&acc, h + REF_LOG_HEADER, len);
          break;
        case REF_LOG_LAST:
          if (!in_frag) {
            drops++;
          } else {
            ref_buf_append(&acc, h + REF_LOG_HEADER, len);
            ref_reclist_add(out, acc.p, acc.n);
            ref_buf_reset(&acc);
            in_frag = 0;
          }
          break;
        default:
          drops++; /* unknown record type */
          in_frag = 0;
          ref_buf_reset(&acc);
          break;
      }
    }
  }
eof:
  /* an unfinished fragmented record at the end = the writer died: silent */
  out->tmp = acc;
  return drops;
}

/* ------------------------------------------------------------------ */
/* Snappy                                                             */
/* ------------------------------------------------------------------ */

int
ref_snappy_decode(const uint8_t *src, size_t n, ref_buf_t *out) {
  uint32_t want;
  size_t i = ref_varint32_get(src, n, &want);
  size_t base = out->n;
  if (i == 0)
    return -1;
  ref_buf_reserve(out, want);
  while (i < n) {
    unsigned tag = src[i++];
    size_t len, offset;
    switch (tag & 3) {
      case 0: {
        len = (tag >> 2);
        if (len >= 60) {
          size_t nb = len - 59, k;
          if (n - i < nb)
            return -1;
          len = 0;
          for (k = 0; k < nb; k++)
            len |= (size_t)src[i + k] << (8 * k);
          i += nb;
        }
        len += 1;
        if (n - i < len)
          return -1;
        if (out->n - base + len > want)
          return -1;
        ref_buf_append(out, src + i, len);
        i += len;
        continue;
      }
      case 1:
        if (n - i < 1)
          return -1;
        len = 4 + ((tag >> 2) & 7);
        offset = ((size_t)(tag >> 5) << 8) | src[i];
        i += 1;
        break;
      case 2:
        if (n - i < 2)
          return -1;
        len = (tag >> 2) + 1;
        offset = (size_t)src[i] | ((size_t)src[i + 1] << 8);
        i += 2;
        break;
      default:
        if (n - i < 4)
          return -1;
        len = (tag >> 2) + 1;
        offset = ref_le32(src + i);
        i += 4;
        break;
    }
    if (offset == 0 || offset > out->n - base)
      return -1;
    if (out->n - base + len > want)
      return -1;
    ref_buf_reserve(out, len);
    while (len--) { /* byte by byte: copies may overlap their own output */
      out->p[out->n] = out->p[out->n - offset];
      out->n++;
    }
  }
  return (out->n - base == want) ? 0 : -1;
}

void
ref_snappy_encode_literal(const uint8_t *src, size_t n, ref_buf_t *out) {
  uint8_t tmp[10];
  size_t k = ref_varint32_put(tmp, (uint32_t)n);
  size_t i = 0;
  ref_buf_append(out, tmp, k);
  while (i < n) {
    size_t len = n - i;
    if (len > 65536)
      len = 65536;
    if (len <= 60) {
      ref_buf_push(out, (int)((len - 1) << 2));
    } else if (len <= 256) {
      ref_buf_push(out, 60 << 2);
      ref_buf_push(out, (int)(len - 1));
    } else {
      ref_buf_push(out, 61 << 2);
      ref_buf_push(out, (int)((len - 1) & 0xFF));
      ref_buf_push(out, (int)((len - 1) >> 8));
    }
    ref_buf_append(out, src + i, len);
    i += len;
  }
}

/* ------------------------------------------------------------------ */
/* table format                                                       */
/* ------------------------------------------------------------------ */

uint32_t
ref_ldb_hash(const uint8_t *p, size_t n, uint32_t seed) {
  const uint32_t m = 0xc6a4a793u;
  uint32_t h = seed ^ (uint32_t)((uint32_t)n * m);
  size_t i = 0;
  for (; i + 4 <= n; i += 4) {
    h += ref_le32(p + i);
    h *= m;
    h ^= (h >> 16);
  }
  switch (n - i) {
    case 3:
      h += (uint32_t)p[i + 2] << 16;
      /* fall through */
    case 2:
      h += (uint32_t)p[i + 1] << 8;
      /* fall through */
    case 1:
      h += p[i];
      h *= m;
      h ^= (h >> 24);
      break;
  }
  return h;
}

int
ref_bloom_may_match(const uint8_t *filter, size_t n, const uint8_t *key, size_t klen) {
  size_t bits, k, j;
  uint32_t h, delta;
  if (n < 2)
    return 0;
  bits = (n - 1) * 8;
  k = filter[n - 1];
  if (k > 30)
    return 1; /* reserved for future encodings */
  h = ref_ldb_hash(key, klen, 0xbc9f1d34u);
  delta = (h >> 17) | (h << 15);
  for (j = 0; j < k; j++) {
    uint32_t pos = h % (uint32_t)bits;
    if (!(filter[pos / 8] & (1u << (pos % 8))))
      return 0;
    h += delta;
  }
  return 1;
}

void
ref_table_init(ref_table_t *t) {
  memset(t, 0, sizeof(*t));
  ref_buf_init(&t->pool);
}

void
ref_table_free(ref_table_t *t) {
  ref_buf_free(&t->pool);
  free(t->e);
  free(t->blk);
  memset(t, 0, sizeof(*t));
}

#define REF_TFAIL(t, ...) do { snprintf((t)->err, sizeof((t)->err), __VA_ARGS__); return -1; } while (0)

/* fetch + verify one block; *blk receives the uncompressed contents */
static int
ref_read_block(const uint8_t *file, size_t n, uint64_t off, uint64_t size, ref_buf_t *blk, int *type_out,
               ref_table_t *t, const char *what) {
  uint32_t stored, actual;
  int type;
  if (off > n || size > n || off + size + REF_BLOCK_TRAILER > n)
    REF_TFAIL(t, "%s block handle (%llu,%llu) outside file of %zu bytes", what, (unsigned long long)off,
              (unsigned long long)size, n);
  type = file[off + size];
  stored = ref_crc_unmask(ref_le32(file + off + size + 1));
  actual = ref_crc32c(0, file + off, (size_t)size + 1);
  if (stored != actual)
    REF_TFAIL(t, "%s block at %llu: checksum mismatch (stored %08x computed %08x)", what, (unsigned long long)off,
              stored, actual);
  ref_buf_reset(blk);
  if (type == 0) {
    ref_buf_append(blk, file + off, (size_t)size);
  } else if (type == 1) {
    if (ref_snappy_decode(file + off, (size_t)size, blk) != 0)
      REF_TFAIL(t, "%s block at %llu: malformed snappy data", what, (unsigned long long)off);
    t->any_compressed = 1;
  } else {
    REF_TFAIL(t, "%s block at %llu: unknown compression type %d", what, (unsigned long long)off, type);
  }
  *type_out = type;
  return 0;
}

typedef struct ref_kv_s {
  ref_buf_t key;
  const uint8_t *val;
  size_t vlen;
} ref_kv_t;

/* Walk all entries of a key/value block.  cb(arg, key, klen, val, vlen) per
 * entry.  interval > 0: restart points exactly every `interval` entries. */
static int
ref_walk_block(const uint8_t *b, size_t n, int interval, ref_table_t *t, const char *what, size_t *nrestarts_out,
               int (*cb)(void *, const uint8_t *, size_t, const uint8_t *, size_t), void *arg) {
  uint32_t nrest;
  size_t rest_off, p = 0, count = 0, ri = 0, since_restart = 0;
  ref_buf_t key;
  int rc = 0;
  if (n < 4)
    REF_TFAIL(t, "%s block shorter than a restart count", what);
  nrest = ref_le32(b + n - 4);
  if (nrest == 0 || (uint64_t)nrest * 4 + 4 > n)
    REF_TFAIL(t, "%s block: bad restart count %u for %zu bytes", what, nrest, n);
  rest_off = n - 4 - (size_t)nrest * 4;
  if (ref_le32(b + rest_off) != 0)
    REF_TFAIL(t, "%s block: first restart point is not offset 0", what);
  ref_buf_init(&key);
  while (p < rest_off) {
    uint32_t shared, non_shared, vlen;
    size_t k, entry_off = p;
    int is_restart = (ri < nrest && ref_le32(b + rest_off + 4 * ri) == entry_off);
    k = ref_varint32_get(b + p, rest_off - p, &shared);
    if (!k) { rc = -1; snprintf(t->err, sizeof(t->err), "%s block: bad shared varint at %zu", what, p); break; }
    p += k;
    k = ref_varint32_get(b + p, rest_off - p, &non_shared);
    if (!k) { rc = -1; snprintf(t->err, sizeof(t->err), "%s block: bad non_shared varint at %zu", what, p); break; }
    p += k;
    k = ref_varint32_get(b + p, rest_off - p, &vlen);
    if (!k) { rc = -1; snprintf(t->err, sizeof(t->err), "%s block: bad value_length varint at %zu", what, p); break; }
    p += k;
    if ((uint64_t)non_shared + vlen > rest_off - p) {
      rc = -1; snprintf(t->err, sizeof(t->err), "%s block: entry at %zu overruns the entry area", what, entry_off); break;
    }
    if (shared > key.n) {
      rc = -1; snprintf(t->err, sizeof(t->err), "%s block: entry at %zu shares %u bytes of a %zu-byte key", what, entry_off, shared, key.n); break;
    }
    if (is_restart) {
      if (shared != 0) {
        rc = -1; snprintf(t->err, sizeof(t->err), "%s block: restart point %zu at %zu has shared=%u", what, ri, entry_off, shared); break;
      }
      if (interval > 0 && count > 0 && since_restart != (size_t)interval) {
        rc = -1; snprintf(t->err, sizeof(t->err), "%s block: %zu entries before restart point %zu, interval is %d", what, since_restart, ri, interval); break;
      }
      ri++;
      since_restart = 0;
    } else if (interval > 0 && since_restart >= (size_t)interval) {
      rc = -1; snprintf(t->err, sizeof(t->err), "%s block: entry at %zu is %zu entries after a restart point, interval is %d", what, entry_off, since_restart, interval); break;
    }
    key.n = shared;
    ref_buf_append(&key, b + p, non_shared);
    p += non_shared;
    if (cb && cb(arg, key.p, key.n, b + p, vlen) != 0) {
      rc = -1; break;
    }
    p += vlen;
    count++;
    since_restart++;
  }
  ref_buf_free(&key);
  if (rc != 0)
    return rc;
  if (count == 0 && nrest == 1)
    ri = 1; /* an empty block carries the single restart point 0 */
  if (ri != nrest)
    REF_TFAIL(t, "%s block: %u restart points declared, %zu are entry starts", what, nrest, ri);
  if (nrestarts_out)
    *nrestarts_out = nrest;
  return 0;
}

static int
ref_parse_handle(const uint8_t *p, size_t n, uint64_t *off, uint64_t *size, size_t *used) {
  size_t a = ref_varint64_get(p, n, off), b;
  if (!a)
    return -1;
  b = ref_varint64_get(p + a, n - a, size);
  if (!b)
    return -1;
  if (used)
    *used = a + b;
  return 0;
}

typedef struct ref_meta_ctx_s {
  const char *want; /* "filter.<name>" */
  int found;
  uint64_t off, size;
  size_t entries;
} ref_meta_ctx_t;

static int
ref_meta_cb(void *arg, const uint8_t *k, size_t kn, const uint8_t *v, size_t vn) {
  ref_meta_ctx_t *c = arg;
  c->entries++;
  if (c->want && kn == strlen(c->want) && memcmp(k, c->want, kn) == 0) {
    if (ref_parse_handle(v, vn, &c->off, &c->size, NULL) != 0)
      return -1;
    c->found = 1;
  }
  return 0;
}

typedef struct ref_index_ent_s {
  size_t koff, klen;
  uint64_t off, size;
} ref_index_ent_t;

typedef struct ref_index_ctx_s {
  ref_table_t *t;
  ref_index_ent_t *e;
  size_t n, cap;
} ref_index_ctx_t;

static int
ref_index_cb(void *arg, const uint8_t *k, size_t kn, const uint8_t *v, size_t vn) {
  ref_index_ctx_t *c = arg;
  ref_index_ent_t *e;
  if (c->n == c->cap) {
    c->cap = c->cap ? c->cap * 2 : 16;
    c->e = realloc(c->e, c->cap * sizeof(*c->e));
    if (!c->e)
      ref_oom();
  }
  e = &c->e[c->n];
  if (ref_parse_handle(v, vn, &e->off, &e->size, NULL) != 0) {
    snprintf(c->t->err, sizeof(c->t->err), "index entry %zu: bad block handle", c->n);
    return -1;
  }
  e->koff = c->t->pool.n;
  e->klen = kn;
  ref_buf_append(&c->t->pool, k, kn);
  c->n++;
  return 0;
}

typedef struct ref_data_ctx_s {
  ref_table_t *t;
  const uint8_t *filter; /* filter for this block or NULL */
  size_t filter_len;
  int check_filter;
  size_t key_strip;
  uint64_t blk_off;
} ref_data_ctx_t;

static int
ref_data_cb(void *arg, const uint8_t *k, size_t kn, const uint8_t *v, size_t vn) {
  ref_data_ctx_t *c = arg;
  ref_table_t *t = c->t;
  ref_entry_t *e;
  if (t->n == t->cap) {
    t->cap = t->cap ? t->cap * 2 : 32;
    t->e = realloc(t->e, t->cap * sizeof(*t->e));
    if (!t->e)
      ref_oom();
  }
  e = &t->e[t->n++];
  e->koff = t->pool.n;
  e->klen = kn;
  ref_buf_append(&t->pool, k, kn);
  e->voff = t->pool.n;
  e->vlen = vn;
  ref_buf_append(&t->pool, v, vn);
  if (c->check_filter) {
    if (kn < c->key_strip) {
      snprintf(t->err, sizeof(t->err), "data block at %llu: key shorter than %zu bytes", (unsigned long long)c->blk_off,
               c->key_strip);
      return -1;
    }
    t->filter_probes++;
    if (!c->filter || !ref_bloom_may_match(c->filter, c->filter_len, k, kn - c->key_strip)) {
      snprintf(t->err, sizeof(t->err), "filter rejects present key (entry %zu, data block at %llu)", t->n - 1,
               (unsigned long long)c->blk_off);
      return -1;
    }
  }
  return 0;
}

int
ref_table_read(const uint8_t *file, size_t n, const char *filter_name, size_t key_strip, int data_restart_interval,
               ref_table_t *t) {
  const uint8_t *ft;
  uint64_t mi_off, mi_size, ix_off, ix_size;
  size_t used, used2, i;
  ref_buf_t blk, fblk;
  ref_meta_ctx_t mc;
  ref_index_ctx_t ic;
  char want[128];
  int type, rc = -1;
  uint64_t expect_off = 0;
  size_t arr_off = 0;

  t->n = 0;
  t->nblk = 0;
  t->pool.n = 0;
  t->has_filter = 0;
  t->any_compressed = 0;
  t->filter_probes = 0;
  t->nfilters = 0;
  t->filter_size = 0;
  t->err[0] = 0;

  if (n < REF_FOOTER_SIZE)
    REF_TFAIL(t, "file of %zu bytes is shorter than a footer", n);
  ft = file + n - REF_FOOTER_SIZE;
  if (ref_le64(ft + 40) != REF_TABLE_MAGIC)
    REF_TFAIL(t, "bad magic %016llx", (unsigned long long)ref_le64(ft + 40));
  if (ref_parse_handle(ft, 40, &mi_off, &mi_size, &used) != 0)
    REF_TFAIL(t, "footer: bad metaindex handle");
  if (ref_parse_handle(ft + used, 40 - used, &ix_off, &ix_size, &used2) != 0)
    REF_TFAIL(t, "footer: bad index handle");
  for (i = used + used2; i < 40; i++)
    if (ft[i] != 0)
      REF_TFAIL(t, "footer: padding byte %zu is %02x, not zero", i, ft[i]);

  ref_buf_init(&blk);
  ref_buf_init(&fblk);
  memset(&ic, 0, sizeof(ic));
  ic.t = t;
  memset(&mc, 0, sizeof(mc));

  /* metaindex */
  if (ref_read_block(file, n, mi_off, mi_size, &blk, &type, t, "metaindex") != 0)
    goto out;
  if (filter_name) {
    snprintf(want, sizeof(want), "filter.%s", filter_name);
    mc.want = want;
  }
  if (ref_walk_block(blk.p, blk.n, 0, t, "metaindex", NULL, ref_meta_cb, &mc) != 0) {
    if (!t->err[0])
      snprintf(t->err, sizeof(t->err), "metaindex: bad filter handle");
    goto out;
  }
  t->metaindex_entries = mc.entries;
  if (filter_name && !mc.found) {
    snprintf(t->err, sizeof(t->err), "metaindex has no entry %s", want);
    goto out;
  }

  /* filter block */
  if (mc.found) {
    if (ref_read_block(file, n, mc.off, mc.size, &fblk, &type, t, "filter") != 0)
      goto out;
    if (type != 0) {
      snprintf(t->err, sizeof(t->err), "filter block is compressed");
      goto out;
    }
    if (fblk.n < 5) {
      snprintf(t->err, sizeof(t->err), "filter block of %zu bytes", fblk.n);
      goto out;
    }
    t->base_lg = fblk.p[fblk.n - 1];
    arr_off = ref_le32(fblk.p + fblk.n - 5);
    if (arr_off > fblk.n - 5 || (fblk.n - 5 - arr_off) % 4 != 0 || t->base_lg > 30) {
      snprintf(t->err, sizeof(t->err), "filter block: offset array start %zu / base_lg %d invalid for %zu bytes", arr_off,
               t->base_lg, fblk.n);
      goto out;
    }
    t->nfilters = (fblk.n - 5 - arr_off) / 4;
    t->filter_size = fblk.n;
    t->has_filter = 1;
  }

  /* index */
  if (ref_read_block(file, n, ix_off, ix_size, &blk, &type, t, "index") != 0)
    goto out;
  if (ref_walk_block(blk.p, blk.n, 1, t, "index", NULL, ref_index_cb, &ic) != 0)
    goto out;

  /* data blocks, in index order */
  for (i = 0; i < ic.n; i++) {
    ref_data_ctx_t dc;
    ref_blockinfo_t *bi;
    size_t nrest = 0;
    if (ic.e[i].off != expect_off) {
      snprintf(t->err, sizeof(t->err), "data block %zu at offset %llu, expected %llu (blocks must be contiguous)", i,
               (unsigned long long)ic.e[i].off, (unsigned long long)expect_off);
      goto out;
    }
    if (ref_read_block(file, n, ic.e[i].off, ic.e[i].size, &blk, &type, t, "data") != 0)
      goto out;
    memset(&dc, 0, sizeof(dc));
    dc.t = t;
    dc.key_strip = key_strip;
    dc.blk_off = ic.e[i].off;
    if (t->has_filter) {
      size_t fi = (size_t)(ic.e[i].off >> t->base_lg);
      dc.check_filter = 1;
      if (fi < t->nfilters) {
        size_t s = ref_le32(fblk.p + arr_off + 4 * fi);
        size_t l = ref_le32(fblk.p + arr_off + 4 * fi + 4); /* for the last filter this is the array start */
        if (s <= l && l <= arr_off && s < l) {
          dc.filter = fblk.p + s;
          dc.filter_len = l - s;
        }
      }
    }
    if (t->nblk == t->capblk) {
      t->capblk = t->capblk ? t->capblk * 2 : 16;
      t->blk = realloc(t->blk, t->capblk * sizeof(*t->blk));
      if (!t->blk)
        ref_oom();
    }
    bi = &t->blk[t->nblk];
    bi->off = ic.e[i].off;
    bi->size = ic.e[i].size;
    bi->type = type;
    bi->raw_size = blk.n;
    bi->first = t->n;
    bi->ikoff = ic.e[i].koff;
    bi->iklen = ic.e[i].klen;
    if (ref_walk_block(blk.p, blk.n, data_restart_interval, t, "data", &nrest, ref_data_cb, &dc) != 0)
      goto out;
    bi = &t->blk[t->nblk];
    bi->count = t->n - bi->first;
    bi->nrestarts = nrest;
    t->nblk++;
    if (bi->count == 0) {
      snprintf(t->err, sizeof(t->err), "data block %zu is empty", i);
      goto out;
    }
    expect_off = ic.e[i].off + ic.e[i].size + REF_BLOCK_TRAILER;
  }

  /* standard layout: data blocks, [filter block], metaindex, index, footer */
  if (mc.found) {
    if (mc.off != expect_off) {
      snprintf(t->err, sizeof(t->err), "filter block at %llu, expected %llu", (unsigned long long)mc.off,
               (unsigned long long)expect_off);
      goto out;
    }
    expect_off = mc.off + mc.size + REF_BLOCK_TRAILER;
  }
  if (filter_name != NULL || mc.entries == 0) {
    /* (with filters ignored an unknown meta block may sit here) */
    if (mi_off != expect_off) {
      snprintf(t->err, sizeof(t->err), "metaindex block at %llu, expected %llu", (unsigned long long)mi_off,
               (unsigned long long)expect_off);
      goto out;
    }
  }
  if (ix_off != mi_off + mi_size + REF_BLOCK_TRAILER) {
    snprintf(t->err, sizeof(t->err), "index block at %llu does not follow the metaindex block", (unsigned long long)ix_off);
    goto out;
  }
  if (ix_off + ix_size + REF_BLOCK_TRAILER + REF_FOOTER_SIZE != n) {
    snprintf(t->err, sizeof(t->err), "footer does not follow the index block (file %zu bytes)", n);
    goto out;
  }
  rc = 0;
out:
  free(ic.e);
  ref_buf_free(&blk);
  ref_buf_free(&fblk);
  return rc;
}
