/* vfs.c - in-memory POSIX file system behind lcdb's libc seam.
 *
 * The harness executable defines open/read/write/... itself, so the calls
 * made by env_unix_impl.h resolve here.  Paths under /vfs/ and descriptors
 * >= VFS_FD_BASE are served from memory; anything else is forwarded with a
 * raw syscall.  Every mutating call is journalled; crash images, fault
 * injection and I/O-granularity scheduling points are built on the journal.
 *
 * Files are append-only in lcdb (O_TRUNC creates, O_APPEND reuses); O_TRUNC
 * on an existing name is modelled as a directory operation that replaces the
 * name with a fresh inode, so a file's state at any journal index is simply
 * a prefix length of its final bytes.
 */
#define _GNU_SOURCE
#include <dirent.h>
#include <errno.h>
#include <fcntl.h>
#include <stdarg.h>
#include <stdlib.h>
#include <string.h>
#include <sys/mman.h>
#include <sys/resource.h>
#include <sys/select.h>
#include <sys/stat.h>
#include <sys/syscall.h>
#include <sys/time.h>
#include <unistd.h>
#include "vh.h"

vfs_t *vfs_cur;
long vfs_default_rlimit = 1024;   /* RLIMIT_NOFILE answer of new file systems (env_init: fd limiter = this / 5) */
static uint64_t next_ino = 1000;

#define VDIR_MAGIC 0x56444952u
typedef struct vdir_s {
  unsigned magic;
  int n, pos;
  char (*names)[64];
  struct dirent ent;
} vdir_t;

typedef struct vmap_s { void *p; size_t n; } vmap_t;
static vmap_t maps[4096];
static int nmaps;

/* byte copy that the compiler must not turn into (sanitizer-intercepted) memcpy */
static void
vcopy(void *dst, const void *src, size_t n) {
  volatile unsigned char *d = dst;
  const volatile unsigned char *s = src;
  size_t i;
  for (i = 0; i < n; i++)
    d[i] = s[i];
}

static int
is_vpath(const char *p) {
  return p && strncmp(p, VFS_PREFIX, 5) == 0;
}

static char *
norm(const char *p, char *buf, size_t sz) {
  size_t n = strlen(p);
  if (n + 1 > sz)
    vh_die("path too long");
  memcpy(buf, p, n + 1);
  while (n > 5 && buf[n - 1] == '/')
    buf[--n] = 0;
  return buf;
}

static const char *
base_of(const char *p) {
  const char *b = strrchr(p, '/');
  return b ? b + 1 : p;
}

/* ------------------------------------------------------------------ */

vfs_t *
vfs_new(void) {
  vfs_t *v = calloc(1, sizeof(*v));
  v->nfds = 256;
  v->fds = calloc(v->nfds, sizeof(vfd_t));
  v->fault.at = -1;
  v->fault.short_n = -1;
  v->fault.sel_short = -1;
  v->rlimit_nofile = vfs_default_rlimit;
  return v;
}

static void
free_journal(vfs_t *v) {
  int i;
  for (i = 0; i < v->njournal; i++) {
    free(v->journal[i].path);
    free(v->journal[i].path2);
  }
  free(v->journal);
  v->journal = NULL;
  v->njournal = v->capjournal = 0;
  v->ndirops = 0;
}

void
vfs_free(vfs_t *v) {
  int i;
  if (!v)
    return;
  if (vfs_cur == v)
    vfs_cur = NULL;
  for (i = 0; i < v->ninodes; i++) {
    free(v->inodes[i]->data);
    free(v->inodes[i]);
  }
  free(v->inodes);
  for (i = 0; i < v->nnames; i++)
    free(v->names[i].path);
  free(v->names);
  for (i = 0; i < v->nbase; i++)
    free(v->base[i].path);
  free(v->base);
  free(v->fds);
  free_journal(v);
  free(v->calls);
  free(v);
}

void vfs_use(vfs_t *v) { vfs_cur = v; }

static vinode_t *
new_inode(vfs_t *v, int is_dir) {
  vinode_t *n = calloc(1, sizeof(*n));
  if (v->ninodes == v->capinodes) {
    v->capinodes = v->capinodes ? v->capinodes * 2 : 32;
    v->inodes = realloc(v->inodes, v->capinodes * sizeof(*v->inodes));
  }
  n->id = v->ninodes;
  n->ino = next_ino++;
  n->is_dir = is_dir;
  v->inodes[v->ninodes++] = n;
  return n;
}

static int
find_name(const vfs_t *v, const char *path) {
  int i;
  for (i = 0; i < v->nnames; i++)
    if (strcmp(v->names[i].path, path) == 0)
      return i;
  return -1;
}

static void
add_name(vfs_t *v, const char *path, int ino) {
  if (v->nnames == v->capnames) {
    v->capnames = v->capnames ? v->capnames * 2 : 32;
    v->names = realloc(v->names, v->capnames * sizeof(*v->names));
  }
  v->names[v->nnames].path = strdup(path);
  v->names[v->nnames].ino = ino;
  v->nnames++;
  v->inodes[ino]->nlink++;
}

static void
del_name(vfs_t *v, int idx) {
  v->inodes[v->names[idx].ino]->nlink--;
  free(v->names[idx].path);
  v->names[idx] = v->names[v->nnames - 1];
  v->nnames--;
}

static int
parent_exists(const vfs_t *v, const char *path) {
  char buf[1200];
  char *s;
  int i;
  strncpy(buf, path, sizeof(buf) - 1);
  buf[sizeof(buf) - 1] = 0;
  s = strrchr(buf, '/');
  if (!s || s == buf)
    return 0;
  *s = 0;
  if (strcmp(buf, "/vfs") == 0)
    return 1;
  i = find_name(v, buf);
  return i >= 0 && v->inodes[v->names[i].ino]->is_dir;
}

int
vfs_lookup(const vfs_t *v, const char *path) {
  int i = find_name(v, path);
  return i < 0 ? -1 : v->names[i].ino;
}

const vinode_t *
vfs_inode(const vfs_t *v, int ino) {
  return (ino >= 0 && ino < v->ninodes) ? v->inodes[ino] : NULL;
}

static vjent_t *
jadd(vfs_t *v, int kind, int ino, const char *path, const char *path2) {
  vjent_t *e;
  if (v->njournal == v->capjournal) {
    v->capjournal = v->capjournal ? v->capjournal * 2 : 256;
    v->journal = realloc(v->journal, v->capjournal * sizeof(*v->journal));
  }
  e = &v->journal[v->njournal++];
  memset(e, 0, sizeof(*e));
  e->kind = (unsigned char)kind;
  e->tid = (unsigned char)sch_self();
  e->ino = ino;
  e->ino2 = -1;
  e->path = path ? strdup(path) : NULL;
  e->path2 = path2 ? strdup(path2) : NULL;
  e->dirseq = -1;
  switch (kind) {
    case J_CREATE: case J_REPLACE: case J_RENAME: case J_UNLINK:
    case J_LINK: case J_MKDIR: case J_RMDIR:
      e->dirseq = v->ndirops++;
      break;
  }
  return e;
}

int vfs_jlen(const vfs_t *v) { return v->njournal; }

int
vfs_ndirops_before(const vfs_t *v, int t) {
  int i, n = 0;
  for (i = 0; i < t && i < v->njournal; i++)
    if (v->journal[i].dirseq >= 0)
      n++;
  return n;
}

int
vfs_watermark(const vfs_t *v, int t) {
  int i, n = 0, w = 0;
  for (i = 0; i < t && i < v->njournal; i++) {
    if (v->journal[i].dirseq >= 0)
      n++;
    if (v->journal[i].kind == J_FSYNC || v->journal[i].kind == J_FSYNCDIR)
      w = n;
  }
  return w;
}

void
vfs_lens_at(const vfs_t *v, int t, size_t *written, size_t *synced) {
  int i;
  for (i = 0; i < v->ninodes; i++) {
    written[i] = v->inodes[i]->base_len;
    synced[i] = v->inodes[i]->base_len;
  }
  for (i = 0; i < t && i < v->njournal; i++) {
    const vjent_t *e = &v->journal[i];
    if (e->kind == J_WRITE)
      written[e->ino] = e->off + e->len;
    else if (e->kind == J_FSYNC)
      synced[e->ino] = written[e->ino];
  }
}

size_t
vfs_written_len(const vfs_t *v, int ino, int t) {
  size_t *w = malloc(sizeof(size_t) * (v->ninodes + 1)), *s = malloc(sizeof(size_t) * (v->ninodes + 1)), r;
  vfs_lens_at(v, t, w, s);
  r = w[ino];
  free(w); free(s);
  return r;
}

size_t
vfs_synced_len(const vfs_t *v, int ino, int t) {
  size_t *w = malloc(sizeof(size_t) * (v->ninodes + 1)), *s = malloc(sizeof(size_t) * (v->ninodes + 1)), r;
  vfs_lens_at(v, t, w, s);
  r = s[ino];
  free(w); free(s);
  return r;
}

void
vfs_base_snapshot(vfs_t *v) {
  int i;
  free_journal(v);
  for (i = 0; i < v->nbase; i++)
    free(v->base[i].path);
  free(v->base);
  v->base = malloc(sizeof(vname_t) * (v->nnames + 1));
  v->nbase = v->nnames;
  for (i = 0; i < v->nnames; i++) {
    v->base[i].path = strdup(v->names[i].path);
    v->base[i].ino = v->names[i].ino;
  }
  for (i = 0; i < v->ninodes; i++) {
    v->inodes[i]->base_len = v->inodes[i]->len;
    v->inodes[i]->synced_len = v->inodes[i]->len;
  }
  v->ncalls = 0;
}

static void
copy_inode_into(vfs_t *dst, const vinode_t *src, size_t len, int *map) {
  vinode_t *n;
  if (map[src->id] >= 0)
    return;
  n = new_inode(dst, src->is_dir);
  map[src->id] = n->id;
  if (len > src->len)
    len = src->len;
  if (len > 0) {
    n->data = malloc(len);
    memcpy(n->data, src->data, len);
  }
  n->len = n->cap = len;
  n->synced_len = len;
  n->base_len = len;
}

vfs_t *
vfs_clone(const vfs_t *v) {
  vfs_t *d = vfs_new();
  int *map = malloc(sizeof(int) * (v->ninodes + 1));
  int i;
  for (i = 0; i < v->ninodes; i++)
    map[i] = -1;
  for (i = 0; i < v->nnames; i++) {
    const vinode_t *s = v->inodes[v->names[i].ino];
    copy_inode_into(d, s, s->len, map);
    add_name(d, v->names[i].path, map[s->id]);
  }
  free(map);
  d->rlimit_nofile = v->rlimit_nofile;
  vfs_base_snapshot(d);
  return d;
}

vfs_t *
vfs_image(const vfs_t *v, int t, int D, const size_t *lens) {
  vfs_t *d = vfs_new();
  /* namespace: path -> source inode id */
  vname_t *ns = malloc(sizeof(vname_t) * (v->nbase + v->njournal + 1));
  int nns = 0, i, j;
  int *map = malloc(sizeof(int) * (v->ninodes + 1));
  for (i = 0; i < v->nbase; i++)
    ns[nns++] = v->base[i];
  for (i = 0; i < t && i < v->njournal; i++) {
    const vjent_t *e = &v->journal[i];
    if (e->dirseq < 0 || e->dirseq >= D)
      continue;
    switch (e->kind) {
      case J_CREATE: case J_MKDIR:
        ns[nns].path = e->path; ns[nns].ino = e->ino; nns++;
        break;
      case J_REPLACE:
        for (j = 0; j < nns; j++)
          if (strcmp(ns[j].path, e->path) == 0)
            ns[j].ino = e->ino;
        break;
      case J_UNLINK: case J_RMDIR:
        for (j = 0; j < nns; j++)
          if (strcmp(ns[j].path, e->path) == 0) { ns[j] = ns[--nns]; break; }
        break;
      case J_RENAME: {
        int src = -1;
        for (j = 0; j < nns; j++)
          if (strcmp(ns[j].path, e->path2) == 0) { ns[j] = ns[--nns]; break; }
        for (j = 0; j < nns; j++)
          if (strcmp(ns[j].path, e->path) == 0) src = j;
        if (src >= 0) ns[src].path = e->path2;
        break;
      }
      case J_LINK:
        ns[nns].path = e->path2; ns[nns].ino = e->ino; nns++;
        break;
    }
  }
  for (i = 0; i < v->ninodes; i++)
    map[i] = -1;
  for (i = 0; i < nns; i++) {
    const vinode_t *s = v->inodes[ns[i].ino];
    copy_inode_into(d, s, lens[s->id], map);
    add_name(d, ns[i].path, map[s->id]);
  }
  free(ns);
  free(map);
  d->rlimit_nofile = v->rlimit_nofile;
  vfs_base_snapshot(d);
  return d;
}

void
vfs_drop_process_state(vfs_t *v) {
  int i;
  for (i = 0; i < v->nfds; i++)
    v->fds[i].used = 0;
  for (i = 0; i < v->ninodes; i++) {
    v->inodes[i]->opens = 0;
    v->inodes[i]->locked = 0;
  }
}

void
vfs_fault_clear(vfs_t *v) {
  v->fault.at = -1;
  v->fault.persistent = 0;
  v->fault.err = 0;
  v->fault.short_n = -1;
  v->fault.kind_filter = 0;
  v->fault.fired = 0;
  v->fault.pending_err = 0;
  v->fault.sel_kind = 0;
  v->fault.sel_ord = 0;
  v->fault.sel_seen = 0;
  v->fault.sel_short = -1;
  v->fault.sel_name[0] = 0;
}

int
vfs_list(const vfs_t *v, const char *dir, char names[][64], int max) {
  size_t dl = strlen(dir);
  int i, n = 0, a, b;
  for (i = 0; i < v->nnames; i++) {
    const char *p = v->names[i].path;
    if (strncmp(p, dir, dl) == 0 && p[dl] == '/' && strchr(p + dl + 1, '/') == NULL) {
      if (n < max) {
        strncpy(names[n], p + dl + 1, 63);
        names[n][63] = 0;
        n++;
      }
    }
  }
  /* ascending (or descending) by name: listing order is an environment choice */
  for (a = 1; a < n; a++)
    for (b = a; b > 0; b--) {
      int c = strcmp(names[b - 1], names[b]);
      if (v->readdir_desc ? c < 0 : c > 0) {
        char tmp[64];
        memcpy(tmp, names[b - 1], 64);
        memcpy(names[b - 1], names[b], 64);
        memcpy(names[b], tmp, 64);
      } else break;
    }
  return n;
}

int
vfs_put_file(vfs_t *v, const char *path, const void *data, size_t len) {
  int i = find_name(v, path);
  vinode_t *n;
  if (i >= 0)
    del_name(v, i);
  n = new_inode(v, 0);
  if (len) {
    n->data = malloc(len);
    memcpy(n->data, data, len);
  }
  n->len = n->cap = n->synced_len = n->base_len = len;
  add_name(v, path, n->id);
  return n->id;
}

int
vfs_remove(vfs_t *v, const char *path) {
  int i = find_name(v, path);
  if (i < 0)
    return -1;
  del_name(v, i);
  return 0;
}

uint64_t
vfs_hash(const vfs_t *v, const char *dir, int skip_info) {
  char names[512][64];
  int n = vfs_list(v, dir, names, 512), i;
  uint64_t h = 0x9e3779b97f4a7c15ull;
  int saved = v->readdir_desc;
  (void)saved;
  for (i = 0; i < n; i++) {
    char p[1200];
    const vinode_t *ino;
    if (skip_info && (strcmp(names[i], "LOG") == 0 || strcmp(names[i], "LOG.old") == 0 || strcmp(names[i], "LOCK") == 0))
      continue;
    snprintf(p, sizeof(p), "%s/%s", dir, names[i]);
    ino = v->inodes[vfs_lookup(v, p)];
    h = vh_mix(h, vh_hash64(names[i], strlen(names[i]), 1));
    h = vh_mix(h, ino->is_dir ? 77 : vh_hash64(ino->data, ino->len, 2));
    h = vh_mix(h, ino->len);
  }
  return h;
}

int
vfs_foreign_trylock(vfs_t *v, const char *path) {
  int i = vfs_lookup(v, path);
  if (i < 0)
    return 1; /* it would create the file and lock it */
  if (v->inodes[i]->locked || v->inodes[i]->foreign_locked)
    return 0;
  v->inodes[i]->foreign_locked = 1;
  return 1;
}

void
vfs_foreign_unlock(vfs_t *v, const char *path) {
  int i = vfs_lookup(v, path);
  if (i >= 0)
    v->inodes[i]->foreign_locked = 0;
}

const char *
vfs_jkind(int k) {
  static const char *n[] = {"?", "CREATE", "REPLACE", "WRITE", "FSYNC", "FSYNCDIR", "RENAME",
                            "UNLINK", "LINK", "MKDIR", "RMDIR", "CLOSE"};
  return (k >= 0 && k <= J_CLOSE) ? n[k] : "?";
}

const char *
vfs_ckind(int k) {
  static const char *n[] = {"?", "open", "write", "fsync", "rename", "unlink", "close", "mkdir",
                            "rmdir", "link", "read", "lseek", "mmap", "fcntl", "opendir",
                            "stat", "access", "fstat"};
  return (k >= 0 && k < C_NKINDS) ? n[k] : "?";
}

void
vfs_dump_journal(const vfs_t *v, FILE *f, int from, int to) {
  int i;
  for (i = from; i < to && i < v->njournal; i++) {
    const vjent_t *e = &v->journal[i];
    fprintf(f, "  j%-4d t%d %-8s ino=%d", i, e->tid, vfs_jkind(e->kind), e->ino);
    if (e->kind == J_WRITE)
      fprintf(f, " off=%zu len=%zu", e->off, e->len);
    if (e->path)
      fprintf(f, " %s", base_of(e->path));
    if (e->path2)
      fprintf(f, " -> %s", base_of(e->path2));
    fprintf(f, "\n");
  }
}

/* ------------------------------------------------------------------ */
/* fault injection and call log                                       */
/* ------------------------------------------------------------------ */

static const char *
ino_path(const vfs_t *v, int ino) {
  int i;
  for (i = 0; i < v->nnames; i++)
    if (v->names[i].ino == ino)
      return v->names[i].path;
  return NULL;
}

/* returns 0 = proceed normally, 1 = fail with errno set, 2 = short transfer
 * of *short_n bytes */
static int
fault_check(vfs_t *v, int kind, const char *name, size_t len, long *short_n) {
  long idx = v->ncalls++;
  vfault_t *f = &v->fault;
  int fire = 0;
  if (v->log_calls) {
    vcall_t *c;
    if (v->ncalls > v->capcalls) {
      v->capcalls = v->capcalls ? v->capcalls * 2 : 256;
      v->calls = realloc(v->calls, v->capcalls * sizeof(vcall_t));
    }
    c = &v->calls[idx];
    c->kind = (unsigned char)kind;
    c->tid = (unsigned char)sch_self();
    c->jidx = v->njournal;
    c->len = len;
    strncpy(c->name, name ? base_of(name) : "", sizeof(c->name) - 1);
    c->name[sizeof(c->name) - 1] = 0;
  }
  if (f->pending_err && kind == f->kind_filter) {
    /* the call after a short transfer fails */
    f->pending_err = 0;
    if (!f->persistent)
      f->kind_filter = 0;
    f->fired++;
    errno = f->err;
    return 1;
  }
  if (f->sel_kind && kind == f->sel_kind && name && strstr(base_of(name), f->sel_name)) {
    if (++f->sel_seen == f->sel_ord) {
      f->fired++;
      if (f->sel_short >= 0 && (kind == C_READ || kind == C_WRITE)) {
        long n = f->sel_short;
        if ((size_t)n >= len)
          return 0;   /* not short for this call: proceed normally */
        *short_n = n;
        return 2;
      }
      errno = f->err;
      return 1;
    }
  }
  if (f->at < 0)
    return 0;
  if (idx == f->at) {
    fire = 1;
    f->kind_filter = kind;
  } else if (f->persistent && idx > f->at && kind == f->kind_filter && f->fired > 0) {
    fire = 1;
  }
  if (!fire)
    return 0;
  f->fired++;
  if (getenv("VH_DEBUG_FAULT_ABORT"))
    abort();
  if (f->short_n >= 0 && (kind == C_WRITE || kind == C_READ) && idx == f->at) {
    long n = f->short_n;
    if ((size_t)n >= len)
      n = len ? (long)len - 1 : 0;
    *short_n = n;
    if (f->err != 0)
      f->pending_err = 1;   /* err == 0: a legal short transfer, nothing fails afterwards */
    return 2;
  }
  errno = f->err;
  return 1;
}

/* ------------------------------------------------------------------ */
/* libc entry points                                                  */
/* ------------------------------------------------------------------ */

static vfd_t *
getfd(int fd) {
  vfs_t *v = vfs_cur;
  int i = fd - VFS_FD_BASE;
  if (!v || i < 0 || i >= v->nfds || !v->fds[i].used)
    return NULL;
  return &v->fds[i];
}

int
open(const char *path, int flags, ...) {
  VH_ENTER;
  vfs_t *v = vfs_cur;
  char buf[1200];
  mode_t mode = 0;
  int ni, i, ino;
  long sn;
  if (flags & O_CREAT) {
    va_list ap;
    va_start(ap, flags);
    mode = va_arg(ap, mode_t);
    va_end(ap);
  }
  if (!is_vpath(path))
    return (int)syscall(SYS_openat, AT_FDCWD, path, flags, mode);
  if (!v)
    vh_die("vfs path used without a vfs: %s", path);
  norm(path, buf, sizeof(buf));
  sch_io_point(NULL);
  if (fault_check(v, C_OPEN, buf, 0, &sn) == 1)
    return -1;
  ni = find_name(v, buf);
  if (ni < 0 && strcmp(buf, "/vfs") != 0) {
    if (!(flags & O_CREAT)) { errno = ENOENT; return -1; }
    if (!parent_exists(v, buf)) { errno = ENOENT; return -1; }
    ino = new_inode(v, 0)->id;
    add_name(v, buf, ino);
    jadd(v, J_CREATE, ino, buf, NULL);
  } else {
    if ((flags & O_CREAT) && (flags & O_EXCL)) { errno = EEXIST; return -1; }
    ino = v->names[ni].ino;
    if (v->inodes[ino]->is_dir) {
      if ((flags & O_ACCMODE) != O_RDONLY) { errno = EISDIR; return -1; }
    } else if (flags & O_TRUNC) {
      /* replace the name by a fresh inode (ordered with directory ops) */
      vinode_t *old = v->inodes[ino];
      vinode_t *n = new_inode(v, 0);
      vjent_t *e;
      if (old->len > 0)
        v->trunc_live_events++;
      old->nlink--;
      v->names[ni].ino = n->id;
      n->nlink = 1;
      e = jadd(v, J_REPLACE, n->id, buf, NULL);
      e->ino2 = ino;
      ino = n->id;
    }
  }
  for (i = 0; i < v->nfds; i++)
    if (!v->fds[i].used)
      break;
  if (i == v->nfds) { errno = EMFILE; return -1; }
  v->fds[i].used = 1;
  v->fds[i].ino = ino;
  v->fds[i].off = 0;
  v->fds[i].flags = flags;
  v->inodes[ino]->opens++;
  return VFS_FD_BASE + i;
}

int
close(int fd) {
  VH_ENTER;
  vfs_t *v = vfs_cur;
  vfd_t *f = getfd(fd);
  vinode_t *n;
  long sn;
  int r = 0;
  if (fd < VFS_FD_BASE)
    return (int)syscall(SYS_close, fd);
  if (!f) { errno = EBADF; return -1; }
  sch_io_point(NULL);
  if (fault_check(v, C_CLOSE, ino_path(v, f->ino), 0, &sn) == 1)
    r = -1;
  n = v->inodes[f->ino];
  n->opens--;
  n->locked = 0; /* POSIX: closing ANY descriptor of the file drops the process's record locks */
  f->used = 0;
  jadd(v, J_CLOSE, n->id, NULL, NULL);
  return r;
}

ssize_t
read(int fd, void *buf, size_t count) {
  VH_ENTER;
  vfs_t *v = vfs_cur;
  vfd_t *f = getfd(fd);
  vinode_t *n;
  size_t avail;
  long sn = -1;
  int fc;
  if (fd < VFS_FD_BASE)
    return syscall(SYS_read, fd, buf, count);
  if (!f) { errno = EBADF; return -1; }
  if ((f->flags & O_ACCMODE) == O_WRONLY) { errno = EBADF; return -1; }
  fc = fault_check(v, C_READ, ino_path(v, f->ino), count, &sn);
  if (fc == 1)
    return -1;
  n = v->inodes[f->ino];
  if (n->is_dir) { errno = EISDIR; return -1; }
  avail = f->off < n->len ? n->len - f->off : 0;
  if (count > avail)
    count = avail;
  if (fc == 2 && (size_t)sn < count)
    count = (size_t)sn;
  vcopy(buf, n->data + f->off, count);
  f->off += count;
  return (ssize_t)count;
}

ssize_t
write(int fd, const void *buf, size_t count) {
  VH_ENTER;
  vfs_t *v = vfs_cur;
  vfd_t *f = getfd(fd);
  vinode_t *n;
  vjent_t *e;
  long sn = -1;
  int fc;
  if (fd < VFS_FD_BASE)
    return syscall(SYS_write, fd, buf, count);
  if (!f) { errno = EBADF; return -1; }
  if ((f->flags & O_ACCMODE) == O_RDONLY) { errno = EBADF; return -1; }
  sch_io_point(NULL);
  n = v->inodes[f->ino];
  fc = fault_check(v, C_WRITE, ino_path(v, f->ino), count, &sn);
  if (fc == 1)
    return -1;
  if (fc == 2)
    count = (size_t)sn;
  if (count == 0)
    return 0;
  if (f->flags & O_APPEND)
    f->off = n->len;
  if (f->off != n->len)
    vh_die("vfs: non-append write (off=%zu len=%zu)", f->off, n->len);
  if (n->len + count > n->cap) {
    n->cap = (n->len + count) * 2 + 64;
    n->data = realloc(n->data, n->cap);
  }
  vcopy(n->data + n->len, buf, count);
  e = jadd(v, J_WRITE, n->id, NULL, NULL);
  e->off = n->len;
  e->len = count;
  n->len += count;
  f->off = n->len;
  return (ssize_t)count;
}

off_t
lseek(int fd, off_t off, int whence) {
  VH_ENTER;
  vfs_t *v = vfs_cur;
  vfd_t *f = getfd(fd);
  long sn;
  off_t nv;
  if (fd < VFS_FD_BASE)
    return (off_t)syscall(SYS_lseek, fd, off, whence);
  if (!f) { errno = EBADF; return -1; }
  if (fault_check(v, C_LSEEK, ino_path(v, f->ino), 0, &sn) == 1)
    return -1;
  switch (whence) {
    case SEEK_SET: nv = off; break;
    case SEEK_CUR: nv = (off_t)f->off + off; break;
    case SEEK_END: nv = (off_t)v->inodes[f->ino]->len + off; break;
    default: errno = EINVAL; return -1;
  }
  if (nv < 0) { errno = EINVAL; return -1; }
  f->off = (size_t)nv;
  return nv;
}

static int
do_fsync(int fd) {
  vfs_t *v = vfs_cur;
  vfd_t *f = getfd(fd);
  vinode_t *n;
  long sn;
  if (!f) { errno = EBADF; return -1; }
  sch_io_point(NULL);
  if (fault_check(v, C_FSYNC, ino_path(v, f->ino), 0, &sn) == 1)
    return -1;
  n = v->inodes[f->ino];
  if (n->is_dir) {
    jadd(v, J_FSYNCDIR, n->id, NULL, NULL);
  } else {
    n->synced_len = n->len;
    jadd(v, J_FSYNC, n->id, NULL, NULL);
  }
  return 0;
}

int
fsync(int fd) {
  VH_ENTER;
  if (fd < VFS_FD_BASE)
    return (int)syscall(SYS_fsync, fd);
  return do_fsync(fd);
}

int
fdatasync(int fd) {
  VH_ENTER;
  if (fd < VFS_FD_BASE)
    return (int)syscall(SYS_fdatasync, fd);
  return do_fsync(fd);
}

int
rename(const char *from, const char *to) {
  VH_ENTER;
  vfs_t *v = vfs_cur;
  char a[1200], b[1200];
  int i, j;
  long sn;
  if (!is_vpath(from) || !is_vpath(to))
    return (int)syscall(SYS_renameat, AT_FDCWD, from, AT_FDCWD, to);
  norm(from, a, sizeof(a));
  norm(to, b, sizeof(b));
  sch_io_point(NULL);
  if (fault_check(v, C_RENAME, a, 0, &sn) == 1)
    return -1;
  i = find_name(v, a);
  if (i < 0) { errno = ENOENT; return -1; }
  if (!parent_exists(v, b)) { errno = ENOENT; return -1; }
  if (strcmp(a, b) == 0)
    return 0;
  j = find_name(v, b);
  if (j >= 0) {
    int fd_ = v->inodes[v->names[i].ino]->is_dir, td_ = v->inodes[v->names[j].ino]->is_dir;
    if (v->names[j].ino == v->names[i].ino)
      return 0; /* POSIX: both names are links to the same file: nothing happens */
    if (!fd_ && td_) { errno = EISDIR; return -1; }
    if (fd_ && !td_) { errno = ENOTDIR; return -1; }
    if (fd_) vh_die("vfs: rename of a directory onto a directory is not modelled");
    del_name(v, j);
    i = find_name(v, a);
  }
  if (v->inodes[v->names[i].ino]->is_dir)
    vh_die("vfs: rename of a directory is not modelled (%s)", a);
  free(v->names[i].path);
  v->names[i].path = strdup(b);
  jadd(v, J_RENAME, v->names[i].ino, a, b);
  return 0;
}

int
unlink(const char *path) {
  VH_ENTER;
  vfs_t *v = vfs_cur;
  char a[1200];
  int i, ino;
  long sn;
  if (!is_vpath(path))
    return (int)syscall(SYS_unlinkat, AT_FDCWD, path, 0);
  norm(path, a, sizeof(a));
  sch_io_point(NULL);
  if (fault_check(v, C_UNLINK, a, 0, &sn) == 1)
    return -1;
  i = find_name(v, a);
  if (i < 0) { errno = ENOENT; return -1; }
  ino = v->names[i].ino;
  if (v->inodes[ino]->is_dir) { errno = EISDIR; return -1; }
  if (v->inodes[ino]->opens > 0)
    v->unlink_open_events++;
  del_name(v, i);
  jadd(v, J_UNLINK, ino, a, NULL);
  return 0;
}

int
mkdir(const char *path, mode_t mode) {
  VH_ENTER;
  vfs_t *v = vfs_cur;
  char a[1200];
  int ino;
  long sn;
  if (!is_vpath(path))
    return (int)syscall(SYS_mkdirat, AT_FDCWD, path, mode);
  if (!v)
    vh_die("vfs path used without a vfs: %s", path);
  norm(path, a, sizeof(a));
  sch_io_point(NULL);
  if (fault_check(v, C_MKDIR, a, 0, &sn) == 1)
    return -1;
  if (find_name(v, a) >= 0) { errno = EEXIST; return -1; }
  if (!parent_exists(v, a)) { errno = ENOENT; return -1; }
  ino = new_inode(v, 1)->id;
  add_name(v, a, ino);
  jadd(v, J_MKDIR, ino, a, NULL);
  return 0;
}

int
rmdir(const char *path) {
  VH_ENTER;
  vfs_t *v = vfs_cur;
  char a[1200];
  int i, k, ino;
  size_t al;
  long sn;
  if (!is_vpath(path))
    return (int)syscall(SYS_unlinkat, AT_FDCWD, path, AT_REMOVEDIR);
  norm(path, a, sizeof(a));
  sch_io_point(NULL);
  if (fault_check(v, C_RMDIR, a, 0, &sn) == 1)
    return -1;
  i = find_name(v, a);
  if (i < 0) { errno = ENOENT; return -1; }
  ino = v->names[i].ino;
  if (!v->inodes[ino]->is_dir) { errno = ENOTDIR; return -1; }
  al = strlen(a);
  for (k = 0; k < v->nnames; k++)
    if (strncmp(v->names[k].path, a, al) == 0 && v->names[k].path[al] == '/') {
      errno = ENOTEMPTY;
      return -1;
    }
  del_name(v, i);
  jadd(v, J_RMDIR, ino, a, NULL);
  return 0;
}

int
link(const char *from, const char *to) {
  VH_ENTER;
  vfs_t *v = vfs_cur;
  char a[1200], b[1200];
  int i;
  long sn;
  if (!is_vpath(from) || !is_vpath(to))
    return (int)syscall(SYS_linkat, AT_FDCWD, from, AT_FDCWD, to, 0);
  norm(from, a, sizeof(a));
  norm(to, b, sizeof(b));
  sch_io_point(NULL);
  if (fault_check(v, C_LINK, a, 0, &sn) == 1)
    return -1;
  i = find_name(v, a);
  if (i < 0) { errno = ENOENT; return -1; }
  if (find_name(v, b) >= 0) { errno = EEXIST; return -1; }
  if (!parent_exists(v, b)) { errno = ENOENT; return -1; }
  add_name(v, b, v->names[i].ino);
  jadd(v, J_LINK, v->names[i].ino, a, b);
  return 0;
}

int
access(const char *path, int mode) {
  VH_ENTER;
  vfs_t *v = vfs_cur;
  char a[1200];
  long sn;
  if (!is_vpath(path))
    return (int)syscall(SYS_faccessat, AT_FDCWD, path, mode);
  norm(path, a, sizeof(a));
  if (fault_check(v, C_ACCESS, a, 0, &sn) == 1)
    return -1;
  if (strcmp(a, "/vfs") == 0 || find_name(v, a) >= 0)
    return 0;
  errno = ENOENT;
  return -1;
}

static void
fill_stat(const vinode_t *n, struct stat *st) {
  memset(st, 0, sizeof(*st));
  st->st_dev = 0x5646;
  st->st_ino = n->ino;
  st->st_mode = (n->is_dir ? S_IFDIR | 0755 : S_IFREG | 0644);
  st->st_nlink = n->nlink > 0 ? n->nlink : 1;
  st->st_size = (off_t)n->len;
  st->st_blksize = 4096;
}

int
stat(const char *path, struct stat *st) {
  VH_ENTER;
  vfs_t *v = vfs_cur;
  char a[1200];
  int i;
  long sn;
  if (!is_vpath(path))
    return (int)syscall(SYS_newfstatat, AT_FDCWD, path, st, 0);
  norm(path, a, sizeof(a));
  if (fault_check(v, C_STAT, a, 0, &sn) == 1)
    return -1;
  i = find_name(v, a);
  if (i < 0) { errno = ENOENT; return -1; }
  fill_stat(v->inodes[v->names[i].ino], st);
  return 0;
}

int
fstat(int fd, struct stat *st) {
  VH_ENTER;
  vfs_t *v = vfs_cur;
  vfd_t *f = getfd(fd);
  long sn;
  if (fd < VFS_FD_BASE)
    return (int)syscall(SYS_newfstatat, fd, "", st, AT_EMPTY_PATH);
  if (!f) { errno = EBADF; return -1; }
  if (fault_check(v, C_FSTAT, NULL, 0, &sn) == 1)
    return -1;
  fill_stat(v->inodes[f->ino], st);
  return 0;
}

DIR *
opendir(const char *path) {
  VH_ENTER;
  vfs_t *v = vfs_cur;
  char a[1200];
  vdir_t *d;
  int i;
  long sn;
  if (!is_vpath(path)) {
    /* a real directory (environment-conformance driver): listed with getdents64 in the kernel's own order */
    int fd = (int)syscall(SYS_openat, AT_FDCWD, path, O_RDONLY | O_DIRECTORY, 0);
    char buf[8192];
    long n;
    if (fd < 0) return NULL;
    d = calloc(1, sizeof(*d));
    d->magic = VDIR_MAGIC;
    d->names = malloc(64 * 1024);
    d->pos = -2;
    while ((n = syscall(SYS_getdents64, fd, buf, sizeof(buf))) > 0) {
      long off = 0;
      while (off < n) {
        /* struct linux_dirent64: u64 ino, s64 off, u16 reclen, u8 type, char name[] */
        unsigned short reclen;
        const char *nm = buf + off + 19;
        memcpy(&reclen, buf + off + 16, 2);
        if (strcmp(nm, ".") != 0 && strcmp(nm, "..") != 0 && d->n < 1024) {
          strncpy(d->names[d->n], nm, 63);
          d->names[d->n][63] = 0;
          d->n++;
        }
        off += reclen;
      }
    }
    syscall(SYS_close, fd);
    return (DIR *)d;
  }
  norm(path, a, sizeof(a));
  if (fault_check(v, C_OPENDIR, a, 0, &sn) == 1)
    return NULL;
  i = find_name(v, a);
  if (i < 0) { errno = ENOENT; return NULL; }
  if (!v->inodes[v->names[i].ino]->is_dir) { errno = ENOTDIR; return NULL; }
  d = calloc(1, sizeof(*d));
  d->magic = VDIR_MAGIC;
  d->names = malloc(64 * 1024);
  d->n = vfs_list(v, a, d->names, 1024);
  d->pos = -2;
  return (DIR *)d;
}

struct dirent *
readdir(DIR *dp) {
  VH_ENTER;
  vdir_t *d = (vdir_t *)dp;
  if (!d || d->magic != VDIR_MAGIC)
    vh_die("readdir on a foreign DIR");
  memset(&d->ent, 0, sizeof(d->ent));
  if (d->pos == -2) { strcpy(d->ent.d_name, "."); d->pos++; return &d->ent; }
  if (d->pos == -1) { strcpy(d->ent.d_name, ".."); d->pos++; return &d->ent; }
  if (d->pos >= d->n)
    return NULL;
  strcpy(d->ent.d_name, d->names[d->pos++]);
  return &d->ent;
}

int
closedir(DIR *dp) {
  VH_ENTER;
  vdir_t *d = (vdir_t *)dp;
  if (!d || d->magic != VDIR_MAGIC)
    vh_die("closedir on a foreign DIR");
  d->magic = 0;
  free(d->names);
  free(d);
  return 0;
}

int
fcntl(int fd, int cmd, ...) {
  VH_ENTER;
  vfs_t *v = vfs_cur;
  vfd_t *f;
  va_list ap;
  void *arg;
  long sn;
  va_start(ap, cmd);
  arg = va_arg(ap, void *);
  va_end(ap);
  if (fd < VFS_FD_BASE)
    return (int)syscall(SYS_fcntl, fd, cmd, arg);
  f = getfd(fd);
  if (!f) { errno = EBADF; return -1; }
  switch (cmd) {
    case F_GETFD: return 0;
    case F_SETFD: return 0;
    case F_SETLK: {
      struct flock *fl = arg;
      vinode_t *n = v->inodes[f->ino];
      if (fault_check(v, C_FCNTL, NULL, 0, &sn) == 1)
        return -1;
      if (fl->l_type == F_UNLCK) {
        n->locked = 0;
        return 0;
      }
      if (n->foreign_locked) { errno = EAGAIN; return -1; }
      n->locked = 1; /* per process: a second F_SETLK by the same process succeeds */
      return 0;
    }
    default:
      errno = EINVAL;
      return -1;
  }
}

void *
mmap(void *addr, size_t len, int prot, int flags, int fd, off_t off) {
  VH_ENTER;
  vfs_t *v = vfs_cur;
  vfd_t *f;
  vinode_t *n;
  void *p;
  long sn;
  if (fd < VFS_FD_BASE)
    return (void *)syscall(SYS_mmap, addr, len, prot, flags, fd, off);
  f = getfd(fd);
  if (!f) { errno = EBADF; return MAP_FAILED; }
  if (fault_check(v, C_MMAP, ino_path(v, f->ino), len, &sn) == 1)
    return MAP_FAILED;
  if (len == 0) { errno = EINVAL; return MAP_FAILED; }
  n = v->inodes[f->ino];
  if (nmaps == 4096)
    vh_die("too many mappings");
  p = malloc(len);
  if ((size_t)off < n->len)
    vcopy(p, n->data + off, (n->len - off < len) ? n->len - off : len);
  maps[nmaps].p = p;
  maps[nmaps].n = len;
  nmaps++;
  return p;
}

int
munmap(void *addr, size_t len) {
  VH_ENTER;
  int i;
  for (i = 0; i < nmaps; i++)
    if (maps[i].p == addr) {
      free(addr);
      maps[i] = maps[--nmaps];
      return 0;
    }
  return (int)syscall(SYS_munmap, addr, len);
}

int
getrlimit(__rlimit_resource_t res, struct rlimit *rl) {
  VH_ENTER;
  if (res == RLIMIT_NOFILE && vfs_cur) {
    rl->rlim_cur = rl->rlim_max = (rlim_t)vfs_cur->rlimit_nofile;
    return 0;
  }
  return (int)syscall(SYS_prlimit64, 0, res, NULL, rl);
}

int
select(int nfds, fd_set *r, fd_set *w, fd_set *e, struct timeval *tv) {
  VH_ENTER;
  if (nfds == 0 && !r && !w && !e) {
    sch_yield_point();
    return 0;
  }
  return (int)syscall(SYS_select, nfds, r, w, e, tv);
}

int
gettimeofday(struct timeval *tv, void *tz) {
  VH_ENTER;
  (void)tz;
  /* logical time: deterministic, only feeds statistics */
  tv->tv_sec = 1700000000 + (time_t)(sch_clock / 1000000);
  tv->tv_usec = (suseconds_t)(sch_clock % 1000000);
  return 0;
}
