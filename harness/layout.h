/* layout.h - C14 oracle (see layout.c) */
#ifndef LAYOUT_H
#define LAYOUT_H
#include "kv.h"
#include "rm_manifest.h"

typedef struct lay_stats_s { uint64_t files, entries; } lay_stats_t;

/* fold of the live MANIFEST (independent decoders); 1 ok */
int lay_manifest_state(const char *dbdir, rm_state_t *st, char *err, size_t en);
/* full well-formedness check of the reported level structure; 1 ok */
int lay_check(ldb_t *db, const char *dbdir, const kcfg_t *cfg, lay_stats_t *stats, char *err, size_t en);

/* directory == live files, live logs taken from the MANIFEST's log number; 1 ok */
int lay_reported_equals_manifest(ldb_t *db, const char *dbdir, char *err, size_t en);
int lay_reported_tables_exist(ldb_t *db, const char *dbdir, char *err, size_t en);
int lay_current_names_existing_manifest(const char *dbdir, char *err, size_t en);
int lay_manifest_tables_exist(const char *dbdir, char *err, size_t en);
int lay_files_exact_check(ldb_t *db, const char *dbdir, char *err, size_t en);

#endif
